package main

import (
	"bytes"
	"encoding/json"
	"flag"
	"fmt"
	"hash/fnv"
	"image"
	"image/color"
	"os"
	"regexp"
	"runtime/debug"
	"strconv"
	"strings"
	"time"

	"github.com/reactivego/ivg"
	"github.com/reactivego/ivg/decode"
	"github.com/reactivego/ivg/encode"
	"github.com/reactivego/ivg/raster/vec"
	"github.com/reactivego/ivg/render"
)

// ---- decoder trace recording ---------------------------------------------------------

type srcEv struct {
	Ev    string        `json:"ev"`
	ID    string        `json:"id"`
	B     []int         `json:"b"`
	Opts  []interface{} `json:"opts"`
	Cuts  [][3]int      `json:"cuts,omitempty"`
	Lines []lineJ       `json:"lines,omitempty"`
}

type lineJ struct {
	B    []int `json:"b"`
	Num  []int `json:"num"`  // operand lines: float32 bits of the first token when it parses as a number, else empty
	Ints []int `json:"ints"` // opcode lines: every unsigned decimal integer in the text, in order
	PP   int   `json:"pp"`   // opcode lines: 1 when the text contains "++"
	Col  *colJ `json:"col,omitempty"`
}

// colJ is a colour (or arc flags) text of an operand line, tokenised:
// "RGBA rrggbbaa" -> rgba [r g b a]; "customPalette[i]" -> pal [i]; "CREG[i]" -> creg [i];
// "gradient (NSTOPS=n, CBASE=c, NBASE=b, linear|radial, none|pad|reflect|repeat)" -> gradient [n c b shape spread];
// "blend (p:q) (X:Y)" -> blend [p q] with X, Y nested; "nonsensical color" -> nonsense;
// "0xN (largeArc=a, sweep=s)" -> flags [a s].
type colJ struct {
	K  string `json:"k"`
	V  []int  `json:"v"`
	C0 *colJ  `json:"c0,omitempty"`
	C1 *colJ  `json:"c1,omitempty"`
}

type callEv struct {
	Ev   string   `json:"ev"`
	Call Call     `json:"call"`
	H    int      `json:"h"`
	Rz   []string `json:"rz,omitempty"`
}

type endEv struct {
	Ev        string `json:"ev"`
	OK        int    `json:"ok"`
	Err       string `json:"err"`
	ErrType   string `json:"errtype"`
	Panic     int    `json:"panic"`
	Unchanged int    `json:"unchanged"`
	NCalls    int    `json:"ncalls"`
	VbOK      *int   `json:"vbok,omitempty"`
	Vb        []F    `json:"vb,omitempty"`
	DisOK     *int   `json:"disok,omitempty"`
	DisErr    string `json:"diserr"`
	RendOK    *int   `json:"rendok,omitempty"`
	EncOK     *int   `json:"encok,omitempty"`
	NilDst    *int   `json:"nildst,omitempty"`
	LogDst    *int   `json:"logdst,omitempty"`
	VecDst    *int   `json:"vecdst,omitempty"` // Decode into a Renderer that draws through a real raster/vec.Rasterizer
	VecPanic  string `json:"vecpanic"`         // "" or "<package of the innermost non-runtime frame>:<panic message>" of a panic on that route
}

func intp(i int) *int { return &i }

func errType(err error) string {
	if err == nil {
		return ""
	}
	if _, ok := err.(decode.DecodeError); ok {
		return "DecodeError"
	}
	return fmt.Sprintf("%T", err)
}

// outcome of running f under recover and a watchdog
type outcome struct {
	err    error
	panicv interface{}
	hang   bool
}

func guarded(f func() error) (o outcome) {
	done := make(chan outcome, 1)
	go func() {
		var oo outcome
		defer func() {
			if r := recover(); r != nil {
				oo.panicv = r
			}
			done <- oo
		}()
		oo.err = f()
	}()
	select {
	case o = <-done:
	case <-time.After(20 * time.Second):
		o.hang = true
	}
	return
}

func (o outcome) ok() int { return b2i(o.err == nil && o.panicv == nil && !o.hang) }

// tee forwards every call to a Recorder and, when present, to a Renderer whose
// rasteriser activity per call is captured.
type tee struct {
	*Recorder
	r  *render.Renderer
	z  *RecRaster
	rz [][]string
}

func (t *tee) after(n0 int) {
	ks := []string{}
	for _, c := range t.z.Calls[n0:] {
		ks = append(ks, c.K)
	}
	t.rz = append(t.rz, ks)
}

type decFlags struct {
	cuts, listing, render, encoder, others bool
	opts                                   []decode.DecodeOption
	optsJ                                  []interface{}
	rect                                   image.Rectangle
	vecAlways                              bool // run the raster/vec route whatever the numbers are
}

func hashCall(h uint32, c *Call) uint32 {
	b, _ := json.Marshal(c)
	f := fnv.New32a()
	var s [4]byte
	s[0], s[1], s[2], s[3] = byte(h), byte(h>>8), byte(h>>16), byte(h>>24)
	f.Write(s[:])
	f.Write(b)
	return f.Sum32() & 0x3fffffff
}

func runRecorder(src []byte, opts []decode.DecodeOption) (rec *Recorder, hs []int, o outcome) {
	rec = &Recorder{}
	h := uint32(0)
	rec.OnCall = func(c *Call) {
		h = hashCall(h, c)
		hs = append(hs, int(h))
	}
	o = guarded(func() error { return decode.Decode(rec, src, opts...) })
	return
}

// panicPackage returns the import path of the innermost frame of a panic's stack that is neither the runtime nor this
// harness (e.g. "golang.org/x/image/vector", "github.com/reactivego/ivg/render").
var vecPanicSite string

func panicPackage(stack []byte) string {
	for _, line := range strings.Split(string(stack), "\n") {
		if strings.HasPrefix(line, "\t") || strings.HasPrefix(line, "goroutine ") || line == "" {
			continue
		}
		fn := line
		if i := strings.LastIndex(fn, "("); i > 0 {
			fn = fn[:i]
		}
		if strings.HasPrefix(fn, "runtime") || strings.HasPrefix(fn, "panic") || strings.HasPrefix(fn, "main.") || strings.HasPrefix(fn, "verifharness") {
			continue
		}
		// package path = everything before the first dot after the last slash
		j := strings.LastIndex(fn, "/")
		if k := strings.Index(fn[j+1:], "."); k >= 0 {
			return fn[:j+1+k]
		}
		return fn
	}
	return "unknown"
}

// traceDecode records one trace for the input src.
var devNull, _ = os.OpenFile(os.DevNull, os.O_WRONLY, 0)

func traceDecode(w *Writer, id string, src0 []byte, fl decFlags) (ncalls int, accepted bool) {
	src := append([]byte(nil), src0...)
	se := srcEv{Ev: "src", ID: id, B: bytesJ(src0), Opts: fl.optsJ}
	if se.Opts == nil {
		se.Opts = []interface{}{}
	}

	// main run: recorder (+ renderer with a recording rasteriser)
	var rec *Recorder
	var hs []int
	var o outcome
	var rzs [][]string
	if fl.render {
		rr := &RecRaster{}
		rd := &render.Renderer{}
		r := fl.rect
		if r.Empty() {
			r = image.Rect(0, 0, 64, 64)
		}
		rd.SetRasterizer(rr, r)
		rec = &Recorder{}
		h := uint32(0)
		rec.OnCall = func(c *Call) {
			h = hashCall(h, c)
			hs = append(hs, int(h))
		}
		td := &teeDest{rec: rec, rd: rd, z: rr}
		o = guarded(func() error { return decode.Decode(td, src, fl.opts...) })
		rzs = td.rz
	} else {
		rec, hs, o = runRecorder(src, fl.opts)
	}
	ee := endEv{Ev: "end", OK: o.ok(), Panic: b2i(o.panicv != nil || o.hang), NCalls: rec.N,
		Unchanged: b2i(bytes.Equal(src, src0))}
	if o.err != nil {
		ee.Err, ee.ErrType = o.err.Error(), errType(o.err)
	}
	if o.panicv != nil {
		ee.Err = fmt.Sprint("panic: ", o.panicv)
	}

	if fl.others {
		var vb ivg.ViewBox
		ov := guarded(func() (err error) { vb, err = decode.DecodeViewBox(src); return })
		ee.VbOK = intp(ov.ok())
		ee.Vb = fs(vb.MinX, vb.MinY, vb.MaxX, vb.MaxY)
		if ov.panicv != nil || ov.hang || (ov.err != nil && errType(ov.err) != "DecodeError") {
			ee.Panic = 1
		}
		on := guarded(func() error { return decode.Decode(nil, src, fl.opts...) })
		ee.NilDst = intp(on.ok())
		if on.panicv != nil || on.hang {
			ee.Panic = 1
		}
		// the logging-only use of the public DestinationLogger (no destination behind it): same outcome, no panic
		ol := guarded(func() error {
			so := os.Stdout
			if devNull != nil {
				os.Stdout = devNull
			}
			defer func() { os.Stdout = so }()
			return decode.Decode(&ivg.DestinationLogger{Alt: len(src)%2 == 1}, src, fl.opts...)
		})
		ee.LogDst = intp(ol.ok())
		if ol.panicv != nil || ol.hang {
			ee.Panic = 1
		}
		// rendering for real: a Renderer whose rasteriser samples the paints (raster/vec over an RGBA image) - same
		// outcome, no panic, whatever the paints are
		// (only graphics whose numbers are tame - finite, at most 4096 in magnitude, a viewBox at least 1/4 across - or
		// the directed non-finite ones: for other magnitudes the fixed-point rasteriser of x/image/vector loops over up
		// to 2^31 rows, which is the same defect as the known finding but would stall the harness)
		tame := true
		for ci := range rec.Calls {
			for _, f := range rec.Calls[ci].F {
				v := float64(f.float())
				if v != v || v > 4096 || v < -4096 {
					tame = false
				}
			}
			if rec.Calls[ci].Op == "Reset" && len(rec.Calls[ci].F) == 4 {
				fs := rec.Calls[ci].F
				if !(fs[2].float()-fs[0].float() >= 0.25) || !(fs[3].float()-fs[1].float() >= 0.25) {
					tame = false
				}
			}
		}
		if len(src) <= 1<<14 && (tame || fl.vecAlways) {
			vecPanicSite = ""
			oz := guarded(func() error {
				defer func() {
					if r := recover(); r != nil {
						vecPanicSite = panicPackage(debug.Stack())
						panic(r)
					}
				}()
				img := image.NewRGBA(image.Rect(0, 0, 24, 20))
				var rd render.Renderer
				rd.SetRasterizer(vec.NewRasterizer(img), image.Rect(2, 1, 22, 19))
				return decode.Decode(&rd, src, fl.opts...)
			})
			ee.VecDst = intp(oz.ok())
			if oz.hang {
				// the other face of the same defect (known finding K1): reported on this route's own channel
				ee.VecPanic = "golang.org/x/image/vector:did not return within the 20 s watchdog"
			}
			if oz.panicv != nil {
				// reported on its own (not through the general panic flag), with the place it came from
				ee.VecPanic = fmt.Sprint(vecPanicSite, ":", oz.panicv)
			}
		}
	}
	if fl.encoder {
		oe := guarded(func() error {
			var e encode.Encoder
			if err := decode.Decode(&e, src, fl.opts...); err != nil {
				return err
			}
			_, err := e.Bytes()
			if err != nil {
				return fmt.Errorf("encoder: %v", err)
			}
			return nil
		})
		ee.EncOK = intp(oe.ok())
		if oe.panicv != nil || oe.hang {
			ee.Panic = 1
		}
	}
	if fl.listing || fl.others {
		var dis []byte
		od := guarded(func() (err error) { dis, err = decode.Disassemble(src); return })
		ee.DisOK = intp(od.ok())
		if od.err != nil {
			ee.DisErr = od.err.Error()
		}
		if od.panicv != nil || od.hang {
			ee.Panic = 1
		}
		if fl.listing && od.ok() == 1 {
			se.Lines = parseListing(dis)
		}
	}
	if !bytes.Equal(src, src0) {
		ee.Unchanged = 0
	}
	if fl.cuts {
		for t := 0; t < len(src0); t++ {
			r2, h2, o2 := runRecorder(src0[:t:t], fl.opts)
			hh := 0
			if len(h2) > 0 {
				hh = h2[len(h2)-1]
			}
			okv := o2.ok()
			if o2.panicv != nil || o2.hang || (o2.err != nil && errType(o2.err) != "DecodeError") {
				okv = -1
			}
			se.Cuts = append(se.Cuts, [3]int{okv, r2.N, hh})
		}
	}
	w.Emit(se)
	for i := range rec.Calls {
		ce := callEv{Ev: "call", Call: rec.Calls[i], H: hs[i]}
		if rzs != nil && i < len(rzs) {
			ce.Rz = rzs[i]
			if ce.Rz == nil {
				ce.Rz = []string{}
			}
		}
		w.Emit(ce)
	}
	w.Emit(ee)
	return rec.N, o.ok() == 1
}

// parseListing splits a disassembly into lines and applies the fixed column
// rule: the first 14 columns hold up to four hex bytes.
func parseListing(dis []byte) []lineJ {
	var out []lineJ
	for _, ln := range strings.Split(strings.TrimSuffix(string(dis), "\n"), "\n") {
		lj := lineJ{B: []int{}, Num: []int{}}
		if len(ln) < 14 {
			lj.B = []int{-1}
			out = append(out, lj)
			continue
		}
		hexcol, text := ln[:14], ln[14:]
		for i := 0; i+2 <= 12; i += 3 {
			if hexcol[i] == ' ' {
				break
			}
			v, err := strconv.ParseUint(hexcol[i:i+2], 16, 8)
			if err != nil {
				lj.B = append(lj.B, -1)
				break
			}
			lj.B = append(lj.B, int(v))
		}
		if !strings.HasPrefix(text, "    ") {
			lj.Ints = uints(text)
			lj.PP = b2i(strings.Contains(text, "++"))
		} else {
			lj.Col = parseCol(strings.TrimSpace(text))
		}
		if lj.Ints == nil {
			lj.Ints = []int{}
		}
		if strings.HasPrefix(text, "    ") {
			tok := strings.Fields(text)
			if len(tok) > 0 {
				if f, err := strconv.ParseFloat(strings.TrimPrefix(tok[0], "+"), 32); err == nil {
					x := f32j(float32(f))
					lj.Num = []int{x[0], x[1]}
				}
			}
		}
		out = append(out, lj)
	}
	return out
}

var reUint = regexp.MustCompile(`[0-9]+`)

func uints(s string) []int {
	out := []int{}
	for _, m := range reUint.FindAllString(s, -1) {
		v, err := strconv.Atoi(m)
		if err != nil {
			v = -1
		}
		out = append(out, v)
	}
	return out
}

var (
	reRGBA  = regexp.MustCompile(`^RGBA ([0-9a-f]{2})([0-9a-f]{2})([0-9a-f]{2})([0-9a-f]{2})$`)
	rePal   = regexp.MustCompile(`^customPalette\[([0-9]+)\]$`)
	reCReg  = regexp.MustCompile(`^CREG\[([0-9]+)\]$`)
	reGrad  = regexp.MustCompile(`^gradient \(NSTOPS=([0-9]+), CBASE=([0-9]+), NBASE=([0-9]+), (linear|radial), (none|pad|reflect|repeat)\)$`)
	reBlend = regexp.MustCompile(`^blend \(([0-9]+):([0-9]+)\) \((.*)\)$`)
	reFlags = regexp.MustCompile(`^0x[0-9a-f]+ \(largeArc=([01]), sweep=([01])\)$`)
)

func atoi(s string) int { v, _ := strconv.Atoi(s); return v }

func parseCol(t string) *colJ {
	if m := reRGBA.FindStringSubmatch(t); m != nil {
		c := &colJ{K: "rgba"}
		for _, h := range m[1:] {
			v, _ := strconv.ParseUint(h, 16, 8)
			c.V = append(c.V, int(v))
		}
		return c
	}
	if m := rePal.FindStringSubmatch(t); m != nil {
		return &colJ{K: "pal", V: []int{atoi(m[1])}}
	}
	if m := reCReg.FindStringSubmatch(t); m != nil {
		return &colJ{K: "creg", V: []int{atoi(m[1])}}
	}
	if m := reGrad.FindStringSubmatch(t); m != nil {
		shape := map[string]int{"linear": 0, "radial": 1}[m[4]]
		spread := map[string]int{"none": 0, "pad": 1, "reflect": 2, "repeat": 3}[m[5]]
		return &colJ{K: "gradient", V: []int{atoi(m[1]), atoi(m[2]), atoi(m[3]), shape, spread}}
	}
	if m := reFlags.FindStringSubmatch(t); m != nil {
		return &colJ{K: "flags", V: []int{atoi(m[1]), atoi(m[2])}}
	}
	if t == "nonsensical color" {
		return &colJ{K: "nonsense", V: []int{}}
	}
	if m := reBlend.FindStringSubmatch(t); m != nil {
		c := &colJ{K: "blend", V: []int{atoi(m[1]), atoi(m[2])}}
		// the two operands are separated by the ':' that is not inside "(...)" of a nested text
		inner, depth := m[3], 0
		for i, ch := range inner {
			switch ch {
			case '(':
				depth++
			case ')':
				depth--
			case ':':
				if depth == 0 {
					c.C0, c.C1 = parseCol(inner[:i]), parseCol(inner[i+1:])
					if c.C0 == nil {
						c.C0 = &colJ{K: "unparsed", V: []int{}}
					}
					if c.C1 == nil {
						c.C1 = &colJ{K: "unparsed", V: []int{}}
					}
					return c
				}
			}
		}
		c.K = "unparsed"
		return c
	}
	return nil
}

// teeDest delivers to a Recorder and a Renderer, capturing per-call rasteriser activity.
type teeDest struct {
	rec *Recorder
	rd  *render.Renderer
	z   *RecRaster
	rz  [][]string
}

func (t *teeDest) step(f func(d ivg.Destination)) {
	n0 := len(t.z.Calls)
	f(t.rec)
	f(t.rd)
	ks := []string{}
	for _, c := range t.z.Calls[n0:] {
		ks = append(ks, c.K)
	}
	t.rz = append(t.rz, ks)
}
func (t *teeDest) Reset(vb ivg.ViewBox, p [64]color.RGBA) {
	t.step(func(d ivg.Destination) { d.Reset(vb, p) })
}
func (t *teeDest) CSel() uint8     { return t.rd.CSel() }
func (t *teeDest) NSel() uint8     { return t.rd.NSel() }
func (t *teeDest) SetCSel(s uint8) { t.step(func(d ivg.Destination) { d.SetCSel(s) }) }
func (t *teeDest) SetNSel(s uint8) { t.step(func(d ivg.Destination) { d.SetNSel(s) }) }
func (t *teeDest) SetCReg(a uint8, i bool, c ivg.Color) {
	t.step(func(d ivg.Destination) { d.SetCReg(a, i, c) })
}
func (t *teeDest) SetNReg(a uint8, i bool, f float32) {
	t.step(func(d ivg.Destination) { d.SetNReg(a, i, f) })
}
func (t *teeDest) SetLOD(a, b float32) { t.step(func(d ivg.Destination) { d.SetLOD(a, b) }) }
func (t *teeDest) StartPath(a uint8, x, y float32) {
	t.step(func(d ivg.Destination) { d.StartPath(a, x, y) })
}
func (t *teeDest) ClosePathEndPath() { t.step(func(d ivg.Destination) { d.ClosePathEndPath() }) }
func (t *teeDest) ClosePathAbsMoveTo(x, y float32) {
	t.step(func(d ivg.Destination) { d.ClosePathAbsMoveTo(x, y) })
}
func (t *teeDest) ClosePathRelMoveTo(x, y float32) {
	t.step(func(d ivg.Destination) { d.ClosePathRelMoveTo(x, y) })
}
func (t *teeDest) AbsHLineTo(x float32) { t.step(func(d ivg.Destination) { d.AbsHLineTo(x) }) }
func (t *teeDest) RelHLineTo(x float32) { t.step(func(d ivg.Destination) { d.RelHLineTo(x) }) }
func (t *teeDest) AbsVLineTo(y float32) { t.step(func(d ivg.Destination) { d.AbsVLineTo(y) }) }
func (t *teeDest) RelVLineTo(y float32) { t.step(func(d ivg.Destination) { d.RelVLineTo(y) }) }
func (t *teeDest) AbsLineTo(x, y float32) {
	t.step(func(d ivg.Destination) { d.AbsLineTo(x, y) })
}
func (t *teeDest) RelLineTo(x, y float32) {
	t.step(func(d ivg.Destination) { d.RelLineTo(x, y) })
}
func (t *teeDest) AbsSmoothQuadTo(x, y float32) {
	t.step(func(d ivg.Destination) { d.AbsSmoothQuadTo(x, y) })
}
func (t *teeDest) RelSmoothQuadTo(x, y float32) {
	t.step(func(d ivg.Destination) { d.RelSmoothQuadTo(x, y) })
}
func (t *teeDest) AbsQuadTo(a, b, x, y float32) {
	t.step(func(d ivg.Destination) { d.AbsQuadTo(a, b, x, y) })
}
func (t *teeDest) RelQuadTo(a, b, x, y float32) {
	t.step(func(d ivg.Destination) { d.RelQuadTo(a, b, x, y) })
}
func (t *teeDest) AbsSmoothCubeTo(a, b, x, y float32) {
	t.step(func(d ivg.Destination) { d.AbsSmoothCubeTo(a, b, x, y) })
}
func (t *teeDest) RelSmoothCubeTo(a, b, x, y float32) {
	t.step(func(d ivg.Destination) { d.RelSmoothCubeTo(a, b, x, y) })
}
func (t *teeDest) AbsCubeTo(a, b, c, e, x, y float32) {
	t.step(func(d ivg.Destination) { d.AbsCubeTo(a, b, c, e, x, y) })
}
func (t *teeDest) RelCubeTo(a, b, c, e, x, y float32) {
	t.step(func(d ivg.Destination) { d.RelCubeTo(a, b, c, e, x, y) })
}
func (t *teeDest) AbsArcTo(rx, ry, rot float32, la, sw bool, x, y float32) {
	t.step(func(d ivg.Destination) { d.AbsArcTo(rx, ry, rot, la, sw, x, y) })
}
func (t *teeDest) RelArcTo(rx, ry, rot float32, la, sw bool, x, y float32) {
	t.step(func(d ivg.Destination) { d.RelArcTo(rx, ry, rot, la, sw, x, y) })
}

var _ ivg.Destination = (*teeDest)(nil)

// ---- the drive-dec command ---------------------------------------------------------------

func init() { register("drive-dec", driveDec) }

func driveDec(args []string) error {
	fl := flag.NewFlagSet("drive-dec", flag.ExitOnError)
	outDir := fl.String("out", ".", "output directory")
	prefix := fl.String("prefix", "dec", "trace file prefix")
	nsh := fl.Int("shards", 16, "number of trace files")
	fams := fl.String("families", "corpus", "comma separated input families")
	n := fl.Int("n", 1000, "size parameter for random families")
	fl.Parse(args)
	sh, err := newShards(*outDir, *prefix, *nsh)
	if err != nil {
		return err
	}
	stats := map[string]int{}
	for _, fam := range strings.Split(*fams, ",") {
		f, ok := decFamilies[fam]
		if !ok {
			return fmt.Errorf("unknown family %q", fam)
		}
		if err := f(sh, *n, stats); err != nil {
			return err
		}
	}
	ev, err := sh.Close()
	if err != nil {
		return err
	}
	summary(map[string]interface{}{"events": ev, "stats": stats})
	return nil
}

type famFunc func(sh *Shards, n int, stats map[string]int) error

var decFamilies = map[string]famFunc{}

func count(stats map[string]int, fam string, ncalls int, acc bool) {
	stats[fam+".inputs"]++
	stats[fam+".calls"] += ncalls
	if acc {
		stats[fam+".accepted"]++
	}
}
