package main

// replay-aff3: the matrix lists GEN_Aff3 generated, run through the real generate.Concat / MulAff3 and
// through Generator.SetTransform + SetPathData over a recording Destination; products, point images and
// every call of the all-verbs path are compared with what Aff3.tla expects (values; all numbers are small
// dyadics, so the float32 arithmetic of the code is exact and the comparison is equality).

import (
	"bufio"
	"encoding/json"
	"flag"
	"fmt"
	"os"
	"strings"

	"github.com/reactivego/ivg/generate"
)

func init() { register("replay-aff3", replayAff3) }

type aff3Case struct {
	Ix  []int   `json:"ix"`
	Ts  [][6]dy `json:"ts"`
	Cat [6]dy   `json:"cat"`
	Pts []struct {
		P [2]dy `json:"p"`
		Q [2]dy `json:"q"`
	} `json:"pts"`
	S     string `json:"s"`
	Calls []struct {
		Op string `json:"op"`
		F  []dy   `json:"f"`
		Fl []int  `json:"fl"`
	} `json:"calls"`
}

func replayAff3(args []string) error {
	fl := flag.NewFlagSet("replay-aff3", flag.ExitOnError)
	in := fl.String("in", "", "TLC output with the generated cases")
	out := fl.String("out", "", "mismatch file")
	fl.Parse(args)
	f, err := os.Open(*in)
	if err != nil {
		return err
	}
	defer f.Close()
	w, err := newWriter(*out)
	if err != nil {
		return err
	}
	type mism struct {
		Ix    []int  `json:"ix"`
		Route string `json:"route"`
		What  string `json:"what"`
	}
	n, nmis, nsteps := 0, 0, 0
	routes := map[string]int{}
	sc := bufio.NewScanner(f)
	sc.Buffer(make([]byte, 1<<20), 1<<26)
	for sc.Scan() {
		line := strings.TrimSpace(sc.Text())
		if !strings.HasPrefix(line, `"{`) || !strings.Contains(line, `\"diag\":\"aff3\"`) {
			continue
		}
		var inner string
		if err := json.Unmarshal([]byte(line), &inner); err != nil {
			return err
		}
		var c aff3Case
		if err := json.Unmarshal([]byte(inner), &c); err != nil {
			return fmt.Errorf("bad case: %v: %s", err, inner[:200])
		}
		n++
		bad := func(route, what string) {
			nmis++
			if nmis <= 500 {
				w.Emit(mism{Ix: c.Ix, Route: route, What: what})
			}
		}
		ms := make([]generate.Aff3, len(c.Ts))
		for i, t := range c.Ts {
			for j := range t {
				ms[i][j] = t[j].f()
			}
		}
		// Concat
		routes["Concat"]++
		cat := generate.Concat(ms...)
		for j := range cat {
			nsteps++
			if cat[j] != c.Cat[j].f() {
				bad("Concat", fmt.Sprintf("entry %d = %v, want %v", j, cat[j], c.Cat[j].f()))
				break
			}
		}
		// MulAff3 with the product, and with the matrices one after the other
		routes["MulAff3"]++
		for _, p := range c.Pts {
			nsteps++
			x, y := generate.MulAff3(p.P[0].f(), p.P[1].f(), cat)
			if x != p.Q[0].f() || y != p.Q[1].f() {
				bad("MulAff3", fmt.Sprintf("(%v, %v) -> (%v, %v), want (%v, %v)", p.P[0].f(), p.P[1].f(), x, y, p.Q[0].f(), p.Q[1].f()))
				break
			}
			x, y = p.P[0].f(), p.P[1].f()
			for _, m := range ms {
				x, y = generate.MulAff3(x, y, m)
			}
			if x != p.Q[0].f() || y != p.Q[1].f() {
				bad("MulAff3", fmt.Sprintf("one by one: (%v, %v) -> (%v, %v), want (%v, %v)", p.P[0].f(), p.P[1].f(), x, y, p.Q[0].f(), p.Q[1].f()))
				break
			}
		}
		// constructors: a pool matrix that is a translation / a scale is what Translate / Scale build
		for _, m := range ms {
			if m[0] == 1 && m[1] == 0 && m[3] == 0 && m[4] == 1 && generate.Translate(m[2], m[5]) != m {
				bad("Translate", fmt.Sprint(m))
			}
			if m[1] == 0 && m[2] == 0 && m[3] == 0 && m[5] == 0 {
				if generate.Scale(m[0], m[4]) != m || generate.Scale(m[0], m[4], 9) != m || (m[0] == m[4] && generate.Scale(m[0]) != m) {
					bad("Scale", fmt.Sprint(m))
				}
			}
		}
		// SetPathData under the configured transform: three ways of configuring the same matrix
		path := func(route string, conf func(g *generate.Generator)) {
			routes[route]++
			rec := &Recorder{Limit: 1000}
			g := &generate.Generator{}
			g.SetDestination(rec)
			conf(g)
			what := ""
			func() {
				defer func() {
					if r := recover(); r != nil {
						what = fmt.Sprint("panic: ", r)
					}
				}()
				if err := g.SetPathData(c.S, 3); err != nil {
					what = "error: " + err.Error()
				}
			}()
			if what == "" && len(rec.Calls) != len(c.Calls) {
				what = fmt.Sprintf("%d calls, want %d", len(rec.Calls), len(c.Calls))
			}
			if what == "" {
				for i, want := range c.Calls {
					got := &rec.Calls[i]
					nsteps++
					if got.Op != want.Op || len(got.F) != len(want.F) || len(got.Fl) != len(want.Fl) || (i == 0 && got.Adj != 3) {
						what = fmt.Sprintf("call %d is %s/%d/%d adj %d, want %s/%d/%d", i, got.Op, len(got.F), len(got.Fl), got.Adj, want.Op, len(want.F), len(want.Fl))
						break
					}
					for k := range want.F {
						if got.F[k].float() != want.F[k].f() {
							what = fmt.Sprintf("call %d (%s) operand %d = %v, want %v", i, want.Op, k, got.F[k].float(), want.F[k].f())
						}
					}
					for k := range want.Fl {
						if got.Fl[k] != want.Fl[k] {
							what = fmt.Sprintf("call %d (%s) flag %d = %v, want %v", i, want.Op, k, got.Fl[k], want.Fl[k])
						}
					}
					if what != "" {
						break
					}
				}
			}
			if what != "" {
				bad(route, what)
			}
		}
		path("SetTransform(list)", func(g *generate.Generator) { g.SetTransform(ms...) })
		path("SetTransform(product)", func(g *generate.Generator) { g.SetTransform(generate.Concat(ms...)) })
		path("SetTransform(twice)", func(g *generate.Generator) {
			g.SetTransform(generate.Scale(7), generate.Translate(1, 1)) // replaced, not accumulated
			g.SetTransform(ms...)
		})
		if len(ms) == 0 {
			path("no transform", func(g *generate.Generator) {})
		}
	}
	if err := sc.Err(); err != nil {
		return err
	}
	w.Close()
	summary(map[string]interface{}{"cases": n, "mismatches": nmis, "steps": nsteps, "routes": routes})
	return nil
}
