package main

import (
	"fmt"
	"os"

	"github.com/reactivego/ivg/decode"
)

// dis FILE: prints decode.Disassemble(FILE) on stdout (exit 1 on error), for comparison with cmd/disivg.
func init() {
	register("dis", func(args []string) error {
		if len(args) != 1 {
			return fmt.Errorf("usage: dis FILE")
		}
		b, err := os.ReadFile(args[0])
		if err != nil {
			return err
		}
		out, err := decode.Disassemble(b)
		if err != nil {
			fmt.Fprintln(os.Stderr, err)
			os.Exit(1)
		}
		os.Stdout.Write(out)
		return nil
	})
}
