package main

import (
	"flag"
	"fmt"
	"math"
	"runtime"
	"sync"

	"github.com/reactivego/ivg/decode"
	"github.com/reactivego/ivg/encode"
)

// sweep-c08: ALL 2^32 float32 bit patterns through the raw number encoders (and all 2^30 four-byte
// patterns through the decoders), summarised for TLC.  Consecutive aligned blocks of four patterns on
// which the encoder's behaviour has the same shape -- all four written in 4 bytes, same sign/exponent,
// same difference between decoded and original bits for each residue mod 4 -- are merged into one
// "run" event; every block containing a short (1- or 2-byte) form is written out pattern by pattern
// as ordinary "enc" events.  TLC judges each run at its end points together with the lemma that no
// short-form-representable value lies inside it (TV_Numbers: JudgeRun).  This summariser (signature
// and merging only) is the trusted base of the exhaustive claim.

type runEv struct {
	Ev   string `json:"ev"`
	Kind string `json:"kind"`
	Lo   F      `json:"lo"`
	Hi   F      `json:"hi"`
	D    [4]int `json:"d"`
	N    int    `json:"n"` // patterns covered, in units of 4 (blocks)
}

func init() { register("sweep-c08", sweepC08) }

func sweepC08(args []string) error {
	fl := flag.NewFlagSet("sweep-c08", flag.ExitOnError)
	outDir := fl.String("out", ".", "output directory")
	nsh := fl.Int("shards", 64, "trace files")
	from := fl.Uint64("from", 0, "first block (testing)")
	to := fl.Uint64("to", 1<<30, "one past the last block")
	fl.Parse(args)
	sh, err := newShards(*outDir, "c08sweep", *nsh)
	if err != nil {
		return err
	}
	var mu sync.Mutex
	emit := func(v interface{}) {
		mu.Lock()
		sh.Next().Emit(v)
		mu.Unlock()
	}
	type kindT struct {
		name string
		enc  func(float32) []byte
		dec  func([]byte) (float32, int)
	}
	kinds := []kindT{
		{"real", encode.VerifEncodeReal, decode.VerifDecodeReal},
		{"coordinate", encode.VerifEncodeCoordinate, decode.VerifDecodeCoordinate},
		{"zeroToOne", encode.VerifEncodeZeroToOne, decode.VerifDecodeZeroToOne},
	}
	covered := map[string]uint64{}
	points := map[string]int{}
	runs := map[string]int{}
	nw := runtime.NumCPU()
	for _, k := range kinds {
		k := k
		var wg sync.WaitGroup
		chunk := (*to - *from + uint64(nw) - 1) / uint64(nw)
		for w := 0; w < nw; w++ {
			lo := *from + uint64(w)*chunk
			hi := lo + chunk
			if hi > *to {
				hi = *to
			}
			if lo >= hi {
				continue
			}
			wg.Add(1)
			go func(lo, hi uint64) {
				defer wg.Done()
				type sigT struct {
					se uint32
					d  [4]int
				}
				var cur sigT
				var runLo uint64
				open := false
				var cov uint64
				npts, nruns := 0, 0
				flush := func(endBlock uint64) { // run covers blocks runLo..endBlock-1
					if !open {
						return
					}
					emit(runEv{Ev: "run", Kind: k.name, Lo: f32j(fromBits(uint32(runLo * 4))), Hi: f32j(fromBits(uint32((endBlock-1)*4 + 3))), D: cur.d, N: int(endBlock - runLo)})
					nruns++
					open = false
				}
				for b := lo; b < hi; b++ {
					var s sigT
					short := false
					var enc [4][]byte
					for j := 0; j < 4; j++ {
						u := uint32(b*4) + uint32(j)
						e := k.enc(fromBits(u))
						enc[j] = e
						if len(e) != 4 {
							short = true
							continue
						}
						d := (uint32(e[0]) | uint32(e[1])<<8 | uint32(e[2])<<16 | uint32(e[3])<<24) &^ 3
						s.d[j] = int(int64(d) - int64(u))
						if e[0]&3 != 3 { // not tagged as a 4-byte number: never merge
							short = true
						}
						if s.d[j] > 64 || s.d[j] < -64 {
							short = true // wildly off: report the patterns individually
						}
					}
					s.se = uint32(b*4) >> 23
					cov += 4
					if short {
						flush(b)
						for j := 0; j < 4; j++ {
							u := uint32(b*4) + uint32(j)
							emit(numEv{Ev: "enc", Kind: k.name, Path: "sweep", V: f32j(fromBits(u)), B: bytesJ(enc[j]), B2: []int{}, Cnt: 1})
							npts++
						}
						continue
					}
					if open && s == cur {
						continue
					}
					flush(b)
					cur, runLo, open = s, b, true
				}
				flush(hi)
				mu.Lock()
				covered[k.name] += cov
				points[k.name] += npts
				runs[k.name] += nruns
				mu.Unlock()
			}(lo, hi)
		}
		wg.Wait()
		// decoders: every four-byte pattern decodes to its own bits with the two tag bits cleared
		var dmu sync.Mutex
		bad := 0
		var dcov uint64
		var wg2 sync.WaitGroup
		for w := 0; w < nw; w++ {
			lo := *from + uint64(w)*chunk
			hi := lo + chunk
			if hi > *to {
				hi = *to
			}
			if lo >= hi {
				continue
			}
			wg2.Add(1)
			go func(lo, hi uint64) {
				defer wg2.Done()
				var buf [4]byte
				nb := 0
				for b := lo; b < hi; b++ {
					u := uint32(b*4) | 3
					buf[0], buf[1], buf[2], buf[3] = byte(u), byte(u>>8), byte(u>>16), byte(u>>24)
					f, n := k.dec(buf[:])
					if n != 4 || math.Float32bits(f) != u&^3 {
						if nb < 20 {
							emit(numEv{Ev: "dec", Kind: k.name, Path: "sweep", B: bytesJ(buf[:]), B2: []int{}, V: f32j(f), N: n, OK: b2i(n > 0)})
						}
						nb++
					}
				}
				dmu.Lock()
				bad += nb
				dcov += hi - lo
				dmu.Unlock()
			}(lo, hi)
		}
		wg2.Wait()
		emit(map[string]interface{}{"ev": "decrun", "kind": k.name, "n": dcov, "bad": bad})
	}
	n, err := sh.Close()
	if err != nil {
		return err
	}
	summary(map[string]interface{}{"events": n, "covered": covered, "points": points, "runs": runs, "blocks": fmt.Sprint(*to - *from)})
	return nil
}
