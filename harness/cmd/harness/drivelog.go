package main

// drive-log: traces of the two pass-through loggers (ivg.DestinationLogger, raster.RasterizerLogger) for
// TV_DestLog: per logger object one call sequence, the lines it printed on standard output, the calls that
// reached the wrapped object, and reads made through the logger next to reads of the wrapped object.

import (
	"flag"
	"fmt"
	"image"
	"io"
	"math"
	"math/rand"
	"os"
	"strings"

	"github.com/reactivego/ivg"
	"github.com/reactivego/ivg/raster"
)

func init() { register("drive-log", driveLog) }

// LRCall is one call on a raster.Rasterizer in trace form.
type LRCall struct {
	Op string `json:"op"`
	F  []F    `json:"f"`
	I  []int  `json:"i"`
}

// logRast records the calls it receives and answers reads with fixed values.
type logRast struct {
	calls []LRCall
	size  image.Point
	pen   [2]float32
}

func lrc(op string, fs ...float32) LRCall {
	c := LRCall{Op: op, F: make([]F, len(fs)), I: []int{}}
	for i, f := range fs {
		c.F[i] = f32j(f)
	}
	return c
}
func (z *logRast) Reset(w, h int) {
	c := lrc("Reset")
	c.I = []int{w, h}
	z.calls = append(z.calls, c)
}
func (z *logRast) Size() image.Point       { return z.size }
func (z *logRast) Bounds() image.Rectangle { return image.Rectangle{Max: z.size} }
func (z *logRast) Pen() (x, y float32)     { return z.pen[0], z.pen[1] }
func (z *logRast) MoveTo(ax, ay float32)   { z.calls = append(z.calls, lrc("MoveTo", ax, ay)) }
func (z *logRast) LineTo(bx, by float32)   { z.calls = append(z.calls, lrc("LineTo", bx, by)) }
func (z *logRast) QuadTo(bx, by, cx, cy float32) {
	z.calls = append(z.calls, lrc("QuadTo", bx, by, cx, cy))
}
func (z *logRast) CubeTo(bx, by, cx, cy, dx, dy float32) {
	z.calls = append(z.calls, lrc("CubeTo", bx, by, cx, cy, dx, dy))
}
func (z *logRast) ClosePath() { z.calls = append(z.calls, lrc("ClosePath")) }
func (z *logRast) Draw(r image.Rectangle, src image.Image, sp image.Point) {
	c := lrc("Draw")
	c.I = []int{r.Min.X, r.Min.Y, r.Max.X, r.Max.Y, sp.X, sp.Y}
	z.calls = append(z.calls, c)
}

func applyR(z raster.Rasterizer, c *LRCall) {
	f := func(i int) float32 { return c.F[i].float() }
	switch c.Op {
	case "Reset":
		z.Reset(c.I[0], c.I[1])
	case "MoveTo":
		z.MoveTo(f(0), f(1))
	case "LineTo":
		z.LineTo(f(0), f(1))
	case "QuadTo":
		z.QuadTo(f(0), f(1), f(2), f(3))
	case "CubeTo":
		z.CubeTo(f(0), f(1), f(2), f(3), f(4), f(5))
	case "ClosePath":
		z.ClosePath()
	case "Draw":
		z.Draw(image.Rect(c.I[0], c.I[1], c.I[2], c.I[3]), image.Black, image.Point{c.I[4], c.I[5]})
	}
}

// captureStdout runs f with os.Stdout redirected into a pipe and returns what was printed.
func captureStdout(f func()) (string, error) {
	r, w, err := os.Pipe()
	if err != nil {
		return "", err
	}
	done := make(chan string)
	go func() {
		b, _ := io.ReadAll(r)
		done <- string(b)
	}()
	so := os.Stdout
	os.Stdout = w
	func() {
		defer func() { os.Stdout = so }()
		f()
	}()
	w.Close()
	s := <-done
	r.Close()
	return s, nil
}

// logNum draws a number where two-decimal formatting is delicate.
func logNum(r *rand.Rand) float32 {
	switch r.Intn(12) {
	case 0, 1: // any bit pattern
		return math.Float32frombits(r.Uint32())
	case 2: // exact ties at the third decimal: odd multiples of 1/8
		return float32(2*r.Intn(4000)-4000+1) / 8
	case 3: // next to a half cent, and next to a carry
		v := (float32(r.Intn(20000)-10000) + 0.5) / 100
		return math.Float32frombits(math.Float32bits(v) + uint32(r.Intn(5)) - 2)
	case 4: // rounds to zero, or almost
		return float32(r.Intn(2001)-1000) / 100000
	case 5: // integers beyond 2^24, up to the largest float32
		return float32(math.Ldexp(float64(1<<23+r.Intn(1<<23)), 1+r.Intn(104))) * float32(1-2*r.Intn(2))
	case 6:
		return []float32{float32(math.NaN()), float32(math.Inf(1)), float32(math.Inf(-1)), float32(math.Copysign(0, -1)), 0,
			math.MaxFloat32, -math.MaxFloat32, math.SmallestNonzeroFloat32, -math.SmallestNonzeroFloat32, 1 << 24, 1<<24 + 2, 0.995, 9.995, 99.995, 0.005, 0.015, 0.025}[r.Intn(17)]
	case 7: // x.995 ... x.999: carries into the integer part
		return float32(r.Intn(2000)-1000) + 0.99 + float32(r.Intn(10))/1000
	case 8: // subnormals and tiny normals
		return math.Float32frombits(uint32(r.Intn(1<<25)) | uint32(r.Intn(2))<<31)
	case 9: // values whose binary exponent sits at the edges of the integer arithmetic (2^-7 .. 2^-9 with full mantissas)
		return math.Float32frombits(uint32(118+r.Intn(4))<<23 | uint32(r.Intn(1<<23)) | uint32(r.Intn(2))<<31)
	default: // ordinary coordinates
		return float32(r.Intn(8192)-4096) / 64
	}
}

// logVB draws a viewBox number in the sub-domain where the model knows the shortest decimal.
func logVB(r *rand.Rand) float32 {
	switch r.Intn(10) {
	case 0:
		return []float32{float32(math.NaN()), float32(math.Inf(1)), float32(math.Inf(-1)), float32(math.Copysign(0, -1)), 0, 999999, -999999, 999.75, -999.25}[r.Intn(9)]
	case 1, 2, 3:
		return float32(r.Intn(2000000) - 1000000 + 1)
	default:
		return float32(r.Intn(7999)-3999) / 4
	}
}

var logOps = []string{"Reset", "SetCSel", "SetNSel", "SetCReg", "SetNReg", "SetLOD", "StartPath", "ClosePathEndPath",
	"ClosePathAbsMoveTo", "ClosePathRelMoveTo", "AbsHLineTo", "RelHLineTo", "AbsVLineTo", "RelVLineTo",
	"AbsLineTo", "RelLineTo", "AbsSmoothQuadTo", "RelSmoothQuadTo", "AbsQuadTo", "RelQuadTo",
	"AbsSmoothCubeTo", "RelSmoothCubeTo", "AbsCubeTo", "RelCubeTo", "AbsArcTo", "RelArcTo"}

var logArity = map[string]int{"SetNReg": 1, "SetLOD": 2, "StartPath": 2, "ClosePathEndPath": 0,
	"ClosePathAbsMoveTo": 2, "ClosePathRelMoveTo": 2, "AbsHLineTo": 1, "RelHLineTo": 1, "AbsVLineTo": 1, "RelVLineTo": 1,
	"AbsLineTo": 2, "RelLineTo": 2, "AbsSmoothQuadTo": 2, "RelSmoothQuadTo": 2, "AbsQuadTo": 4, "RelQuadTo": 4,
	"AbsSmoothCubeTo": 4, "RelSmoothCubeTo": 4, "AbsCubeTo": 6, "RelCubeTo": 6, "AbsArcTo": 5, "RelArcTo": 5}

func logCall(r *rand.Rand, op string) Call {
	c := Call{Op: op, F: []F{}, C: []int{}, Fl: []int{}}
	switch op {
	case "Reset":
		// four Resets in five have a viewBox the model can print; the others are counted as outside
		out := -1
		if r.Intn(5) == 0 {
			out = r.Intn(4)
		}
		for i := 0; i < 4; i++ {
			if i == out {
				c.F = append(c.F, f32j(logNum(r)))
			} else {
				c.F = append(c.F, f32j(logVB(r)))
			}
		}
		c.Pal = make([][4]int, 64)
		for i := range c.Pal {
			c.Pal[i] = [4]int{0, 0, 0, 255}
			if r.Intn(3) == 0 {
				c.Pal[i] = [4]int{r.Intn(256), r.Intn(256), r.Intn(256), r.Intn(256)}
			}
			if r.Intn(7) == 0 {
				c.Pal[i] = [4]int{r.Intn(17), 15 + r.Intn(3), 0xa0 + r.Intn(2), 0xf * r.Intn(18)}
			}
		}
		return c
	case "SetCSel", "SetNSel":
		c.Sel = []int{0, 1, 9, 10, 63, 64, 99, 100, 255, r.Intn(256)}[r.Intn(10)]
		return c
	case "SetCReg":
		c.Adj, c.Incr = r.Intn(7), r.Intn(2)
		if r.Intn(6) == 0 {
			c.Adj = []int{7, 10, 100, 255}[r.Intn(4)]
		}
		var col ivg.Color
		switch r.Intn(4) {
		case 0:
			col = ivg.RGBAColor(rgbaOf([]int{0, r.Intn(256), r.Intn(256), r.Intn(256), r.Intn(256)}))
		case 1:
			col = ivg.PaletteIndexColor(uint8(r.Intn(256)))
		case 2:
			col = ivg.CRegColor(uint8(r.Intn(256)))
		default:
			col = ivg.BlendColor(uint8(r.Intn(256)), uint8(r.Intn(256)), uint8(r.Intn(256)))
		}
		c.C = colorJ(col)
		return c
	}
	for i := 0; i < logArity[op]; i++ {
		c.F = append(c.F, f32j(logNum(r)))
	}
	switch op {
	case "SetNReg":
		c.Adj, c.Incr = r.Intn(7), r.Intn(2)
	case "StartPath":
		c.Adj = r.Intn(7)
		if r.Intn(6) == 0 {
			c.Adj = []int{7, 10, 100, 255}[r.Intn(4)]
		}
	case "AbsArcTo", "RelArcTo":
		c.Fl = []int{r.Intn(2), r.Intn(2)}
	}
	return c
}

func driveLog(args []string) error {
	fl := flag.NewFlagSet("drive-log", flag.ExitOnError)
	outDir := fl.String("out", ".", "output directory")
	nsh := fl.Int("shards", 8, "trace files")
	n := fl.Int("n", 400, "logger objects of each kind")
	fl.Parse(args)
	sh, err := newShards(*outDir, "log", *nsh)
	if err != nil {
		return err
	}
	rng := newRand(404)
	stats := map[string]int{}
	type dlEv struct {
		K       string      `json:"k"`
		ID      string      `json:"id"`
		Alt     bool        `json:"alt"`
		Wrapped bool        `json:"wrapped"`
		Calls   interface{} `json:"calls"`
		Lines   []string    `json:"lines"`
		Fwd     interface{} `json:"fwd"`
		Reads   [][2]string `json:"reads"`
	}
	split := func(s string) []string {
		if s == "" {
			return []string{}
		}
		if !strings.HasSuffix(s, "\n") {
			s += "\n<no newline at the end>"
		} else {
			s = s[:len(s)-1]
		}
		return strings.Split(s, "\n")
	}
	read := func(f func() uint8) (s string) {
		defer func() {
			if recover() != nil {
				s = "panic"
			}
		}()
		return fmt.Sprint(f())
	}
	for i := 0; i < *n; i++ {
		// --- ivg.DestinationLogger ---
		alt, wrapped := i%2 == 1, i%4 < 3 || i%8 == 3
		var calls []Call
		k := 1 + rng.Intn(10)
		if i < 2*len(logOps) {
			k = 3
		}
		for j := 0; j < k; j++ {
			op := logOps[rng.Intn(len(logOps))]
			if j == 0 && i < 2*len(logOps) {
				op = logOps[i/2] // every operation in both styles at least once
			} else if op == "Reset" && rng.Intn(3) != 0 {
				op = "AbsLineTo"
			}
			calls = append(calls, logCall(rng, op))
			stats["dl.op."+op]++
		}
		inner := &Recorder{}
		lg := &ivg.DestinationLogger{Alt: alt}
		if wrapped {
			lg.Destination = inner
		}
		ev := dlEv{K: "dl", ID: fmt.Sprintf("dl/%d", i), Alt: alt, Wrapped: wrapped, Reads: [][2]string{}}
		out, err := captureStdout(func() {
			for j := range calls {
				apply(lg, &calls[j])
				if j%3 == 2 || j == len(calls)-1 {
					// reads through the logger: silent, and the wrapped object's answer
					ev.Reads = append(ev.Reads, [2]string{read(func() uint8 { return lg.CSel() }), fmt.Sprint(inner.CSel())}, [2]string{read(func() uint8 { return lg.NSel() }), fmt.Sprint(inner.NSel())})
				}
			}
		})
		if err != nil {
			return err
		}
		ev.Calls, ev.Lines, ev.Fwd = calls, split(out), inner.Calls
		if inner.Calls == nil {
			ev.Fwd = []Call{}
		}
		sh.Next().Emit(ev)
		stats["dl.objects"]++
		stats["dl.calls"] += len(calls)
		stats[fmt.Sprintf("dl.alt=%v.wrapped=%v", alt, wrapped)]++

		// --- raster.RasterizerLogger ---
		var rcalls []LRCall
		k = 1 + rng.Intn(10)
		rops := []string{"Reset", "MoveTo", "LineTo", "QuadTo", "CubeTo", "ClosePath", "Draw"}
		rar := map[string]int{"MoveTo": 2, "LineTo": 2, "QuadTo": 4, "CubeTo": 6}
		for j := 0; j < k; j++ {
			op := rops[rng.Intn(len(rops))]
			if j == 0 {
				op = rops[i%len(rops)]
			}
			c := LRCall{Op: op, F: []F{}, I: []int{}}
			for a := 0; a < rar[op]; a++ {
				c.F = append(c.F, f32j(logNum(rng)))
			}
			iv := func() int {
				return []int{0, 1, -1, 32, 48, 1000000, -1000000, math.MaxInt32, math.MinInt32, rng.Intn(4096) - 2048}[rng.Intn(10)]
			}
			switch op {
			case "Reset":
				c.I = []int{iv(), iv()}
			case "Draw":
				// image.Rect canonicalises, so that the order of the corners is the caller's business here too
				c.I = []int{iv(), iv(), iv(), iv(), iv(), iv()}
				if c.I[0] > c.I[2] {
					c.I[0], c.I[2] = c.I[2], c.I[0]
				}
				if c.I[1] > c.I[3] {
					c.I[1], c.I[3] = c.I[3], c.I[1]
				}
			}
			rcalls = append(rcalls, c)
			stats["rl.op."+op]++
		}
		z := &logRast{size: image.Point{rng.Intn(100), rng.Intn(100)}, pen: [2]float32{logNum(rng), logNum(rng)}}
		rl := &raster.RasterizerLogger{Rasterizer: z}
		rev := dlEv{K: "rl", ID: fmt.Sprintf("rl/%d", i), Wrapped: true, Reads: [][2]string{}}
		out, err = captureStdout(func() {
			for j := range rcalls {
				applyR(rl, &rcalls[j])
			}
			px, py := rl.Pen()
			rev.Reads = append(rev.Reads, [2]string{fmt.Sprint(rl.Size()), fmt.Sprint(z.size)},
				[2]string{fmt.Sprint(rl.Bounds()), fmt.Sprint(image.Rectangle{Max: z.size})},
				[2]string{fmt.Sprint(f32j(px), f32j(py)), fmt.Sprint(f32j(z.pen[0]), f32j(z.pen[1]))})
		})
		if err != nil {
			return err
		}
		rev.Calls, rev.Lines, rev.Fwd = rcalls, split(out), z.calls
		if z.calls == nil {
			rev.Fwd = []LRCall{}
		}
		sh.Next().Emit(rev)
		stats["rl.objects"]++
		stats["rl.calls"] += len(rcalls)
	}
	nev, err := sh.Close()
	if err != nil {
		return err
	}
	summary(map[string]interface{}{"events": nev, "stats": stats})
	return nil
}
