package main

import (
	"flag"
	"math"

	"github.com/reactivego/ivg"
)

// C12 driver: ViewBox.AspectMeet / AspectSlice / Size on a rational grid times powers of two,
// plus arbitrary float32 sizes for the ordering part.

type fitEv struct {
	Ev   string `json:"ev"`
	Kind string `json:"kind"`
	Vb4  [4]int `json:"vb4"`
	E1   int    `json:"e1"`
	D4   [2]int `json:"d4"`
	E2   int    `json:"e2"`
	A4   [2]int `json:"a4"`
	Vb   []F    `json:"vb"`
	D    []F    `json:"d"`
	A    []F    `json:"a"`
	Got  []F    `json:"got"`
}

func init() { register("drive-c12", driveC12) }

func driveC12(args []string) error {
	fl := flag.NewFlagSet("drive-c12", flag.ExitOnError)
	outDir := fl.String("out", ".", "output directory")
	nsh := fl.Int("shards", 16, "trace files")
	n := fl.Int("n", 40000, "grid cases (sampled when the grid is larger)")
	fl.Parse(args)
	sh, err := newShards(*outDir, "c12", *nsh)
	if err != nil {
		return err
	}
	rng := newRand(12)
	stats := map[string]int{}
	ds := []int{1, 2, 3, 5, 8, 13, 21, 100, 255, 256, 600}
	as := []int{0, 1, 2, 3, 4}
	origins := [][2]int{{0, 0}, {-32 * 4, -32 * 4}, {7 * 4, -3 * 4}, {1, -2}}
	e1s := []int{-20, 0, 20, -3, 5, -147, -140, -128} // incl. viewBoxes made of subnormal numbers (multiples of 2^-149)
	e2s := []int{-10, 0, 20, 3}
	sc := func(k4, e int) float32 { return float32(math.Ldexp(float64(k4)/4, e)) }
	total := 12 * 12 * len(ds) * len(ds) * 25
	for c := 0; c < *n; c++ {
		var vw, vh, dx, dy, ax, ay int
		if total <= *n {
			x := c
			vw, x = 1+x%12, x/12
			vh, x = 1+x%12, x/12
			dx, x = ds[x%len(ds)], x/len(ds)
			dy, x = ds[x%len(ds)], x/len(ds)
			ax, x = as[x%5], x/5
			ay = as[x%5]
		} else {
			vw, vh, dx, dy, ax, ay = 1+rng.Intn(12), 1+rng.Intn(12), ds[rng.Intn(len(ds))], ds[rng.Intn(len(ds))], as[rng.Intn(5)], as[rng.Intn(5)]
		}
		o := origins[rng.Intn(len(origins))]
		e1, e2 := e1s[rng.Intn(len(e1s))], e2s[rng.Intn(len(e2s))]
		if c%3 == 0 {
			e1, e2 = 0, 0
		}
		vb4 := [4]int{o[0], o[1], o[0] + 4*vw, o[1] + 4*vh}
		if c%5 == 0 { // quarter-unit sizes
			vb4[2], vb4[3] = o[0]+4*vw+1, o[1]+4*vh+3
		}
		vb := ivg.ViewBox{MinX: sc(vb4[0], e1), MinY: sc(vb4[1], e1), MaxX: sc(vb4[2], e1), MaxY: sc(vb4[3], e1)}
		fdx, fdy := sc(4*dx, e2), sc(4*dy, e2)
		fax, fay := float32(ax)/4, float32(ay)/4
		for _, kind := range []string{"meet", "slice"} {
			var a, b, cc, d float32
			if kind == "meet" {
				a, b, cc, d = vb.AspectMeet(fdx, fdy, fax, fay)
			} else {
				a, b, cc, d = vb.AspectSlice(fdx, fdy, fax, fay)
			}
			sh.Next().Emit(fitEv{Ev: "fit", Kind: kind, Vb4: vb4, E1: e1, D4: [2]int{4 * dx, 4 * dy}, E2: e2, A4: [2]int{ax, ay},
				Vb: fs(vb.MinX, vb.MinY, vb.MaxX, vb.MaxY), D: fs(fdx, fdy), A: fs(fax, fay), Got: fs(a, b, cc, d)})
			stats["fit"]++
		}
		if c%8 == 0 {
			sx, sy := vb.Size()
			sh.Next().Emit(fitEv{Ev: "size", Vb4: vb4, E1: e1, Vb: fs(vb.MinX, vb.MinY, vb.MaxX, vb.MaxY), D: []F{}, A: []F{}, Got: fs(sx, sy)})
			stats["size"]++
		}
	}
	// aspect ratios that differ from the target's by a hair (well above rounding, far below one percent): the
	// viewBox aspect must still be kept and the alignment fractions still applied to the remaining slack
	for _, q := range [][4]int{{2100, 2101, 500, 500}, {2101, 2100, 500, 500}, {4000, 4001, 1600, 1600}, {4001, 4000, 1600, 1600},
		{64, 64, 3840, 3839}, {64, 64, 3839, 3840}, {3000, 3001, 777, 777}, {16, 9, 1921, 1080}, {16, 9, 1920, 1081}, {1000, 999, 2047, 2047},
		{5000, 5001, 2500, 2500}, {5001, 5000, 2500, 2500}, {64, 64, 5000, 5001}, {64, 64, 5001, 5000}, {4500, 4499, 100, 100}, {3, 2, 7501, 5000}} {
		for _, ax := range as {
			for _, ay := range as {
				vb4 := [4]int{0, 0, 4 * q[0], 4 * q[1]}
				vb := ivg.ViewBox{MinX: 0, MinY: 0, MaxX: float32(q[0]), MaxY: float32(q[1])}
				fdx, fdy := float32(q[2]), float32(q[3])
				for _, kind := range []string{"meet", "slice"} {
					var a, b, cc, d float32
					if kind == "meet" {
						a, b, cc, d = vb.AspectMeet(fdx, fdy, float32(ax)/4, float32(ay)/4)
					} else {
						a, b, cc, d = vb.AspectSlice(fdx, fdy, float32(ax)/4, float32(ay)/4)
					}
					sh.Next().Emit(fitEv{Ev: "fit", Kind: kind, Vb4: vb4, E1: 0, D4: [2]int{4 * q[2], 4 * q[3]}, E2: 0, A4: [2]int{ax, ay},
						Vb: fs(0, 0, vb.MaxX, vb.MaxY), D: fs(fdx, fdy), A: fs(float32(ax)/4, float32(ay)/4), Got: fs(a, b, cc, d)})
					stats["fit"]++
					stats["near_ratio"]++
				}
			}
		}
	}
	// thin and wide shapes (round 9): both aspect ratios tiny (or huge) and different by a factor, although their
	// difference is small in absolute terms (an aspect test with an absolute epsilon takes them for equal)
	for _, vw := range []int{1, 2, 3} {
		for _, vh := range []int{8192, 12000, 16384} {
			for _, dx := range []int{1, 2, 3, 5} {
				for _, dy := range []int{8192, 10000, 16384} {
					for _, tr := range []bool{false, true} {
						for _, ax := range as {
							for _, ay := range as {
								q := [4]int{vw, vh, dx, dy}
								if tr {
									q = [4]int{vh, vw, dy, dx}
								}
								vb4 := [4]int{0, 0, q[0], q[1]}
								vb := ivg.ViewBox{MinX: 0, MinY: 0, MaxX: float32(q[0]), MaxY: float32(q[1])}
								fdx, fdy := float32(q[2]), float32(q[3])
								for _, kind := range []string{"meet", "slice"} {
									var a, b, cc, d float32
									if kind == "meet" {
										a, b, cc, d = vb.AspectMeet(fdx, fdy, float32(ax)/4, float32(ay)/4)
									} else {
										a, b, cc, d = vb.AspectSlice(fdx, fdy, float32(ax)/4, float32(ay)/4)
									}
									sh.Next().Emit(fitEv{Ev: "fit", Kind: kind, Vb4: vb4, E1: 2, D4: [2]int{q[2], q[3]}, E2: 2, A4: [2]int{ax, ay},
										Vb: fs(0, 0, vb.MaxX, vb.MaxY), D: fs(fdx, fdy), A: fs(float32(ax)/4, float32(ay)/4), Got: fs(a, b, cc, d)})
									stats["fit"]++
									stats["thin_or_wide"]++
								}
							}
						}
					}
				}
			}
		}
	}
	// the target equal to the viewBox's Max corner (not its size) for viewBoxes that do not start at the origin
	for _, q := range [][4]int{{-16, 0, 48, 48}, {-32, -32, 32, 32}, {8, 4, 40, 24}, {-8, -24, 24, 24}, {4, 0, 12, 36}, {0, -10, 30, 20}} {
		for _, ax := range as {
			for _, ay := range as {
				vb4 := [4]int{4 * q[0], 4 * q[1], 4 * q[2], 4 * q[3]}
				vb := ivg.ViewBox{MinX: float32(q[0]), MinY: float32(q[1]), MaxX: float32(q[2]), MaxY: float32(q[3])}
				fdx, fdy := float32(q[2]), float32(q[3])
				for _, kind := range []string{"meet", "slice"} {
					var a, b, cc, d float32
					if kind == "meet" {
						a, b, cc, d = vb.AspectMeet(fdx, fdy, float32(ax)/4, float32(ay)/4)
					} else {
						a, b, cc, d = vb.AspectSlice(fdx, fdy, float32(ax)/4, float32(ay)/4)
					}
					sh.Next().Emit(fitEv{Ev: "fit", Kind: kind, Vb4: vb4, E1: 0, D4: [2]int{4 * q[2], 4 * q[3]}, E2: 0, A4: [2]int{ax, ay},
						Vb: fs(vb.MinX, vb.MinY, vb.MaxX, vb.MaxY), D: fs(fdx, fdy), A: fs(float32(ax)/4, float32(ay)/4), Got: fs(a, b, cc, d)})
					stats["fit"]++
					stats["target_is_max_corner"]++
				}
			}
		}
	}
	// the viewBox's own size as the target, at several origins (nothing to scale)
	for _, o := range origins {
		for vw := 1; vw <= 12; vw++ {
			for vh := 1; vh <= 12; vh += 3 {
				for _, a := range as {
					vb4 := [4]int{o[0], o[1], o[0] + 4*vw, o[1] + 4*vh}
					vb := ivg.ViewBox{MinX: sc(vb4[0], 0), MinY: sc(vb4[1], 0), MaxX: sc(vb4[2], 0), MaxY: sc(vb4[3], 0)}
					for _, kind := range []string{"meet", "slice"} {
						var p, q, r, s float32
						if kind == "meet" {
							p, q, r, s = vb.AspectMeet(float32(vw), float32(vh), float32(a)/4, float32(a)/4)
						} else {
							p, q, r, s = vb.AspectSlice(float32(vw), float32(vh), float32(a)/4, float32(a)/4)
						}
						sh.Next().Emit(fitEv{Ev: "fit", Kind: kind, Vb4: vb4, E1: 0, D4: [2]int{4 * vw, 4 * vh}, E2: 0, A4: [2]int{a, a},
							Vb: fs(vb.MinX, vb.MinY, vb.MaxX, vb.MaxY), D: fs(float32(vw), float32(vh)), A: fs(float32(a)/4, float32(a)/4), Got: fs(p, q, r, s)})
						stats["fit"]++
					}
				}
			}
		}
	}
	// sizes in tenths of a unit (round 10): not dyadic, so the float32 arithmetic rounds at every step - the placement must
	// still be the rational one within the tolerance, at every alignment (Max above all: min + size lands on the target's
	// far edge only up to rounding)
	{
		type fit10Ev struct {
			Ev   string `json:"ev"`
			Kind string `json:"kind"`
			N4   [4]int `json:"n4"`
			A4   [2]int `json:"a4"`
			Vb   []F    `json:"vb"`
			D    []F    `json:"d"`
			A    []F    `json:"a"`
			Got  []F    `json:"got"`
		}
		tenth := func(n int) float32 { return float32(n) / float32(10) }
		for i := 0; i < *n/4; i++ {
			vw, vh := 50+rng.Intn(2951), 50+rng.Intn(2951)
			dx, dy := 50+rng.Intn(3951), 50+rng.Intn(3951)
			ax, ay := as[rng.Intn(5)], as[rng.Intn(5)]
			if i%2 == 0 {
				ax, ay = []int{4, 0}[rng.Intn(2)], 4 // the far edge, the case named above
				if rng.Intn(2) == 0 {
					ax, ay = ay, ax
				}
			}
			vb := ivg.ViewBox{MinX: 0, MinY: 0, MaxX: tenth(vw), MaxY: tenth(vh)}
			fdx, fdy, fax, fay := tenth(dx), tenth(dy), float32(ax)/4, float32(ay)/4
			for _, kind := range []string{"meet", "slice"} {
				var a, b, cc, d float32
				if kind == "meet" {
					a, b, cc, d = vb.AspectMeet(fdx, fdy, fax, fay)
				} else {
					a, b, cc, d = vb.AspectSlice(fdx, fdy, fax, fay)
				}
				sh.Next().Emit(fit10Ev{Ev: "fit10", Kind: kind, N4: [4]int{vw, vh, dx, dy}, A4: [2]int{ax, ay},
					Vb: fs(0, 0, vb.MaxX, vb.MaxY), D: fs(fdx, fdy), A: fs(fax, fay), Got: fs(a, b, cc, d)})
				stats["fit10"]++
			}
		}
	}
	// arbitrary float32 sizes over many orders of magnitude: ordering part only
	for i := 0; i < *n/4; i++ {
		// moderate aspect ratios (2^-8..2^8); the viewBox and the target each carry an independent common
		// power of two, so that products such as dx*vh leave the float32 range although every quotient and
		// every result is an ordinary number
		m := func() float32 { return float32(math.Ldexp(1+rng.Float64(), rng.Intn(9)-4)) }
		ea, eb := 0, 0
		if i%2 == 1 {
			ea, eb = rng.Intn(161)-80, rng.Intn(161)-80
		}
		sa, sb := float32(math.Ldexp(1, ea)), float32(math.Ldexp(1, eb))
		w, h, dx, dy := m()*sa, m()*sa, m()*sb, m()*sb
		vb := ivg.ViewBox{MinX: 0, MinY: 0, MaxX: w, MaxY: h}
		a4 := 4 * (i / 2 % 2)
		for _, kind := range []string{"meet", "slice"} {
			var p, q, r, s float32
			if kind == "meet" {
				p, q, r, s = vb.AspectMeet(dx, dy, float32(a4)/4, float32(a4)/4)
			} else {
				p, q, r, s = vb.AspectSlice(dx, dy, float32(a4)/4, float32(a4)/4)
			}
			sh.Next().Emit(fitEv{Ev: "rand", Kind: kind, A4: [2]int{a4, a4}, Vb: fs(0, 0, w, h), D: fs(dx, dy), A: fs(float32(a4)/4, float32(a4)/4), Got: fs(p, q, r, s)})
			stats["rand"]++
		}
	}
	nEv, err := sh.Close()
	if err != nil {
		return err
	}
	summary(map[string]interface{}{"events": nEv, "stats": stats, "grid": total})
	return nil
}
