package main

import (
	"bytes"
	"flag"
	"fmt"
	"image/color"
	"math"
	"strings"

	"github.com/reactivego/ivg/decode"
	"github.com/reactivego/ivg/encode"
)

// drive-enc: random call histories driven into real Encoders. Three kinds of
// trace are written: enc.* (TV_Encoder: projected state after every call),
// rt.* (TV_RoundTrip: final bytes + the history), dec.* (TV_Decoder: the real
// decoder on those bytes). Modes select the history families.

type projJ struct {
	Mode   string `json:"mode"`
	Err    string `json:"err"`
	CSel   int    `json:"cSel"`
	NSel   int    `json:"nSel"`
	HiResL bool   `json:"hiResL"`
	DrawOp string `json:"drawOp"`
	NPend  int    `json:"nPend"`
	Lod    []F    `json:"lod"`
	Init   int    `json:"init"` // 1 while the Encoder is still at its zero value (lazy default metadata not yet applied)
}

func projOf(e *encode.Encoder) projJ {
	s := e.VerifState()
	p := projJ{Mode: modeName(s.Mode), Err: s.Err, CSel: int(s.CSel), NSel: int(s.NSel), HiResL: s.HiResLatched,
		NPend: s.NPending, Lod: fs(s.Lod0, s.Lod1), Init: b2i(s.Mode == 0)}
	if s.DrawOp != 0 {
		p.DrawOp = string(rune(s.DrawOp))
	}
	return p
}

type encStart struct {
	Ev  string   `json:"ev"`
	ID  string   `json:"id"`
	Cmp []string `json:"cmp"`
}
type encCall struct {
	Ev   string `json:"ev"`
	Call Call   `json:"call"`
	Proj projJ  `json:"proj"`
	Ret  []int  `json:"ret"`
}
type rtSrc struct {
	Ev            string `json:"ev"`
	ID            string `json:"id"`
	B             []int  `json:"b"`
	From          int    `json:"from"`
	ImplicitReset int    `json:"implicitReset"`
	Fresh         []int  `json:"fresh,omitempty"`
}
type rtH struct {
	Ev   string `json:"ev"`
	Call Call   `json:"call"`
}
type rtEnd struct {
	Ev string `json:"ev"`
}

// runHistory applies the history to e, optionally tracing projections.
func runHistory(e *encode.Encoder, h []Call, w *Writer) {
	for i := range h {
		c := &h[i]
		ret := []int{}
		switch c.Op {
		case "CSel":
			ret = []int{int(e.CSel())}
		case "NSel":
			ret = []int{int(e.NSel())}
		case "Bytes":
			_, err := e.Bytes()
			ret = []int{b2i(err == nil)}
		default:
			applyEnc(e, c)
		}
		if w != nil {
			w.Emit(encCall{Ev: "call", Call: *c, Proj: projOf(e), Ret: ret})
		}
	}
}

// emitRoundTrip writes the TV_RoundTrip trace for history h whose bytes are b.
func emitRoundTrip(w *Writer, id string, h []Call, b []byte, fresh []byte) {
	from := 1
	for i := range h {
		if h[i].Op == "Reset" {
			from = i + 1
		}
	}
	implicit := 1
	if from <= len(h) && h[from-1].Op == "Reset" {
		implicit = 0
	}
	s := rtSrc{Ev: "src", ID: id, B: bytesJ(b), From: from, ImplicitReset: implicit}
	if fresh != nil {
		s.Fresh = bytesJ(fresh)
	}
	w.Emit(s)
	for i := range h {
		w.Emit(rtH{Ev: "h", Call: h[i]})
	}
	w.Emit(rtEnd{Ev: "end"})
}

func init() { register("drive-enc", driveEnc) }

func driveEnc(args []string) error {
	fl := flag.NewFlagSet("drive-enc", flag.ExitOnError)
	outDir := fl.String("out", ".", "output directory")
	nsh := fl.Int("shards", 8, "trace files per kind")
	n := fl.Int("n", 300, "programs per family")
	fams := fl.String("families", "wellformed", "wellformed,illegal,runs,converse,reuse,zero")
	cmp := fl.String("cmp", "err,mode,run", "projection fields TV_Encoder compares")
	fl.Parse(args)
	enc, err := newShards(*outDir, "enc", *nsh)
	if err != nil {
		return err
	}
	rt, err := newShards(*outDir, "rt", *nsh)
	if err != nil {
		return err
	}
	dec, err := newShards(*outDir, "dec", *nsh)
	if err != nil {
		return err
	}
	cmpv := strings.Split(*cmp, ",")
	stats := map[string]int{}
	one := func(id string, h []Call) {
		w := enc.Next()
		w.Emit(encStart{Ev: "start", ID: id, Cmp: cmpv})
		var e encode.Encoder
		runHistory(&e, h, w)
		stats["histories"]++
		stats["calls"] += len(h)
		b, err := e.Bytes()
		if err != nil {
			stats["failed"]++
			return
		}
		b = append([]byte(nil), b...)
		// determinism: the same calls twice give identical bytes; Bytes twice returns equal bytes
		var e2 encode.Encoder
		runHistory(&e2, h, nil)
		b2, _ := e2.Bytes()
		b3, _ := e.Bytes()
		fresh := b2
		if !bytes.Equal(b3, b) {
			fresh = b3
		}
		emitRoundTrip(rt.Next(), id, h, b, fresh)
		fl := decFlags{others: true}
		nc, acc := traceDecode(dec.Next(), id, b, fl)
		count(stats, "dec", nc, acc)
		stats["roundtrips"]++
	}
	for _, fam := range strings.Split(*fams, ",") {
		switch fam {
		case "wellformed":
			rng := newRand(101)
			for i := 0; i < *n; i++ {
				o := &progOpts{maxPaths: 4, maxRun: 6, specials: i%3 == 0, arcs: true, gradients: true, hires: i%2 == 0, selreads: i%4 == 0, meta: i%3 == 1, noReset: i%7 == 0}
				one(fmt.Sprintf("wf/%d", i), genProgram(rng, o))
			}
		case "runs":
			rng := newRand(102)
			for i := 0; i < *n/4+1; i++ {
				o := &progOpts{maxPaths: 2, maxRun: 70, arcs: true, hires: i%2 == 0}
				one(fmt.Sprintf("runs/%d", i), genProgram(rng, o))
			}
			// every verb with exact run lengths around the opcode limits
			for vi := range drawVerbs {
				for _, run := range []int{1, 2, 15, 16, 17, 31, 32, 33, 34, 48, 49, 64, 65, 70} {
					if vi >= 10 && vi < 16 && run > 5 {
						continue
					}
					h := []Call{mkCall("StartPath", 1, 2)}
					o := &progOpts{arcs: true, lattice: true}
					h = append(h, randDraw(rng, o, (vi+1)%len(drawVerbs)))
					for k := 0; k < run; k++ {
						h = append(h, randDraw(rng, o, vi))
					}
					h = append(h, randDraw(rng, o, (vi+2)%len(drawVerbs)), mkCall("ClosePathEndPath"))
					one(fmt.Sprintf("runs/%s/%d", drawVerbs[vi].op, run), h)
				}
			}
		case "longruns":
			// runs far beyond any opcode's repeat limit, around the 8-bit boundary of a count
			rng := newRand(106)
			verbs := []int{1, 3, 10, 17} // RelLineTo, RelSmoothQuadTo, AbsHLineTo, RelArcTo
			for k, run := range []int{255, 256, 257, 300, 511, 512, 513, 600} {
				vi := verbs[(k/2+int(seed()))%len(verbs)]
				if thorough() || k%2 == int(seed()%2) {
					h := []Call{mkCall("StartPath", 1, 2)}
					o := &progOpts{arcs: true, lattice: true}
					for j := 0; j < run; j++ {
						h = append(h, randDraw(rng, o, vi))
					}
					h = append(h, mkCall("ClosePathEndPath"))
					one(fmt.Sprintf("longruns/%s/%d", drawVerbs[vi].op, run), h)
				}
			}
			// runs of 17..40 arcs whose operands all differ (every seed), absolute and relative
			for _, vi := range []int{16, 17} {
				for _, run := range []int{17, 33, 40} {
					h := []Call{mkCall("StartPath", 1, 2)}
					for j := 0; j < run; j++ {
						c := mkCall(drawVerbs[vi].op, float32(3+j), float32(5+2*j), float32(j%8)/8, float32(j)-7.5, float32(2*j)+0.25)
						c.Fl = []int{j % 2, j / 2 % 2}
						h = append(h, c)
					}
					h = append(h, mkCall("ClosePathEndPath"))
					one(fmt.Sprintf("longruns/%s/distinct/%d", drawVerbs[vi].op, run), h)
				}
			}
		case "arcshapes":
			// arcs whose operands stand in special relations (exact half circles, chord equal to the diameter or to zero,
			// equal radii, radius equal to a coordinate) with values that are not multiples of 1/64, at both resolutions
			for hi := 0; hi < 2; hi++ {
				k := 0
				for _, r0 := range []float32{2.505, 0.3, 10.01, 7.7, 1.0 / 3, 100.1} {
					for _, sh := range [][5]float32{{1, 1, 0, 2, 0}, {1, 1, 0, 0, -2}, {1, 1, 0.25, -2, 0}, {1, 2, 0, 2, 0}, {1, 1, 0, 1, 1}, {0.5, 0.5, 0, 1, 0}, {1, 1, 0, 0, 0}} {
						for _, op := range []string{"RelArcTo", "AbsArcTo"} {
							k++
							hs := mkCall("SetHiRes")
							hs.Sel = hi
							c := mkCall(op, sh[0]*r0, sh[1]*r0, sh[2], sh[3]*r0, sh[4]*r0)
							c.Fl = []int{k % 2, k / 2 % 2}
							h := []Call{hs, mkCall("StartPath", r0, -r0), c, mkCall("RelLineTo", r0, r0), mkCall("ClosePathEndPath")}
							one(fmt.Sprintf("arcshapes/%d/%d", hi, k), h)
						}
					}
				}
			}
		case "zerofirst":
			// a never-Reset Encoder whose very first call is each method in turn, with arguments that coincide with the
			// Encoder's initial state (selectors 0, LOD 0..+Inf, and the all-zero Go values) and arguments that do not
			rng := newRand(107)
			inf := float32(math.Inf(1))
			sel := func(op string, v int) Call { c := mkCall(op); c.Sel = v; return c }
			creg := func(c []int) Call { x := mkCall("SetCReg"); x.C = c; return x }
			firsts := []Call{
				mkCall("SetLOD", 0, 0), mkCall("SetLOD", 0, inf), mkCall("SetLOD", 1, 2), mkCall("SetLOD", 0, 24), mkCall("SetLOD", 80, inf),
				sel("SetCSel", 0), sel("SetCSel", 5), sel("SetNSel", 0), sel("SetNSel", 7),
				creg([]int{0, 0, 0, 0, 255}), creg([]int{0, 0, 0, 0, 0}), creg([]int{2, 0, 0, 0, 0}), creg([]int{1, 0, 0, 0, 0}),
				mkCall("SetNReg", 0), mkCall("SetNReg", 0.5),
				mkCall("StartPath", 0, 0), mkCall("StartPath", 1, 2),
				mkCall("CSel"), mkCall("NSel"), mkCall("LOD"), mkCall("Bytes"), sel("SetHiRes", 1), sel("SetHiRes", 0),
			}
			for fi, first := range firsts {
				for v := 0; v < 3; v++ {
					h := []Call{first}
					if first.Op == "StartPath" {
						h = append(h, mkCall("RelLineTo", 3, 0), mkCall("RelLineTo", 0, 3), mkCall("ClosePathEndPath"))
					}
					if v > 0 {
						// the same call once more (now on an initialised Encoder), then ordinary paths
						if first.Op != "StartPath" {
							h = append(h, first)
						}
						h = append(h, genProgram(rng, &progOpts{maxPaths: 2, maxRun: 3, arcs: v == 2, noReset: true, hires: v == 2})...)
					} else if first.Op != "StartPath" {
						h = append(h, mkCall("StartPath", 1, 2), mkCall("RelLineTo", 3, 0), mkCall("RelLineTo", 0, 3), mkCall("ClosePathEndPath"))
					}
					one(fmt.Sprintf("zerofirst/%d/%d", fi, v), h)
				}
			}
		case "illegal":
			rng := newRand(103)
			for i := 0; i < *n; i++ {
				o := &progOpts{maxPaths: 3, maxRun: 4, arcs: true, illegal: 0.08, selreads: true, hires: true, noReset: i%5 == 0, openEnd: i%4 == 0}
				h := genProgram(rng, o)
				if i%6 == 0 { // Reset in the middle, then a well-formed tail
					h = append(h, genProgram(rng, &progOpts{maxPaths: 2, maxRun: 3, arcs: true, meta: true})...)
				}
				one(fmt.Sprintf("ill/%d", i), h)
			}
			// directed: an out-of-range adjustment as the first violation, with every colour kind / number kind, plain and
			// incrementing, on a Reset and on a never-Reset Encoder; then calls that would be legal
			{
				cols := [][]int{{0, 0x40, 0x80, 0xc0, 0xff}, {0, 0x11, 0x22, 0x33, 0x44}, {0, 1, 2, 3, 0xff}, {0, 1, 2, 3, 4}, {1, 5, 0, 0, 0}, {2, 9, 0, 0, 0}, {3, 0x40, 0x7f, 0x82, 0}, {0, 3, 0x4a, 0x8a, 0}}
				nums := []float32{0, 1, 0.5, 0.25, 1000.5, -3, 200}
				k := 0
				for _, adj := range []int{7, 8, 255} {
					for incr := 0; incr < 2; incr++ {
						var bads []Call
						for _, c := range cols {
							x := mkCall("SetCReg")
							x.C, x.Adj, x.Incr = c, adj, incr
							bads = append(bads, x)
						}
						for _, f := range nums {
							x := mkCall("SetNReg", f)
							x.Adj, x.Incr = adj, incr
							bads = append(bads, x)
						}
						if incr == 0 {
							x := mkCall("StartPath", 1, 2)
							x.Adj = adj
							bads = append(bads, x)
						}
						for _, bad := range bads {
							k++
							var h []Call
							if k%3 != 0 {
								r0 := mkCall("Reset", -32, -32, 32, 32)
								r0.Pal = palJ(defaultPal())
								h = append(h, r0)
							}
							if k%2 == 0 {
								h = append(h, mkCall("SetLOD", 1, 2))
							}
							h = append(h, bad, mkCall("StartPath", 1, 2), mkCall("RelLineTo", 3, 0), mkCall("ClosePathEndPath"), mkCall("Bytes"))
							one(fmt.Sprintf("ill/badadj/%d", k), h)
						}
					}
				}
			}
		case "open":
			rng := newRand(104)
			for i := 0; i < *n/2+1; i++ {
				o := &progOpts{maxPaths: 2, maxRun: 5, arcs: true, openEnd: true}
				one(fmt.Sprintf("open/%d", i), genProgram(rng, o))
			}
		case "converse":
			gs, err := loadCorpus()
			if err != nil {
				return err
			}
			rng := newRand(105)
			for gi, g := range gs {
				if !thorough() && gi >= 12 && gi%4 != int(seed()%4) {
					continue
				}
				srcs := [][]byte{g.Data}
				// a mutated copy that is still accepted
				for try := 0; try < 4; try++ {
					m := append([]byte(nil), g.Data...)
					m[rng.Intn(len(m))] = byte(rng.Intn(256))
					var rec Recorder
					if decode.Decode(&rec, m) == nil {
						srcs = append(srcs, m)
						break
					}
				}
				for si, s := range srcs {
					cur := s
					for gen := 0; gen < 2; gen++ {
						var rec Recorder
						if err := decode.Decode(&rec, cur); err != nil {
							return fmt.Errorf("converse: %s gen %d: %v", g.Name, gen, err)
						}
						var e encode.Encoder
						derr := decode.Decode(&e, cur)
						nb, berr := e.Bytes()
						id := fmt.Sprintf("conv/%s/%d/gen%d", g.Name, si, gen+1)
						stats["converse"]++
						if derr != nil || berr != nil {
							// accepted stream must be feedable to an Encoder without error
							w := rt.Next()
							w.Emit(rtSrc{Ev: "src", ID: id, B: []int{}, From: 1, ImplicitReset: 0})
							w.Emit(rtH{Ev: "h", Call: rec.Calls[0]})
							w.Emit(rtEnd{Ev: "end"})
							break
						}
						nb = append([]byte(nil), nb...)
						emitRoundTrip(rt.Next(), id, rec.Calls, nb, nil)
						cur = nb
					}
				}
			}
		case "reuse":
			// C17: A (any history, possibly failed / mid-path / mid-run / hi-res), then Reset + B on the same Encoder
			rng := newRand(106)
			for i := 0; i < *n; i++ {
				a := genProgram(rng, &progOpts{maxPaths: 3, maxRun: 5, arcs: true, illegal: []float64{0, 0.1}[i%2], hires: true, selreads: true, noReset: i%3 == 0, openEnd: true, specials: i%5 == 0, meta: i%4 == 1})
				if i%3 == 1 && len(a) > 3 { // cut A short: mid-path, mid-run
					a = a[:1+rng.Intn(len(a)-1)]
				}
				bprog := genProgram(rng, &progOpts{maxPaths: 3, maxRun: 5, arcs: true, meta: i%2 == 0, hires: i%4 == 0, gradients: true})
				if i%5 == 0 {
					// the same (custom) suggested palette before and after the Reset, another viewBox after it
					pal := defaultPal()
					pal[0], pal[7] = color.RGBA{0x30, 0x66, 0x07, 0xff}, color.RGBA{0x10, 0x20, 0x30, 0x80}
					ra := mkCall("Reset", -32, -32, 32, 32)
					ra.Pal = palJ(pal)
					rb := mkCall("Reset", -24, -20, 24, 28)
					rb.Pal = palJ(pal)
					if len(a) > 0 && a[0].Op == "Reset" {
						a[0] = ra
					} else {
						a = append([]Call{ra}, a...)
					}
					bprog[0] = rb
				}
				h := append([]Call{}, a...)
				if i%7 == 3 {
					// third use (round 10): another whole program between A and B, sometimes read out in between
					mid := genProgram(rng, &progOpts{maxPaths: 2, maxRun: 4, arcs: true, meta: i%2 == 1, hires: i%3 == 0, gradients: true, selreads: true})
					h = append(h, mid...)
					if i%2 == 0 {
						h = append(h, mkCall("Bytes"))
					}
					stats["reuse.third_use"]++
				}
				h = append(h, bprog...)
				var e encode.Encoder
				w := enc.Next()
				w.Emit(encStart{Ev: "start", ID: fmt.Sprintf("reuse/%d", i), Cmp: cmpv})
				runHistory(&e, h, w)
				rb, rerr := e.Bytes()
				var f encode.Encoder
				runHistory(&f, bprog, nil)
				fb, ferr := f.Bytes()
				stats["reuse"]++
				if rerr != nil || ferr != nil {
					if (rerr == nil) != (ferr == nil) {
						wr := rt.Next()
						wr.Emit(rtSrc{Ev: "src", ID: fmt.Sprintf("reuse/%d", i), B: []int{1}, From: 1, ImplicitReset: 0, Fresh: []int{0}})
						wr.Emit(rtEnd{Ev: "end"})
					}
					continue
				}
				emitRoundTrip(rt.Next(), fmt.Sprintf("reuse/%d", i), h, append([]byte(nil), rb...), fb)
			}
			// a never-Reset Encoder that was only looked at (Bytes / selector read-backs: default metadata, nothing
			// appended), then Reset with other metadata and used; afterwards *other* never-Reset Encoders must still
			// produce what they produce in a fresh process (nothing of the first one's buffer is shared)
			for i, looks := range [][]string{{"Bytes"}, {"CSel"}, {"NSel", "LOD"}, {}, {"Bytes", "Bytes"}} {
				var a []Call
				for _, op := range looks {
					a = append(a, mkCall(op))
				}
				bprog := genProgram(rng, &progOpts{maxPaths: 2, maxRun: 3, arcs: true, meta: true})
				if bprog[0].Pal == nil || i%2 == 0 {
					pal := defaultPal()
					pal[0], pal[7] = color.RGBA{0x30, 0x66, 0x07, 0xff}, color.RGBA{0x10, 0x20, 0x30, 0x80}
					bprog[0] = mkCall("Reset", -24, -20, 24, 28)
					bprog[0].Pal = palJ(pal)
				}
				h := append(append([]Call{}, a...), bprog...)
				var e encode.Encoder
				runHistory(&e, h, nil)
				if rb, err := e.Bytes(); err == nil {
					var f encode.Encoder
					runHistory(&f, bprog, nil)
					fb, _ := f.Bytes()
					emitRoundTrip(rt.Next(), fmt.Sprintf("reuse/looked/%d", i), h, append([]byte(nil), rb...), fb)
				}
				// the same looks, then a Reset with the zero values of both metadata types (round 10): ViewBox{} and a palette of
				// 64 transparent blacks are metadata like any other - not "no metadata", and not the defaults
				{
					zb := append([]Call{}, bprog...)
					zb[0] = mkCall("Reset", 0, 0, 0, 0)
					var zp [64]colorRGBA
					zb[0].Pal = palJ(zp)
					if i%2 == 1 {
						zb[0] = mkCall("Reset", 0, 0, 0, 0)
						zb[0].Pal = palJ(defaultPal())
					}
					hz := append(append([]Call{}, a...), zb...)
					var ez encode.Encoder
					runHistory(&ez, hz, nil)
					if rb, err := ez.Bytes(); err == nil {
						var f encode.Encoder
						runHistory(&f, zb, nil)
						fb, _ := f.Bytes()
						emitRoundTrip(rt.Next(), fmt.Sprintf("reuse/looked/%d/zero-metadata", i), hz, append([]byte(nil), rb...), fb)
						stats["reuse.zero_metadata"]++
					}
				}
				one(fmt.Sprintf("reuse/looked/%d/then-zero", i), []Call{})
				one(fmt.Sprintf("reuse/looked/%d/then-zero-path", i), []Call{mkCall("StartPath", 1, 2), mkCall("RelLineTo", 3, 0), mkCall("ClosePathEndPath")})
				stats["reuse.looked"]++
			}
		default:
			return fmt.Errorf("unknown family %q", fam)
		}
	}
	n1, _ := enc.Close()
	n2, _ := rt.Close()
	n3, _ := dec.Close()
	summary(map[string]interface{}{"enc_events": n1, "rt_events": n2, "dec_events": n3, "stats": stats})
	return nil
}
