package main

import (
	"bytes"
	"flag"
	"fmt"
	"image/color"
	"strings"

	"github.com/reactivego/ivg/decode"
	"github.com/reactivego/ivg/encode"
)

// drive-enc: random call histories driven into real Encoders. Three kinds of
// trace are written: enc.* (TV_Encoder: projected state after every call),
// rt.* (TV_RoundTrip: final bytes + the history), dec.* (TV_Decoder: the real
// decoder on those bytes). Modes select the history families.

type projJ struct {
	Mode   string `json:"mode"`
	Err    string `json:"err"`
	CSel   int    `json:"cSel"`
	NSel   int    `json:"nSel"`
	HiResL bool   `json:"hiResL"`
	DrawOp string `json:"drawOp"`
	NPend  int    `json:"nPend"`
	Lod    []F    `json:"lod"`
	Init   int    `json:"init"` // 1 while the Encoder is still at its zero value (lazy default metadata not yet applied)
}

func projOf(e *encode.Encoder) projJ {
	s := e.VerifState()
	p := projJ{Mode: modeName(s.Mode), Err: s.Err, CSel: int(s.CSel), NSel: int(s.NSel), HiResL: s.HiResLatched,
		NPend: s.NPending, Lod: fs(s.Lod0, s.Lod1), Init: b2i(s.Mode == 0)}
	if s.DrawOp != 0 {
		p.DrawOp = string(rune(s.DrawOp))
	}
	return p
}

type encStart struct {
	Ev  string   `json:"ev"`
	ID  string   `json:"id"`
	Cmp []string `json:"cmp"`
}
type encCall struct {
	Ev   string `json:"ev"`
	Call Call   `json:"call"`
	Proj projJ  `json:"proj"`
	Ret  []int  `json:"ret"`
}
type rtSrc struct {
	Ev            string `json:"ev"`
	ID            string `json:"id"`
	B             []int  `json:"b"`
	From          int    `json:"from"`
	ImplicitReset int    `json:"implicitReset"`
	Fresh         []int  `json:"fresh,omitempty"`
}
type rtH struct {
	Ev   string `json:"ev"`
	Call Call   `json:"call"`
}
type rtEnd struct {
	Ev string `json:"ev"`
}

// runHistory applies the history to e, optionally tracing projections.
func runHistory(e *encode.Encoder, h []Call, w *Writer) {
	for i := range h {
		c := &h[i]
		ret := []int{}
		switch c.Op {
		case "CSel":
			ret = []int{int(e.CSel())}
		case "NSel":
			ret = []int{int(e.NSel())}
		case "Bytes":
			_, err := e.Bytes()
			ret = []int{b2i(err == nil)}
		default:
			applyEnc(e, c)
		}
		if w != nil {
			w.Emit(encCall{Ev: "call", Call: *c, Proj: projOf(e), Ret: ret})
		}
	}
}

// emitRoundTrip writes the TV_RoundTrip trace for history h whose bytes are b.
func emitRoundTrip(w *Writer, id string, h []Call, b []byte, fresh []byte) {
	from := 1
	for i := range h {
		if h[i].Op == "Reset" {
			from = i + 1
		}
	}
	implicit := 1
	if from <= len(h) && h[from-1].Op == "Reset" {
		implicit = 0
	}
	s := rtSrc{Ev: "src", ID: id, B: bytesJ(b), From: from, ImplicitReset: implicit}
	if fresh != nil {
		s.Fresh = bytesJ(fresh)
	}
	w.Emit(s)
	for i := range h {
		w.Emit(rtH{Ev: "h", Call: h[i]})
	}
	w.Emit(rtEnd{Ev: "end"})
}

func init() { register("drive-enc", driveEnc) }

func driveEnc(args []string) error {
	fl := flag.NewFlagSet("drive-enc", flag.ExitOnError)
	outDir := fl.String("out", ".", "output directory")
	nsh := fl.Int("shards", 8, "trace files per kind")
	n := fl.Int("n", 300, "programs per family")
	fams := fl.String("families", "wellformed", "wellformed,illegal,runs,converse,reuse,zero")
	cmp := fl.String("cmp", "err,mode,run", "projection fields TV_Encoder compares")
	fl.Parse(args)
	enc, err := newShards(*outDir, "enc", *nsh)
	if err != nil {
		return err
	}
	rt, err := newShards(*outDir, "rt", *nsh)
	if err != nil {
		return err
	}
	dec, err := newShards(*outDir, "dec", *nsh)
	if err != nil {
		return err
	}
	cmpv := strings.Split(*cmp, ",")
	stats := map[string]int{}
	one := func(id string, h []Call) {
		w := enc.Next()
		w.Emit(encStart{Ev: "start", ID: id, Cmp: cmpv})
		var e encode.Encoder
		runHistory(&e, h, w)
		stats["histories"]++
		stats["calls"] += len(h)
		b, err := e.Bytes()
		if err != nil {
			stats["failed"]++
			return
		}
		b = append([]byte(nil), b...)
		// determinism: the same calls twice give identical bytes; Bytes twice returns equal bytes
		var e2 encode.Encoder
		runHistory(&e2, h, nil)
		b2, _ := e2.Bytes()
		b3, _ := e.Bytes()
		fresh := b2
		if !bytes.Equal(b3, b) {
			fresh = b3
		}
		emitRoundTrip(rt.Next(), id, h, b, fresh)
		fl := decFlags{others: true}
		nc, acc := traceDecode(dec.Next(), id, b, fl)
		count(stats, "dec", nc, acc)
		stats["roundtrips"]++
	}
	for _, fam := range strings.Split(*fams, ",") {
		switch fam {
		case "wellformed":
			rng := newRand(101)
			for i := 0; i < *n; i++ {
				o := &progOpts{maxPaths: 4, maxRun: 6, specials: i%3 == 0, arcs: true, gradients: true, hires: i%2 == 0, selreads: i%4 == 0, meta: i%3 == 1, noReset: i%7 == 0}
				one(fmt.Sprintf("wf/%d", i), genProgram(rng, o))
			}
		case "runs":
			rng := newRand(102)
			for i := 0; i < *n/4+1; i++ {
				o := &progOpts{maxPaths: 2, maxRun: 70, arcs: true, hires: i%2 == 0}
				one(fmt.Sprintf("runs/%d", i), genProgram(rng, o))
			}
			// every verb with exact run lengths around the opcode limits
			for vi := range drawVerbs {
				for _, run := range []int{1, 2, 15, 16, 17, 31, 32, 33, 34, 48, 49, 64, 65, 70} {
					if vi >= 10 && vi < 16 && run > 5 {
						continue
					}
					h := []Call{mkCall("StartPath", 1, 2)}
					o := &progOpts{arcs: true, lattice: true}
					h = append(h, randDraw(rng, o, (vi+1)%len(drawVerbs)))
					for k := 0; k < run; k++ {
						h = append(h, randDraw(rng, o, vi))
					}
					h = append(h, randDraw(rng, o, (vi+2)%len(drawVerbs)), mkCall("ClosePathEndPath"))
					one(fmt.Sprintf("runs/%s/%d", drawVerbs[vi].op, run), h)
				}
			}
		case "illegal":
			rng := newRand(103)
			for i := 0; i < *n; i++ {
				o := &progOpts{maxPaths: 3, maxRun: 4, arcs: true, illegal: 0.08, selreads: true, hires: true, noReset: i%5 == 0, openEnd: i%4 == 0}
				h := genProgram(rng, o)
				if i%6 == 0 { // Reset in the middle, then a well-formed tail
					h = append(h, genProgram(rng, &progOpts{maxPaths: 2, maxRun: 3, arcs: true, meta: true})...)
				}
				one(fmt.Sprintf("ill/%d", i), h)
			}
		case "open":
			rng := newRand(104)
			for i := 0; i < *n/2+1; i++ {
				o := &progOpts{maxPaths: 2, maxRun: 5, arcs: true, openEnd: true}
				one(fmt.Sprintf("open/%d", i), genProgram(rng, o))
			}
		case "converse":
			gs, err := loadCorpus()
			if err != nil {
				return err
			}
			rng := newRand(105)
			for gi, g := range gs {
				if !thorough() && gi >= 12 && gi%4 != int(seed()%4) {
					continue
				}
				srcs := [][]byte{g.Data}
				// a mutated copy that is still accepted
				for try := 0; try < 4; try++ {
					m := append([]byte(nil), g.Data...)
					m[rng.Intn(len(m))] = byte(rng.Intn(256))
					var rec Recorder
					if decode.Decode(&rec, m) == nil {
						srcs = append(srcs, m)
						break
					}
				}
				for si, s := range srcs {
					cur := s
					for gen := 0; gen < 2; gen++ {
						var rec Recorder
						if err := decode.Decode(&rec, cur); err != nil {
							return fmt.Errorf("converse: %s gen %d: %v", g.Name, gen, err)
						}
						var e encode.Encoder
						derr := decode.Decode(&e, cur)
						nb, berr := e.Bytes()
						id := fmt.Sprintf("conv/%s/%d/gen%d", g.Name, si, gen+1)
						stats["converse"]++
						if derr != nil || berr != nil {
							// accepted stream must be feedable to an Encoder without error
							w := rt.Next()
							w.Emit(rtSrc{Ev: "src", ID: id, B: []int{}, From: 1, ImplicitReset: 0})
							w.Emit(rtH{Ev: "h", Call: rec.Calls[0]})
							w.Emit(rtEnd{Ev: "end"})
							break
						}
						nb = append([]byte(nil), nb...)
						emitRoundTrip(rt.Next(), id, rec.Calls, nb, nil)
						cur = nb
					}
				}
			}
		case "reuse":
			// C17: A (any history, possibly failed / mid-path / mid-run / hi-res), then Reset + B on the same Encoder
			rng := newRand(106)
			for i := 0; i < *n; i++ {
				a := genProgram(rng, &progOpts{maxPaths: 3, maxRun: 5, arcs: true, illegal: []float64{0, 0.1}[i%2], hires: true, selreads: true, noReset: i%3 == 0, openEnd: true, specials: i%5 == 0, meta: i%4 == 1})
				if i%3 == 1 && len(a) > 3 { // cut A short: mid-path, mid-run
					a = a[:1+rng.Intn(len(a)-1)]
				}
				bprog := genProgram(rng, &progOpts{maxPaths: 3, maxRun: 5, arcs: true, meta: i%2 == 0, hires: i%4 == 0, gradients: true})
				if i%5 == 0 {
					// the same (custom) suggested palette before and after the Reset, another viewBox after it
					pal := defaultPal()
					pal[0], pal[7] = color.RGBA{0x30, 0x66, 0x07, 0xff}, color.RGBA{0x10, 0x20, 0x30, 0x80}
					ra := mkCall("Reset", -32, -32, 32, 32)
					ra.Pal = palJ(pal)
					rb := mkCall("Reset", -24, -20, 24, 28)
					rb.Pal = palJ(pal)
					if len(a) > 0 && a[0].Op == "Reset" {
						a[0] = ra
					} else {
						a = append([]Call{ra}, a...)
					}
					bprog[0] = rb
				}
				h := append(append([]Call{}, a...), bprog...)
				var e encode.Encoder
				w := enc.Next()
				w.Emit(encStart{Ev: "start", ID: fmt.Sprintf("reuse/%d", i), Cmp: cmpv})
				runHistory(&e, h, w)
				rb, rerr := e.Bytes()
				var f encode.Encoder
				runHistory(&f, bprog, nil)
				fb, ferr := f.Bytes()
				stats["reuse"]++
				if rerr != nil || ferr != nil {
					if (rerr == nil) != (ferr == nil) {
						wr := rt.Next()
						wr.Emit(rtSrc{Ev: "src", ID: fmt.Sprintf("reuse/%d", i), B: []int{1}, From: 1, ImplicitReset: 0, Fresh: []int{0}})
						wr.Emit(rtEnd{Ev: "end"})
					}
					continue
				}
				emitRoundTrip(rt.Next(), fmt.Sprintf("reuse/%d", i), h, append([]byte(nil), rb...), fb)
			}
		default:
			return fmt.Errorf("unknown family %q", fam)
		}
	}
	n1, _ := enc.Close()
	n2, _ := rt.Close()
	n3, _ := dec.Close()
	summary(map[string]interface{}{"enc_events": n1, "rt_events": n2, "dec_events": n3, "stats": stats})
	return nil
}
