package main

import (
	"crypto/sha256"
	"encoding/hex"
	"encoding/json"
	"flag"
	"fmt"
	"image"
	"image/color"
	"math/rand"
	"os"
	"strings"

	"github.com/reactivego/ivg"
	"github.com/reactivego/ivg/decode"
	"github.com/reactivego/ivg/encode"
	"github.com/reactivego/ivg/generate"
)

// drive-gen: sequences interleaving selector writes, incrementing and plain register
// writes, selector read-backs, Generator gradient helpers and small paths, through the
// documented pipelines: Generator -> Renderer, Generator -> Encoder -> Decoder -> Renderer,
// each optionally through ivg.DestinationLogger. Properties C07 and C19.

// fwdDest sits between the Generator (or logger) and the real destination.
type fwdDest struct {
	dest   ivg.Destination
	onCall func(c Call) // must apply the call to the real destination itself
	onRead func(which string, val uint8)
}

func (d *fwdDest) call(c Call) { d.onCall(c) }
func (d *fwdDest) Reset(vb ivg.ViewBox, p [64]color.RGBA) {
	c := mk("Reset", vb.MinX, vb.MinY, vb.MaxX, vb.MaxY)
	c.Pal = palJ(p)
	d.call(c)
}
func (d *fwdDest) CSel() uint8 { v := d.dest.CSel(); d.onRead("CSel", v); return v }
func (d *fwdDest) NSel() uint8 { v := d.dest.NSel(); d.onRead("NSel", v); return v }
func (d *fwdDest) SetCSel(s uint8) {
	c := mk("SetCSel")
	c.Sel = int(s)
	d.call(c)
}
func (d *fwdDest) SetNSel(s uint8) {
	c := mk("SetNSel")
	c.Sel = int(s)
	d.call(c)
}
func (d *fwdDest) SetCReg(adj uint8, incr bool, col ivg.Color) {
	c := mk("SetCReg")
	c.Adj, c.Incr, c.C = int(adj), b2i(incr), colorJ(col)
	d.call(c)
}
func (d *fwdDest) SetNReg(adj uint8, incr bool, f float32) {
	c := mk("SetNReg", f)
	c.Adj, c.Incr = int(adj), b2i(incr)
	d.call(c)
}
func (d *fwdDest) SetLOD(a, b float32) { d.call(mk("SetLOD", a, b)) }
func (d *fwdDest) StartPath(adj uint8, x, y float32) {
	c := mk("StartPath", x, y)
	c.Adj = int(adj)
	d.call(c)
}
func (d *fwdDest) ClosePathEndPath()               { d.call(mk("ClosePathEndPath")) }
func (d *fwdDest) ClosePathAbsMoveTo(x, y float32) { d.call(mk("ClosePathAbsMoveTo", x, y)) }
func (d *fwdDest) ClosePathRelMoveTo(x, y float32) { d.call(mk("ClosePathRelMoveTo", x, y)) }
func (d *fwdDest) AbsHLineTo(x float32)            { d.call(mk("AbsHLineTo", x)) }
func (d *fwdDest) RelHLineTo(x float32)            { d.call(mk("RelHLineTo", x)) }
func (d *fwdDest) AbsVLineTo(y float32)            { d.call(mk("AbsVLineTo", y)) }
func (d *fwdDest) RelVLineTo(y float32)            { d.call(mk("RelVLineTo", y)) }
func (d *fwdDest) AbsLineTo(x, y float32)          { d.call(mk("AbsLineTo", x, y)) }
func (d *fwdDest) RelLineTo(x, y float32)          { d.call(mk("RelLineTo", x, y)) }
func (d *fwdDest) AbsSmoothQuadTo(x, y float32)    { d.call(mk("AbsSmoothQuadTo", x, y)) }
func (d *fwdDest) RelSmoothQuadTo(x, y float32)    { d.call(mk("RelSmoothQuadTo", x, y)) }
func (d *fwdDest) AbsQuadTo(a, b, x, y float32)    { d.call(mk("AbsQuadTo", a, b, x, y)) }
func (d *fwdDest) RelQuadTo(a, b, x, y float32)    { d.call(mk("RelQuadTo", a, b, x, y)) }
func (d *fwdDest) AbsSmoothCubeTo(a, b, x, y float32) {
	d.call(mk("AbsSmoothCubeTo", a, b, x, y))
}
func (d *fwdDest) RelSmoothCubeTo(a, b, x, y float32) {
	d.call(mk("RelSmoothCubeTo", a, b, x, y))
}
func (d *fwdDest) AbsCubeTo(a, b, c, e, x, y float32) { d.call(mk("AbsCubeTo", a, b, c, e, x, y)) }
func (d *fwdDest) RelCubeTo(a, b, c, e, x, y float32) { d.call(mk("RelCubeTo", a, b, c, e, x, y)) }
func (d *fwdDest) AbsArcTo(rx, ry, rot float32, la, sw bool, x, y float32) {
	c := mk("AbsArcTo", rx, ry, rot, x, y)
	c.Fl = []int{b2i(la), b2i(sw)}
	d.call(c)
}
func (d *fwdDest) RelArcTo(rx, ry, rot float32, la, sw bool, x, y float32) {
	c := mk("RelArcTo", rx, ry, rot, x, y)
	c.Fl = []int{b2i(la), b2i(sw)}
	d.call(c)
}

var _ ivg.Destination = (*fwdDest)(nil)

// ---- steps ------------------------------------------------------------------------------------

type gstep struct {
	kind string // call | readC | readN | helper
	call Call
	h    *helperSpec
}

type stopJ struct {
	C [4]int `json:"c"`
	O F      `json:"o"`
}
type geomJ struct {
	Kind string `json:"kind"`
	P1   [2]int `json:"p1"`
	P2   [2]int `json:"p2"`
	C    [2]int `json:"c"`
	Rv   [2]int `json:"rv"`
	Sv   [2]int `json:"sv"`
}
type helperSpec struct {
	name   string
	shape  int
	spread int
	stops  []generate.GradientStop
	stopsJ []stopJ
	m      generate.Aff3
	geom   geomJ
	args   [6]float32
}
type helperEv struct {
	Ev     string  `json:"ev"`
	Name   string  `json:"name"`
	Shape  int     `json:"shape"`
	Spread int     `json:"spread"`
	Stops  []stopJ `json:"stops"`
	M      []F     `json:"m"`
	Ret    string  `json:"ret"`
	NCalls int     `json:"ncalls"`
	Geom   geomJ   `json:"geom"`
}

// dyadicOnly restricts helper arguments to values whose results are 30-bit floats
var dyadicOnly bool

func randStops(r *rand.Rand, n int) ([]generate.GradientStop, []stopJ) {
	var ss []generate.GradientStop
	var js []stopJ
	for i := 0; i < n; i++ {
		a := uint8(r.Intn(256))
		rgba := color.RGBA{uint8(r.Intn(int(a) + 1)), uint8(r.Intn(int(a) + 1)), uint8(r.Intn(int(a) + 1)), a}
		var c color.Color = rgba
		switch r.Intn(6) {
		case 0:
			c = color.NRGBA{uint8(r.Intn(256)), uint8(r.Intn(256)), uint8(r.Intn(256)), uint8(r.Intn(256))}
		case 1:
			c = color.RGBA64{uint16(r.Intn(0x8000)), uint16(r.Intn(0x8000)), uint16(r.Intn(0x8000)), 0x8000 + uint16(r.Intn(0x7fff))}
		case 2:
			c = color.Gray{uint8(r.Intn(256))}
		}
		conv := color.RGBAModel.Convert(c).(color.RGBA) // the standard conversion; the spec is told this value
		off := float32(i+1) / float32(n+1)
		if r.Intn(3) == 0 || dyadicOnly {
			off = float32(i) / 64
		}
		ss = append(ss, generate.GradientStop{Offset: off, Color: c})
		js = append(js, stopJ{C: rgbaJ(conv), O: f32j(off)})
	}
	if js == nil {
		js = []stopJ{}
	}
	return ss, js
}

func randHelper(r *rand.Rand) *helperSpec {
	ns := []int{2, 2, 3, 3, 5, 1, 0, 9, 2, 3, 4, 7, 53, 54, 55, 56, 57, 58, 59, 64, 255, 256, 257, 300}[r.Intn(24)]
	h := &helperSpec{spread: r.Intn(4)}
	h.stops, h.stopsJ = randStops(r, ns)
	k := func(v float32) int { return int(v * 64) }
	switch r.Intn(4) {
	case 0:
		h.name, h.shape = "SetGradient", r.Intn(2)
		for i := range h.m {
			h.m[i] = float32(r.Intn(64)-32) / 16
		}
		h.geom.Kind = "none"
	case 1:
		h.name, h.shape = "SetLinearGradient", 0
		nd := 10
		if dyadicOnly {
			nd = 6
		}
		d := [][2]float32{{4, 0}, {0, 8}, {4, 4}, {-8, 8}, {16, 0}, {2, -2}, {3, 4}, {5, -12}, {1, 7}, {0.5, 0}}[r.Intn(nd)]
		x1, y1 := float32(r.Intn(33)-16), float32(r.Intn(33)-16)
		h.args = [6]float32{x1, y1, x1 + d[0], y1 + d[1]}
		h.geom = geomJ{Kind: "linear", P1: [2]int{k(x1), k(y1)}, P2: [2]int{k(x1 + d[0]), k(y1 + d[1])}}
	case 2:
		h.name, h.shape = "SetCircularGradient", 1
		dc := [][2]float32{{4, 0}, {0, 8}, {16, 0}, {0, -2}, {3, 4}, {-6, 8}, {5, 12}, {1, 1}}
		ndc := 8
		if dyadicOnly {
			ndc = 4
		}
		d := dc[r.Intn(ndc)]
		cx, cy := float32(r.Intn(33)-16), float32(r.Intn(33)-16)
		h.args = [6]float32{cx, cy, d[0], d[1]}
		h.geom = geomJ{Kind: "circular", C: [2]int{k(cx), k(cy)}, Rv: [2]int{k(d[0]), k(d[1])}}
	default:
		h.name, h.shape = "SetEllipticalGradient", 1
		ne := 6
		if dyadicOnly {
			ne = 4
		}
		d := [][4]float32{{4, 0, 0, 2}, {8, 0, 0, 8}, {4, 4, -2, 2}, {0, 4, -16, 0}, {3, 1, -1, 5}, {6, 2, 1, 4}}[r.Intn(ne)]
		cx, cy := float32(r.Intn(33)-16), float32(r.Intn(33)-16)
		h.args = [6]float32{cx, cy, d[0], d[1], d[2], d[3]}
		h.geom = geomJ{Kind: "elliptical", C: [2]int{k(cx), k(cy)}, Rv: [2]int{k(d[0]), k(d[1])}, Sv: [2]int{k(d[2]), k(d[3])}}
	}
	return h
}

func (h *helperSpec) run(g *generate.Generator) error {
	sp := generate.GradientSpread(h.spread)
	switch h.name {
	case "SetGradient":
		return g.SetGradient(generate.GradientShape(h.shape), sp, h.stops, h.m)
	case "SetLinearGradient":
		return g.SetLinearGradient(h.args[0], h.args[1], h.args[2], h.args[3], sp, h.stops)
	case "SetCircularGradient":
		return g.SetCircularGradient(h.args[0], h.args[1], h.args[2], h.args[3], sp, h.stops)
	default:
		return g.SetEllipticalGradient(h.args[0], h.args[1], h.args[2], h.args[3], h.args[4], h.args[5], sp, h.stops)
	}
}

func genSteps(r *rand.Rand, n int) []gstep {
	var st []gstep
	sel := func(op string, v int) gstep { c := mkCall(op); c.Sel = v; return gstep{kind: "call", call: c} }
	pal := defaultPal()
	if r.Intn(3) == 0 {
		// a suggested palette of the caller's own (round 10): colours on the quarter steps, translucent ones among them (the
		// one-byte palette format holds opaque quarter-step colours only), and ordinary colours in some
		qs := []uint8{0, 0x40, 0x80, 0xc0, 0xff}
		for k := r.Intn(4) + 1; k > 0; k-- {
			a := qs[1+r.Intn(4)]
			ch := func() uint8 {
				v := qs[r.Intn(5)]
				if v > a {
					v = a
				}
				return v
			}
			pal[[]int{0, 0, 1, 5, 63, r.Intn(64)}[r.Intn(6)]] = colorRGBA{ch(), ch(), ch(), a}
		}
		if r.Intn(3) == 0 {
			pal[r.Intn(64)] = colorRGBA{0x12, 0x34, 0x56, 0x78}
		}
	}
	st = append(st, gstep{kind: "call", call: resetCall([4]float32{-32, -32, 32, 32}, pal)})
	for i := 0; i < n; i++ {
		switch r.Intn(12) {
		case 0:
			st = append(st, sel("SetCSel", []int{0, 9, 10, 11, 12, 62, 63, r.Intn(64), r.Intn(64), 74, 64 + r.Intn(192)}[r.Intn(11)]))
		case 1:
			st = append(st, sel("SetNSel", []int{0, 9, 10, 11, 63, r.Intn(64), r.Intn(64), 75, 64 + r.Intn(192)}[r.Intn(9)]))
		case 2, 3:
			c := mkCall("SetCReg")
			c.C = randColor(r, &progOpts{})
			if r.Intn(3) != 0 {
				c.Incr = 1
			} else {
				c.Adj = r.Intn(7)
			}
			k := 1
			if c.Incr == 1 && r.Intn(3) == 0 {
				k = 1 + r.Intn(12) // walk the selector, possibly across 63 -> 0
			}
			for ; k > 0; k-- {
				st = append(st, gstep{kind: "call", call: c})
			}
		case 4, 5:
			c := mkCall("SetNReg", float32(r.Intn(64))/64)
			if r.Intn(3) != 0 {
				c.Incr = 1
			} else {
				c.Adj = r.Intn(7)
			}
			k := 1
			if c.Incr == 1 && r.Intn(3) == 0 {
				k = 1 + r.Intn(12)
			}
			for ; k > 0; k-- {
				st = append(st, gstep{kind: "call", call: c})
			}
		case 6:
			st = append(st, gstep{kind: "readC"})
		case 7:
			st = append(st, gstep{kind: "readN"})
		case 8, 9, 10:
			if r.Intn(3) == 0 {
				x := mkCall("SetTransform")
				x.Sel = r.Intn(3)
				st = append(st, gstep{kind: "xform", call: x})
			}
			st = append(st, gstep{kind: "helper", h: randHelper(r)})
		default:
			sp := mkCall("StartPath", -8, -8)
			st = append(st, gstep{kind: "call", call: sp}, gstep{kind: "call", call: mkCall("AbsLineTo", 8, -8)},
				gstep{kind: "call", call: mkCall("RelLineTo", -8, 16)})
			// ... followed by a few operations drawn from all verbs (curves, smooth curves, H/V, close-and-move, arcs with
			// every flag combination), on the 1/64 lattice so that both pipelines see the same numbers
			for k := r.Intn(4); k > 0; k-- {
				st = append(st, gstep{kind: "call", call: randDraw(r, &progOpts{lattice: true, arcs: true}, r.Intn(len(drawVerbs)))})
			}
			st = append(st, gstep{kind: "call", call: mkCall("ClosePathEndPath")})
		}
	}
	sp := mkCall("StartPath", -16, -16)
	st = append(st, gstep{kind: "call", call: sp}, gstep{kind: "call", call: mkCall("AbsHLineTo", 16)},
		gstep{kind: "call", call: mkCall("AbsVLineTo", 16)}, gstep{kind: "call", call: mkCall("ClosePathEndPath")})
	return st
}

// runSteps drives the steps through a Generator whose destination is top (fwdDest or a logger around it).
func runSteps(steps []gstep, top ivg.Destination, w *Writer, ncalls *int) {
	g := &generate.Generator{}
	g.SetDestination(top)
	for _, s := range steps {
		switch s.kind {
		case "call":
			c := s.call
			apply(top, &c)
		case "readC":
			top.CSel()
		case "readN":
			top.NSel()
		case "xform":
			// the path-data transform of the Generator: it concerns SetPathData only; the gradient helpers take their
			// geometry in graphic coordinates whatever transform is configured
			switch s.call.Sel % 3 {
			case 0:
				g.SetTransform(generate.Scale(2), generate.Translate(-48, -48))
			case 1:
				g.SetTransform(generate.Translate(5, -3))
			default:
				g.SetTransform()
			}
		case "helper":
			w.Emit(map[string]string{"ev": "hstart"})
			n0 := *ncalls
			err := s.h.run(g)
			ev := helperEv{Ev: "helper", Name: s.h.name, Shape: s.h.shape, Spread: s.h.spread, Stops: s.h.stopsJ, M: []F{}, NCalls: *ncalls - n0, Geom: s.h.geom}
			if s.h.name == "SetGradient" {
				for _, v := range s.h.m {
					ev.M = append(ev.M, f32j(v))
				}
			}
			if err != nil {
				ev.Ret = err.Error()
			}
			w.Emit(ev)
		}
	}
}

func init() { register("drive-gen", driveGen) }

func driveGen(args []string) error {
	fl := flag.NewFlagSet("drive-gen", flag.ExitOnError)
	outDir := fl.String("out", ".", "output directory")
	nsh := fl.Int("shards", 8, "trace files per kind")
	n := fl.Int("n", 100, "sequences")
	steps := fl.Int("steps", 30, "steps per sequence")
	fl.Parse(args)
	rend, err := newShards(*outDir, "rend", *nsh)
	if err != nil {
		return err
	}
	enc, err := newShards(*outDir, "enc", *nsh)
	if err != nil {
		return err
	}
	rt, err := newShards(*outDir, "rt", *nsh)
	if err != nil {
		return err
	}
	var sharedEncoder encode.Encoder
	devnull, _ := os.OpenFile(os.DevNull, os.O_WRONLY, 0)
	stdout := os.Stdout
	rng := newRand(707)
	stats := map[string]int{}
	for i := 0; i < *n; i++ {
		// the target rectangle sits at the image origin or away from it (same size: the same map apart from the origin)
		rect := []image.Rectangle{image.Rect(0, 0, 64, 64), image.Rect(5, 9, 69, 73), image.Rect(24, 40, 88, 104),
			image.Rect(0, 0, 128, 64), image.Rect(3, 1, 3+32, 1+128)}[i%5] // the last two: x and y scales differ (2 and 1, 1/2 and 2)
		dyadicOnly = i%2 == 0
		st := genSteps(rng, *steps)
		if i%3 == 0 {
			// directed: walk CSEL (and NSEL) across 63 -> 0 by incrementing writes so that it lands in or next to
			// the stop range 10.., then call a helper; then continue with the random steps
			s0 := 50 + rng.Intn(14)
			land := 8 + rng.Intn(7) // CSEL mod 64 after the walk: 8..14
			k := (land - s0 + 64) % 64
			c := mkCall("SetCSel")
			c.Sel = s0
			pre := []gstep{st[0], {kind: "call", call: c}}
			w := mkCall("SetCReg")
			w.C, w.Incr = []int{0, 0x40, 0x80, 0xc0, 0xff}, 1
			if i%6 == 3 {
				// the walk writes a blend, a palette reference or a register reference instead of a plain colour: whatever is
				// written, an incrementing write moves the selector the helper later finds and restores
				w.C = [][]int{{3, 0x40, 0x7f, 0x80, 0}, {1, 5, 0, 0, 0}, {2, 9, 0, 0, 0}, {3, 0xff, 0xc3, 0x23, 0}}[i/6%4]
			}
			wn := mkCall("SetNReg", 0.5)
			wn.Incr = 1
			for j := 0; j < k; j++ {
				pre = append(pre, gstep{kind: "call", call: w})
				if j%2 == 0 {
					pre = append(pre, gstep{kind: "call", call: wn})
				}
			}
			h := randHelper(rng)
			for len(h.stops) > 58 || len(h.stops) == 0 {
				h = randHelper(rng)
			}
			if i%6 != 3 {
				pre = append(pre, gstep{kind: "readC"})
			}
			pre = append(pre, gstep{kind: "helper", h: h}) // (i%6 == 3: the helper's own read-back is the first one after the walk)
			st = append(pre, st[1:]...)
		}
		plainLog := "" // the rasteriser log of the pipeline without a logger: a DestinationLogger in the way changes nothing
		for _, logger := range []int{0, 1, 2} {
			if logger != 0 && i%3 != logger%3 {
				continue
			}
			id := fmt.Sprintf("gen/%d/log%d", i, logger)
			wrap := func(d ivg.Destination) ivg.Destination {
				switch logger {
				case 1:
					return &ivg.DestinationLogger{Destination: d}
				case 2:
					return &ivg.DestinationLogger{Destination: d, Alt: true}
				}
				return d
			}
			p1log := ""
			exact30 := true
			// P1: Generator -> [logger ->] Renderer
			{
				w := rend.Next()
				t := newTracedRenderer(w, id+"/P1", rect)
				nc := 0
				fd := &fwdDest{dest: t.rd, onCall: func(c Call) {
					nc++
					if c.Op == "SetNReg" && c.F[0][1]&3 != 0 {
						exact30 = false // this number does not survive the format's 30-bit floats unchanged
					}
					t.do(c)
				},
					onRead: func(which string, v uint8) {
						w.Emit(map[string]interface{}{"ev": "read", "which": which, "val": int(v)})
					}}
				os.Stdout = devnull
				runSteps(st, wrap(fd), w, &nc)
				os.Stdout = stdout
				stats["P1"]++
				stats["calls"] += nc
				p1log = rasterDigest(t.z.Calls)
				if logger == 0 {
					plainLog = p1log
				} else {
					w.Emit(map[string]interface{}{"ev": "same", "what": "rasteriser log of Generator->Renderer with and without a DestinationLogger in between",
						"a": plainLog, "b": p1log})
					stats["logger compared"]++
				}
			}
			// P2: Generator -> [logger ->] Encoder -> bytes -> Decoder -> Renderer
			{
				// every other sequence goes into a long-lived Encoder (each sequence starts with Reset)
				ep := &encode.Encoder{}
				if i%2 == 1 {
					ep = &sharedEncoder
				}
				we := enc.Next()
				we.Emit(encStart{Ev: "start", ID: id + "/P2", Cmp: []string{"err", "mode", "sel"}})
				wm := rend.Next()
				wm.Emit(rendSrc{Ev: "rsrc", ID: id + "/P2/model", Rect: [4]int{0, 0, 64, 64}})
				var hist []Call
				nc := 0
				fd := &fwdDest{dest: ep,
					onCall: func(c Call) {
						nc++
						apply(ep, &c)
						hist = append(hist, c)
						we.Emit(encCall{Ev: "call", Call: c, Proj: projOf(ep), Ret: []int{}})
						wm.Emit(map[string]interface{}{"ev": "mcall", "call": c})
					},
					onRead: func(which string, v uint8) {
						c := mkCall(which)
						we.Emit(encCall{Ev: "call", Call: c, Proj: projOf(ep), Ret: []int{int(v)}})
						wm.Emit(map[string]interface{}{"ev": "read", "which": which, "val": int(v)})
					}}
				os.Stdout = devnull
				runSteps(st, wrap(fd), wm, &nc)
				os.Stdout = stdout
				b, berr := ep.Bytes()
				stats["P2"]++
				if berr != nil {
					stats["P2.encerr"]++
					wm.Emit(map[string]interface{}{"ev": "read", "which": "CSel", "val": -1}) // an accepted sequence must encode: forces a diagnostic
					continue
				}
				b = append([]byte(nil), b...)
				emitRoundTrip(rt.Next(), id+"/P2", hist, b, nil)
				wd := rend.Next()
				t := newTracedRenderer(wd, id+"/P2/decoded", rect)
				rec := &Recorder{OnCall: func(c *Call) { t.do(*c) }, Limit: 1}
				if err := decode.Decode(rec, b); err != nil {
					stats["P2.decerr"]++
				}
				// both pipelines were fed the same steps with on-grid coordinates: the same rasteriser activity and paints
				// (only when every number register value is a 30-bit float, so that the format's quantisation is the identity)
				if exact30 {
					wd.Emit(map[string]interface{}{"ev": "same", "what": "rasteriser log of Generator->Renderer vs Generator->Encoder->Decoder->Renderer",
						"a": p1log, "b": rasterDigest(t.z.Calls)})
					stats["P1=P2 compared"]++
				} else {
					stats["P1=P2 not compared (numbers beyond 30-bit floats)"]++
				}
			}
		}
	}
	n1, _ := rend.Close()
	n2, _ := enc.Close()
	n3, _ := rt.Close()
	summary(map[string]interface{}{"rend_events": n1, "enc_events": n2, "rt_events": n3, "stats": stats})
	return nil
}

var _ = strings.Join

// rasterDigest is a digest of a recorded rasteriser log (kinds, float bits, integers, projected paints).
func rasterDigest(cs []RCall) string {
	if cs == nil {
		cs = []RCall{}
	}
	// the exact float64 projection of a gradient matrix (m64) is not part of the digest: two pipelines that agree up to
	// the format's quantisation may differ in the sign of a zero there (the rounded projection m compares the values)
	cp := make([]RCall, len(cs))
	copy(cp, cs)
	for i := range cp {
		if p, ok := cp[i].Src.(Paint); ok {
			p.M64 = nil
			cp[i].Src = p
		} else if p, ok := cp[i].Src.(*Paint); ok && p != nil {
			q := *p
			q.M64 = nil
			cp[i].Src = &q
		}
	}
	b, _ := json.Marshal(cp)
	h := sha256.Sum256(b)
	return hex.EncodeToString(h[:10])
}
