package main

import (
	"flag"
	"fmt"
	"image"
	"image/color"
	"math"
	"math/rand"
	"os"
	"strings"

	"github.com/reactivego/ivg"
	"github.com/reactivego/ivg/decode"
	"github.com/reactivego/ivg/raster"
	"github.com/reactivego/ivg/render"
)

// drive-rend: Destination call sequences driven into a real render.Renderer over
// a recording rasteriser; after every call the rasteriser calls it caused and the
// projected VM state (verif hook) are written as one event for TV_Renderer.

type rendSrc struct {
	Ev   string `json:"ev"`
	ID   string `json:"id"`
	Rect [4]int `json:"rect"`
}
type arcHint struct {
	C      [2]int `json:"c"`
	Cs     [3]int `json:"cs"`
	Scaled int    `json:"scaled"`
}
type rendCall struct {
	Hint *arcHint `json:"hint,omitempty"`
	Ev   string   `json:"ev"`
	Call Call     `json:"call"`
	Rz   []RCall  `json:"rz"`
	Sel  [2]int   `json:"sel"`
	Dc   [][5]int `json:"dc"`
	Dn   [][3]int `json:"dn"`
	Lod  []F      `json:"lod"`
	Dis  int      `json:"dis"`
	CReg [][4]int `json:"creg,omitempty"`
}

// tracedRenderer is a Destination that forwards to a Renderer and writes one event per call.
type tracedRenderer struct {
	via ivg.Destination // non-nil: calls are applied to this wrapper around rd
	rd  *render.Renderer
	z   *RecRaster
	w   *Writer
	n   int
	// trim: forget old rasteriser calls (long runs); off when the whole log is needed afterwards
	trim bool
	// dead: a call panicked; the rest of the program is not run
	dead bool
}

// viaRasterLogger makes the next traced Renderers talk to their recording rasteriser through
// raster.RasterizerLogger (a pass-through that must not change anything); stdout is discarded.
var viaRasterLogger bool

// viaDestLogger: the calls reach the next traced Renderers through ivg.DestinationLogger (Alt by turns), a pass-through
// that must change nothing; stdout is discarded.
var viaDestLogger int

// viaCopy makes the next traced Renderers by-value copies of a template Renderer whose rasteriser
// was set (and which has painted one flat path) before the copy was taken: a Renderer is a plain
// value between paths, and everything a path needs is established by StartPath.
var viaCopy bool

// lateRaster: the next traced Renderer gets no rasteriser yet (its trace starts with an empty target);
// the driver calls retarget after the first Reset (Reset before SetRasterizer on a fresh Renderer).
var lateRaster bool

// retarget points the same Renderer at another rectangle (between paths), as an "rset" event.
func (t *tracedRenderer) retarget(nr image.Rectangle) {
	t.rd.SetRasterizer(t.z, nr)
	t.w.Emit(map[string]interface{}{"ev": "rset", "rect": [4]int{nr.Min.X, nr.Min.Y, nr.Max.X, nr.Max.Y}})
}

func newTracedRenderer(w *Writer, id string, rect image.Rectangle) *tracedRenderer {
	t := &tracedRenderer{rd: &render.Renderer{}, z: &RecRaster{}, w: w}
	if lateRaster {
		w.Emit(rendSrc{Ev: "rsrc", ID: id, Rect: [4]int{0, 0, 0, 0}})
		return t
	}
	if viaRasterLogger {
		t.rd.SetRasterizer(&raster.RasterizerLogger{Rasterizer: t.z}, rect)
	} else {
		t.rd.SetRasterizer(t.z, rect)
	}
	if viaCopy {
		tmpl := t.rd
		pal := ivg.DefaultPalette
		pal[0] = color.RGBA{0x10, 0x20, 0x30, 0xff}
		tmpl.Reset(ivg.DefaultViewBox, pal)
		tmpl.StartPath(0, 1, 2)
		tmpl.AbsLineTo(3, 4)
		tmpl.ClosePathEndPath()
		t.z.Calls = t.z.Calls[:0]
		cp := *tmpl
		t.rd = &cp
	}
	if viaDestLogger != 0 {
		t.via = &ivg.DestinationLogger{Destination: t.rd, Alt: viaDestLogger == 2}
	}
	w.Emit(rendSrc{Ev: "rsrc", ID: id, Rect: [4]int{rect.Min.X, rect.Min.Y, rect.Max.X, rect.Max.Y}})
	return t
}

func (t *tracedRenderer) do(c Call) { t.doHint(c, nil) }

func (t *tracedRenderer) doHint(c Call, hint *arcHint) {
	if t.dead {
		return
	}
	before := t.rd.VerifState()
	n0 := len(t.z.Calls)
	// a panic inside the Renderer is an observation like any other (the rasteriser behind it is a recorder, which never
	// panics): it is reported as an event of its own, the trace specification rejects it, the program stops there
	if msg := func() (msg string) {
		defer func() {
			if r := recover(); r != nil {
				msg = fmt.Sprint(r)
			}
		}()
		if t.via != nil {
			apply(t.via, &c)
		} else {
			apply(t.rd, &c)
		}
		return ""
	}(); msg != "" {
		t.dead = true
		t.w.Emit(map[string]interface{}{"ev": "panic", "call": c, "msg": msg})
		t.n++
		return
	}
	after := t.rd.VerifState()
	ev := rendCall{Ev: "call", Call: c, Rz: append([]RCall{}, t.z.Calls[n0:]...), Sel: [2]int{int(after.CSel), int(after.NSel)},
		Dc: [][5]int{}, Dn: [][3]int{}, Lod: fs(after.Lod0, after.Lod1), Dis: b2i(after.Disabled), Hint: hint}
	if c.Op == "Reset" {
		ev.CReg = palJ(after.CReg)
	} else {
		for i := 0; i < 64; i++ {
			if before.CReg[i] != after.CReg[i] {
				a := after.CReg[i]
				ev.Dc = append(ev.Dc, [5]int{i, int(a.R), int(a.G), int(a.B), int(a.A)})
			}
			if math.Float32bits(before.NReg[i]) != math.Float32bits(after.NReg[i]) {
				f := f32j(after.NReg[i])
				ev.Dn = append(ev.Dn, [3]int{i, f[0], f[1]})
			}
		}
	}
	t.w.Emit(ev)
	t.n++
	if t.trim && len(t.z.Calls) > 4096 {
		t.z.Calls = t.z.Calls[:0]
	}
}

// safeApply applies c and reports whether the call came back without panicking.
func safeApply(d ivg.Destination, c *Call) (ok bool) {
	defer func() {
		if recover() != nil {
			ok = false
		}
	}()
	apply(d, c)
	return true
}

// ---- lattice configurations -----------------------------------------------------------------

type rendCfg struct {
	vb   [4]float32
	rect image.Rectangle
}

func latticeCfgs() []rendCfg {
	return []rendCfg{
		{[4]float32{-32, -32, 32, 32}, image.Rect(0, 0, 64, 64)},
		{[4]float32{-32, -32, 32, 32}, image.Rect(0, 0, 128, 128)},
		{[4]float32{-32, -32, 32, 32}, image.Rect(5, 9, 37, 41)},
		{[4]float32{-24, -24, 24, 24}, image.Rect(0, 0, 96, 96)},
		{[4]float32{0, 0, 48, 48}, image.Rect(3, 4, 27, 28)},
		{[4]float32{-8, 0, 24, 16}, image.Rect(0, 0, 96, 40)},
		{[4]float32{-8, 0, 24, 16}, image.Rect(7, 3, 87, 63)},
		{[4]float32{-10, 5, 30, 25}, image.Rect(7, 3, 87, 63)},
		{[4]float32{-32, -32, 32, 32}, image.Rect(0, 0, 32, 16)},
		{[4]float32{-16, -16, 16, 16}, image.Rect(-8, -8, 8, 4)},
	}
}

// viewBoxes away from the origin (within the model's range |coordinate| <= 512) at large non-dyadic scales
func offCentreCfgs() []rendCfg {
	return []rendCfg{
		{[4]float32{480, 440, 490, 450}, image.Rect(0, 0, 4001, 3001)},
		{[4]float32{-490, 430, -480, 440}, image.Rect(3, 4, 3+3999, 4+4003)},
		{[4]float32{470, -500, 486, -484}, image.Rect(0, 0, 6401, 6401)},
	}
}

// shrinkShift divides every coordinate of the program by div (staying on the 1/64 lattice) and moves the
// absolute ones by (dx, dy).
func shrinkShift(prog []Call, dx, dy float32, div int) {
	sh := func(f F) float32 { return float32(int(f.float()*64)/div) / 64 }
	for i := range prog {
		c := &prog[i]
		abs := strings.HasPrefix(c.Op, "Abs") || c.Op == "StartPath" || c.Op == "ClosePathAbsMoveTo"
		switch c.Op {
		case "Reset", "SetNReg", "SetLOD":
			continue
		case "AbsHLineTo":
			c.F[0] = f32j(sh(c.F[0]) + dx)
			continue
		case "AbsVLineTo":
			c.F[0] = f32j(sh(c.F[0]) + dy)
			continue
		case "RelHLineTo", "RelVLineTo":
			c.F[0] = f32j(sh(c.F[0]))
			continue
		case "AbsArcTo", "RelArcTo":
			c.F[0], c.F[1] = f32j(sh(c.F[0])), f32j(sh(c.F[1]))
			x, y := sh(c.F[3]), sh(c.F[4])
			if abs {
				x, y = x+dx, y+dy
			}
			c.F[3], c.F[4] = f32j(x), f32j(y)
			continue
		}
		for j := 0; j+1 < len(c.F); j += 2 {
			x, y := sh(c.F[j]), sh(c.F[j+1])
			if abs {
				x, y = x+dx, y+dy
			}
			c.F[j], c.F[j+1] = f32j(x), f32j(y)
		}
	}
}

// configurations whose viewBox-to-pixel scale is not dyadic (compared within a tolerance, never for equality)
func approxCfgs() []rendCfg {
	return []rendCfg{
		{[4]float32{-24, -24, 24, 24}, image.Rect(0, 0, 100, 100)},
		{[4]float32{0, 0, 48, 48}, image.Rect(2, 3, 20, 21)},
		{[4]float32{-32, -32, 32, 32}, image.Rect(0, 0, 100, 75)},
		{[4]float32{-10, 5, 30, 25}, image.Rect(7, 3, 7+123, 3+77)},
		{[4]float32{-32, -32, 32, 32}, image.Rect(0, 0, 600, 600)},
		{[4]float32{-1, -1, 6, 2}, image.Rect(0, 0, 333, 200)},
	}
}

func init() { register("drive-rend", driveRend) }

func driveRend(args []string) error {
	fl := flag.NewFlagSet("drive-rend", flag.ExitOnError)
	outDir := fl.String("out", ".", "output directory")
	nsh := fl.Int("shards", 8, "trace files")
	n := fl.Int("n", 200, "programs per family")
	fams := fl.String("families", "geometry", "geometry,vm,corpus,arcs,reuse")
	fl.Parse(args)
	sh, err := newShards(*outDir, "rend", *nsh)
	if err != nil {
		return err
	}
	stats := map[string]int{}
	cfgs := latticeCfgs()
	stdout := os.Stdout
	if dn, err := os.OpenFile(os.DevNull, os.O_WRONLY, 0); err == nil {
		os.Stdout = dn
	}
	defer func() { os.Stdout = stdout }()
	runProg := func(t *tracedRenderer, prog []Call) {
		for _, c := range prog {
			switch c.Op {
			case "SetHiRes", "LOD", "Bytes":
				continue
			case "CSel":
				t.rd.CSel()
				continue
			case "NSel":
				t.rd.NSel()
				continue
			}
			t.do(c)
		}
	}
	for _, fam := range strings.Split(*fams, ",") {
		switch fam {
		case "geometry", "arcs":
			rng := newRand(201)
			if fam == "arcs" {
				// directed (round 10): a relative arc that is not subdivided - a zero radius (a straight line), or inside a path
				// that is not drawn - and, later, an absolute arc: it ends at its own end point (in the same path, in the next
				// one, after a Reset)
				arc := func(op string, rx, ry, rot float32, la, sw int, x, y float32) Call {
					c := mkCall(op, rx, ry, rot, x, y)
					c.Fl = []int{la, sw}
					return c
				}
				creg := func(c []int) Call { x := mkCall("SetCReg"); x.C = c; return x }
				k := 0
				for _, early := range []Call{arc("RelArcTo", 0, 3, 0, 0, 1, 5, 2), arc("RelArcTo", 4, 0, 0.125, 1, 0, -3, 4), arc("RelArcTo", 0, 0, 0, 0, 0, 2, 2), arc("RelArcTo", 5, 3, 0.25, 1, 1, 4, -2)} {
					for _, later := range []Call{arc("AbsArcTo", 6, 4, 0, 0, 1, 8, 6), arc("AbsArcTo", 5, 5, 0.125, 1, 0, -7, 3)} {
						for variant := 0; variant < 4; variant++ {
							k++
							cfg := []rendCfg{cfgs[0], cfgs[7], cfgs[5]}[k%3]
							prog := []Call{resetCall(cfg.vb, defaultPal())}
							disabled := early.F[0] != f32j(0) && early.F[1] != f32j(0)
							if disabled {
								prog = append(prog, creg([]int{0, 0, 0, 0, 0})) // transparent: the path is not drawn
							}
							prog = append(prog, mkCall("StartPath", -10, -5), mkCall("RelLineTo", 2, 1), early)
							switch {
							case disabled || variant == 1:
								prog = append(prog, mkCall("ClosePathEndPath"), creg([]int{0, 9, 8, 7, 255}), mkCall("StartPath", -9, -4))
							case variant == 2:
								prog = append(prog, mkCall("ClosePathEndPath"), resetCall(cfg.vb, defaultPal()), mkCall("StartPath", -9, -4))
							case variant == 3:
								prog = append(prog, mkCall("RelQuadTo", 1, 1, 2, 0), mkCall("AbsLineTo", -8, -3))
							}
							prog = append(prog, later, mkCall("RelLineTo", 1, 1), mkCall("ClosePathEndPath"))
							t := newTracedRenderer(sh.Next(), fmt.Sprintf("unsubdivided-rel-arc-then-abs-arc/%d", k), cfg.rect)
							runProg(t, prog)
							stats["arcs.programs"]++
							stats["arcs.rel_then_abs"]++
							stats["arcs.calls"] += t.n
						}
					}
				}
			}
			for i := 0; i < *n; i++ {
				cfg := cfgs[i%len(cfgs)]
				if i%3 == 2 {
					ac := approxCfgs()
					cfg = ac[i/3%len(ac)]
					stats[fam+".nondyadic_scale"]++
				}
				viaRasterLogger = i%5 == 4
				viaDestLogger = []int{0, 0, 0, 1, 0, 0, 2}[i%7]
				o := &progOpts{maxPaths: 3, maxRun: 4, lattice: true, arcs: fam == "arcs" || i%4 == 0}
				prog := genProgram(rng, o)
				prog[0] = resetCall(cfg.vb, defaultPal())
				if i%8 == 5 {
					// the same random geometry painted with gradients: every colour register except the two stops holds a
					// valid two-stop gradient before the program proper starts (its own register writes may replace some)
					sel := func(op string, v int) Call { c := mkCall(op); c.Sel = v; return c }
					pre := []Call{prog[0], sel("SetCSel", 10), sel("SetNSel", 10)}
					for s := 0; s < 2; s++ {
						cc := mkCall("SetCReg")
						cc.C, cc.Incr = []int{0, 200 * s, 10, 20, 255}, 1
						nn := mkCall("SetNReg", float32(s))
						nn.Incr = 1
						pre = append(pre, cc, nn)
					}
					for k, v := range []float32{0.0625, -0.015625, 0.25, 0.0078125, 0.03125, -0.5} {
						nn := mkCall("SetNReg", v)
						nn.Adj = 6 - k
						pre = append(pre, sel("SetNSel", 10), nn)
					}
					for reg := 0; reg < 64; reg++ {
						if reg == 10 || reg == 11 {
							continue
						}
						g := mkCall("SetCReg")
						g.C = []int{0, 2 | (i/8%4)<<6, 10 | (i/32%2)<<6, 0x80 | 10, 0}
						pre = append(pre, sel("SetCSel", reg), g)
					}
					pre = append(pre, sel("SetCSel", 0), sel("SetNSel", 0))
					prog = append(pre, prog[1:]...)
					stats[fam+".gradient_painted"]++
				}
				// keep coordinates inside a modest range around the viewBox so that pixel values stay on the lattice
				lateRaster = i%6 == 1
				t := newTracedRenderer(sh.Next(), fmt.Sprintf("%s/%d", fam, i), cfg.rect)
				switch {
				case lateRaster:
					// Reset first, SetRasterizer afterwards
					lateRaster = false
					runProg(t, prog[:1])
					t.retarget(cfg.rect)
					runProg(t, prog[1:])
					stats[fam+".reset_before_setrasterizer"]++
				case i%6 == 4:
					// the same Renderer pointed at other rectangles between paths, without a Reset
					k := 0
					for j, c := range prog {
						if c.Op == "ClosePathEndPath" && j+1 < len(prog) {
							runProg(t, prog[k:j+1])
							k = j + 1
							others := append(latticeCfgs(), approxCfgs()...)
							t.retarget(others[rng.Intn(len(others))].rect)
							stats[fam+".retargets"]++
						}
					}
					runProg(t, prog[k:])
				default:
					runProg(t, prog)
				}
				stats[fam+".programs"]++
				stats[fam+".calls"] += t.n
				if viaRasterLogger {
					stats[fam+".via_raster_logger"]++
				}
			}
			viaRasterLogger = false
			viaDestLogger = 0
			if fam == "geometry" {
				// far-out absolute points (round 10): zoomed-in renderings whose outline points map tens of thousands of pixels
				// outside the target; judged statelessly (TV_Renderer: TVFar) because the machine's integers end at 2^15 px
				{
					type farEv struct {
						Ev   string   `json:"ev"`
						Vb   []F      `json:"vb"`
						Rect [4]int   `json:"rect"`
						Op   string   `json:"op"`
						Pin  [][2]int `json:"pin"`
						Args []F      `json:"args"`
						Out  [][2]F   `json:"out"`
					}
					frng := newRand(209)
					for ci, cfg := range []rendCfg{
						{[4]float32{-4, -4, 4, 4}, image.Rect(0, 0, 1024, 1024)},
						{[4]float32{0, 0, 8, 4}, image.Rect(0, 0, 1024, 256)},
						{[4]float32{-1, -1, 1, 1}, image.Rect(3, 5, 515, 517)},
						{[4]float32{-32, -32, 32, 32}, image.Rect(0, 0, 4096, 4096)},
						{[4]float32{-32, -32, 32, 32}, image.Rect(0, 0, 64, 64)}} {
						w := sh.Next()
						z := &RecRaster{}
						rd := &render.Renderer{}
						rd.SetRasterizer(z, cfg.rect)
						w.Emit(rendSrc{Ev: "rsrc", ID: fmt.Sprintf("far/%d", ci), Rect: [4]int{cfg.rect.Min.X, cfg.rect.Min.Y, cfg.rect.Max.X, cfg.rect.Max.Y}})
						rd.Reset(ivg.ViewBox{MinX: cfg.vb[0], MinY: cfg.vb[1], MaxX: cfg.vb[2], MaxY: cfg.vb[3]}, ivg.DefaultPalette)
						reach := []int{600, 600, 200, 1000, 1000}[ci] * 64
						pt := func() [2]int {
							k := func() int {
								v := frng.Intn(2*reach+1) - reach
								if frng.Intn(4) == 0 { // whole units, and the very edge of the reach
									v = v / 64 * 64
								}
								if frng.Intn(16) == 0 {
									v = []int{reach, -reach}[frng.Intn(2)]
								}
								return v
							}
							return [2]int{k(), k()}
						}
						for i := 0; i < 120; i++ {
							op := []string{"AbsLineTo", "AbsQuadTo", "AbsCubeTo", "ClosePathAbsMoveTo", "AbsLineTo"}[frng.Intn(5)]
							if i == 0 {
								op = "StartPath"
							}
							np := map[string]int{"StartPath": 1, "AbsLineTo": 1, "ClosePathAbsMoveTo": 1, "AbsQuadTo": 2, "AbsCubeTo": 3}[op]
							var pin [][2]int
							var a []float32
							for j := 0; j < np; j++ {
								q := pt()
								pin = append(pin, q)
								a = append(a, float32(q[0])/64, float32(q[1])/64)
							}
							n0 := len(z.Calls)
							switch op {
							case "StartPath":
								rd.StartPath(0, a[0], a[1])
							case "AbsLineTo":
								rd.AbsLineTo(a[0], a[1])
							case "ClosePathAbsMoveTo":
								rd.ClosePathAbsMoveTo(a[0], a[1])
							case "AbsQuadTo":
								rd.AbsQuadTo(a[0], a[1], a[2], a[3])
							case "AbsCubeTo":
								rd.AbsCubeTo(a[0], a[1], a[2], a[3], a[4], a[5])
							}
							ev := farEv{Ev: "far", Vb: fs(cfg.vb[0], cfg.vb[1], cfg.vb[2], cfg.vb[3]), Rect: [4]int{cfg.rect.Min.X, cfg.rect.Min.Y, cfg.rect.Max.X, cfg.rect.Max.Y},
								Op: op, Pin: pin, Args: fs(a...), Out: [][2]F{}}
							if len(z.Calls) > n0 {
								last := z.Calls[len(z.Calls)-1]
								for j := 0; j+1 < len(last.F); j += 2 {
									ev.Out = append(ev.Out, [2]F{last.F[j], last.F[j+1]})
								}
							}
							w.Emit(ev)
							stats["geometry.far_points"] += np
						}
						z.Calls = nil
					}
				}
				// a zero-radius arc (a straight line) between a curve and a smooth operation of the same degree: the smooth
				// operation starts from the pen, the curve's control point is forgotten
				for ci, cfg := range []rendCfg{cfgs[0], cfgs[7]} {
					k := 0
					for _, curve := range []Call{mkCall("AbsQuadTo", 3, -4, 6, 1), mkCall("RelCubeTo", 1, -3, 4, -3, 5, 0), mkCall("RelSmoothCubeTo", 2, 2, 4, 0), mkCall("RelSmoothQuadTo", 3, 1)} {
						for _, arc := range []Call{mkCall("AbsArcTo", 0, 4, 0.125, 9, 3), mkCall("RelArcTo", 3, 0, 0, 2, 2), mkCall("RelArcTo", 0, 0, 0.5, 1, -1)} {
							for _, smooth := range []Call{mkCall("RelSmoothQuadTo", 3, 2), mkCall("AbsSmoothQuadTo", 12, 8), mkCall("RelSmoothCubeTo", 1, 3, 3, 3), mkCall("AbsSmoothCubeTo", 14, 2, 15, 6)} {
								k++
								a := arc
								a.Fl = []int{k % 2, k / 2 % 2}
								prog := []Call{resetCall(cfg.vb, defaultPal()), mkCall("StartPath", 1, 2), curve, a, smooth, mkCall("ClosePathEndPath")}
								t := newTracedRenderer(sh.Next(), fmt.Sprintf("curve-zeroarc-smooth/%d/%d", ci, k), cfg.rect)
								runProg(t, prog)
								stats["geometry.programs"]++
								stats["geometry.calls"] += t.n
							}
						}
					}
				}
				// the implicit control point of smooth operations does not outlive its path: (a) a path that stops right after a
				// curve and is never ended (the data ended there), then Reset and a path that begins with a smooth operation
				// of the same degree, on the same Renderer; (b) a path that ends with a curve, then a path painted with a
				// gradient (or a flat colour, or not painted and then a painted one) that begins with a smooth operation
				{
					sel := func(op string, v int) Call { c := mkCall(op); c.Sel = v; return c }
					creg := func(c []int, incr int) Call { x := mkCall("SetCReg"); x.C, x.Incr = c, incr; return x }
					k := 0
					for _, curve := range []Call{mkCall("AbsQuadTo", 3, -4, 6, 1), mkCall("RelSmoothQuadTo", 3, 1), mkCall("RelCubeTo", 1, -3, 4, -3, 5, 0), mkCall("AbsSmoothCubeTo", 2, 7, 9, 5)} {
						for _, smooth := range []Call{mkCall("RelSmoothQuadTo", 3, 2), mkCall("AbsSmoothQuadTo", 12, 8), mkCall("RelSmoothCubeTo", 1, 3, 3, 3), mkCall("AbsSmoothCubeTo", 14, 2, 15, 6)} {
							for variant := 0; variant < 4; variant++ {
								k++
								cfg := []rendCfg{cfgs[0], cfgs[7]}[k%2]
								prog := []Call{resetCall(cfg.vb, defaultPal()), mkCall("StartPath", 1, 2), mkCall("RelLineTo", 2, 1), curve}
								switch variant {
								case 0: // (a)
									prog = append(prog, resetCall(cfg.vb, defaultPal()))
								case 1: // (b) gradient
									prog = append(prog, mkCall("ClosePathEndPath"), sel("SetCSel", 10), sel("SetNSel", 10))
									for s := 0; s < 2; s++ {
										nn := mkCall("SetNReg", float32(s))
										nn.Incr = 1
										prog = append(prog, creg([]int{0, 200 * s, 10, 20, 255}, 1), nn)
									}
									nn := mkCall("SetNReg", 0.125)
									nn.Adj = 6
									prog = append(prog, nn, sel("SetCSel", 5), creg([]int{0, 2, 10 | 1<<6, 0x80 | 10, 0}, 0))
								case 2: // (b) flat
									prog = append(prog, mkCall("ClosePathEndPath"), sel("SetCSel", 5), creg([]int{0, 9, 8, 7, 255}, 0))
								case 3: // (b) a path that is not painted in between
									prog = append(prog, mkCall("ClosePathEndPath"), sel("SetCSel", 5), creg([]int{0, 0, 0, 0, 0}, 0),
										mkCall("StartPath", 0, 0), curve, mkCall("ClosePathEndPath"), creg([]int{0, 9, 8, 7, 255}, 0))
								}
								prog = append(prog, mkCall("StartPath", 1, 2), smooth, mkCall("RelLineTo", 1, 1), mkCall("ClosePathEndPath"))
								t := newTracedRenderer(sh.Next(), fmt.Sprintf("smooth-across-paths/%d/%d", variant, k), cfg.rect)
								runProg(t, prog)
								stats["geometry.programs"]++
								stats["geometry.smooth_across_paths"]++
								stats["geometry.calls"] += t.n
							}
						}
					}
				}
				// close-and-move operations whose target coincides with the pen, or with the start of the sub-path
				for ci, cfg := range []rendCfg{cfgs[0], cfgs[7], cfgs[2]} {
					for v := 0; v < 6; v++ {
						prog := []Call{resetCall(cfg.vb, defaultPal()), mkCall("StartPath", 1, 2), mkCall("AbsLineTo", 5, 2), mkCall("RelLineTo", -1, 6)} // pen (4, 8)
						switch v {
						case 0:
							prog = append(prog, mkCall("ClosePathAbsMoveTo", 4, 8)) // onto the pen
						case 1:
							prog = append(prog, mkCall("ClosePathAbsMoveTo", 1, 2)) // onto the sub-path start
						case 2:
							prog = append(prog, mkCall("ClosePathRelMoveTo", 0, 0)) // relative to the sub-path start: stays there
						case 3:
							prog = append(prog, mkCall("ClosePathRelMoveTo", 3, 6)) // relative to the start: lands on the old pen
						case 4:
							prog = append(prog, mkCall("ClosePathAbsMoveTo", 4, 8), mkCall("ClosePathAbsMoveTo", 4, 8)) // twice
						case 5:
							prog = append(prog, mkCall("AbsLineTo", 1, 2), mkCall("ClosePathAbsMoveTo", 1, 2)) // pen already back at the start
						}
						prog = append(prog, mkCall("RelLineTo", 2, 0), mkCall("RelLineTo", 0, 2), mkCall("ClosePathEndPath"))
						t := newTracedRenderer(sh.Next(), fmt.Sprintf("closemove/%d/%d", ci, v), cfg.rect)
						runProg(t, prog)
						stats["geometry.programs"]++
						stats["geometry.calls"] += t.n
					}
				}
				// viewBoxes far from the origin under a large non-dyadic scale: the programs are shrunk and moved next to
				// the viewBox, so scale * coordinate is large while scale * (coordinate - viewBox minimum) is not
				for i := 0; i < *n/4+2; i++ {
					oc := offCentreCfgs()
					cfg := oc[i%len(oc)]
					prog := genProgram(rng, &progOpts{maxPaths: 2, maxRun: 3, lattice: true})
					prog[0] = resetCall(cfg.vb, defaultPal())
					shrinkShift(prog, cfg.vb[0], cfg.vb[1], 32)
					t := newTracedRenderer(sh.Next(), fmt.Sprintf("offcentre/%d", i), cfg.rect)
					runProg(t, prog)
					stats["geometry.offcentre_programs"]++
					stats["geometry.calls"] += t.n
				}
				// all ordered pairs of verbs (smooth-curve memory across kinds), in two configurations
				for ci, cfg := range []rendCfg{cfgs[0], cfgs[7]} {
					for a := 0; a < 16; a++ {
						for b := 0; b < 16; b++ {
							o := &progOpts{lattice: true}
							prog := []Call{resetCall(cfg.vb, defaultPal()), mkCall("StartPath", 1, 2), randDraw(rng, o, a), randDraw(rng, o, b),
								randDraw(rng, o, 2+(a%2)), randDraw(rng, o, 6+(b%2)), mkCall("ClosePathEndPath")}
							t := newTracedRenderer(sh.Next(), fmt.Sprintf("pairs/%d/%s/%s", ci, drawVerbs[a].op, drawVerbs[b].op), cfg.rect)
							runProg(t, prog)
							stats["geometry.programs"]++
							stats["geometry.calls"] += t.n
						}
					}
				}
			}
		case "vm":
			rng := newRand(202)
			for i := 0; i < *n; i++ {
				cfg := cfgs[i%len(cfgs)]
				h := []int{1, 4, 8, 16, 32, 64}[rng.Intn(6)]
				w := []int{1, 4, 8, 16, 32, 64}[rng.Intn(6)]
				rect := image.Rect(0, 0, w, h)
				if i%3 == 0 {
					rect = cfg.rect
				}
				if i%5 == 4 {
					// viewBox heights and target heights whose quotient is not a binary fraction (height / viewBox height *
					// viewBox height is then not the height again in float32): the level of detail is decided on the height
					// of the rectangle itself, and the programs' LOD bounds sit exactly on it
					vh := []float32{7, 56, 100, 60, 3, 10.5}[i/5%6]
					th := []int{31, 62, 117, 124, 227, 53, 59, 105, 106, 63, 125, 126, 127}[rng.Intn(13)]
					cfg.vb = [4]float32{-2, 1, -2 + vh, 1 + vh}
					rect = image.Rect(3, 2, 3+th, 2+th)
					stats["vm.odd_height_ratios"]++
				}
				prog := genVMProgram(rng, cfg.vb, rect.Dy())
				viaCopy = i%7 == 3
				t := newTracedRenderer(sh.Next(), fmt.Sprintf("vm/%d", i), rect)
				if viaCopy {
					stats["vm.copied_renderer"]++
				}
				viaCopy = false
				runProg(t, prog)
				stats["vm.programs"]++
				stats["vm.calls"] += t.n
			}
			// directed: a path that is not painted (transparent / nonsensical colour / invalid gradient / outside the LOD
			// range), immediately followed by a path painted with a valid gradient, then a flat one
			for why := 0; why < 5; why++ {
				for _, cfg := range []rendCfg{cfgs[0], cfgs[2], cfgs[5], cfgs[7]} { // the last two: scales 3 and 2.5, 2 and 3
					sel := func(op string, v int) Call { c := mkCall(op); c.Sel = v; return c }
					creg := func(c []int) Call { x := mkCall("SetCReg"); x.C = c; return x }
					tri := func(adj int) []Call {
						sp := mkCall("StartPath", 1, 2)
						sp.Adj = adj
						return []Call{sp, mkCall("AbsLineTo", 5, 2), mkCall("RelLineTo", -1, 6), mkCall("ClosePathEndPath")}
					}
					prog := []Call{resetCall(cfg.vb, defaultPal()), sel("SetCSel", 10), sel("SetNSel", 10)}
					for s := 0; s < 3; s++ {
						cc := creg([]int{0, 40 * s, 10, 20, 255})
						cc.Incr = 1
						nn := mkCall("SetNReg", float32(s)/2)
						nn.Incr = 1
						prog = append(prog, cc, nn)
					}
					// the gradient's matrix (NREG[4..9]): a small shear, so that every linear entry of the composed matrix is visible
					for k, v := range []float32{0.0625, -0.015625, 0.25, 0.0078125, 0.03125, -0.5} {
						nn := mkCall("SetNReg", v)
						nn.Adj = 6 - k
						prog = append(prog, sel("SetNSel", 10), nn)
					}
					prog = append(prog, sel("SetCSel", 5), creg([]int{0, 3, 10 | 1<<6, 0x80 | 10, 0})) // CREG[5]: a valid gradient
					prog = append(prog, sel("SetCSel", 6))
					switch why { // CREG[6]: something that is not painted
					case 0:
						prog = append(prog, creg([]int{0, 0, 0, 0, 0}))
					case 1:
						prog = append(prog, creg([]int{0, 0x90, 0x10, 0x10, 0x80}))
					case 2:
						prog = append(prog, creg([]int{0, 3, 20 | 1<<6, 0x80 | 20, 0})) // a gradient whose stops (registers 20..) are all zero offsets
					case 3:
						prog = append(prog, creg([]int{0, 1, 2, 3, 255}), mkCall("SetLOD", float32(cfg.rect.Dy())+1, float32(math.Inf(1))))
					case 4:
						prog = append(prog, creg([]int{0, 1, 10 | 1<<6, 0x80 | 10, 0})) // a gradient with one stop
					}
					prog = append(prog, tri(0)...) // CREG[6]: not painted
					if why == 3 {
						prog = append(prog, mkCall("SetLOD", 0, float32(math.Inf(1))))
					}
					prog = append(prog, tri(1)...) // CREG[5]: the gradient
					prog = append(prog, sel("SetCSel", 7), creg([]int{0, 9, 8, 7, 255}))
					prog = append(prog, tri(0)...) // flat
					prog = append(prog, tri(2)...) // the gradient again
					t := newTracedRenderer(sh.Next(), fmt.Sprintf("vm/skipped-then-gradient/%d", why), cfg.rect)
					runProg(t, prog)
					stats["vm.programs"]++
					stats["vm.calls"] += t.n
				}
			}
			// directed: valid gradients with the largest stop counts (the stop registers wrap around modulo 64 and, from
			// 59 stops on, share number registers with the matrix), painted at once
			for _, ns := range []int{57, 58, 59, 60, 61, 62, 63} {
				for _, b := range []int{0, 10, 63} {
					sel := func(op string, v int) Call { c := mkCall(op); c.Sel = v; return c }
					prog := []Call{resetCall(cfgs[0].vb, defaultPal()), sel("SetCSel", b), sel("SetNSel", b)}
					for s := 0; s < ns; s++ {
						cc := mkCall("SetCReg")
						cc.C, cc.Incr = []int{0, (3 * s) % 200, 10, 20, 200 + s%56}, 1
						nn := mkCall("SetNReg", float32(s+1)/64)
						nn.Incr = 1
						prog = append(prog, cc, nn)
					}
					g := mkCall("SetCReg")
					g.C = []int{0, ns | 1<<6, b | 1<<6, 0x80 | b, 0}
					prog = append(prog, sel("SetCSel", (b+ns)%64), g, mkCall("StartPath", 1, 2), mkCall("AbsLineTo", 5, 2), mkCall("RelLineTo", -1, 6), mkCall("ClosePathEndPath"))
					t := newTracedRenderer(sh.Next(), fmt.Sprintf("vm/manystops/%d/%d", ns, b), cfgs[0].rect)
					runProg(t, prog)
					stats["vm.programs"]++
					stats["vm.many_stops"]++
					stats["vm.calls"] += t.n
				}
			}
		case "corpus":
			gs, err := loadCorpus()
			if err != nil {
				return err
			}
			for gi, g := range gs {
				if !thorough() && gi >= 12 && gi%6 != int(seed()%6) {
					continue
				}
				vb, err := decode.DecodeViewBox(g.Data)
				if err != nil {
					return err
				}
				dx, dy := vb.Size()
				rect := image.Rect(0, 0, int(dx)*2, int(dy)*2)
				if gi%2 == 1 {
					rect = image.Rect(3, 5, 3+int(dx)*4, 5+int(dy)*4)
				}
				if gi%3 == 2 { // sizes such as 24, 18, 100: non-dyadic scales
					sz := []int{24, 18, 100, 37, 256, 64}[gi/3%6]
					rect = image.Rect(1, 2, 1+sz, 2+sz*3/4+1)
					stats["corpus.nondyadic_scale"]++
				}
				t := newTracedRenderer(sh.Next(), "corpus/"+g.Name, rect)
				var rec Recorder
				if err := decode.Decode(&rec, g.Data); err != nil {
					return err
				}
				runProg(t, rec.Calls)
				stats["corpus.programs"]++
				stats["corpus.calls"] += t.n
			}
		case "ellipses":
			driveEllipses(sh, *n, stats)
		case "reuse":
			// C17: one Renderer (and its rasteriser) used for A then B; B's part of the trace must be what the
			// specification prescribes for B alone (Reset re-establishes everything a program can observe)
			rng := newRand(203)
			// directed (round 9): A stops right after a curve inside a path that is never ended (the data ended there, or an
			// error ended the decode), B begins with a smooth operation - of the same degree and of the other one
			{
				k := 0
				for _, curve := range []Call{mkCall("AbsQuadTo", 3, -4, 6, 1), mkCall("RelSmoothQuadTo", 3, 1), mkCall("RelCubeTo", 1, -3, 4, -3, 5, 0), mkCall("AbsSmoothCubeTo", 2, 7, 9, 5)} {
					for _, smooth := range []Call{mkCall("RelSmoothQuadTo", 3, 2), mkCall("AbsSmoothQuadTo", 12, 8), mkCall("RelSmoothCubeTo", 1, 3, 3, 3), mkCall("AbsSmoothCubeTo", 14, 2, 15, 6)} {
						k++
						cfg := []rendCfg{cfgs[0], cfgs[7]}[k%2]
						prog := []Call{resetCall(cfg.vb, defaultPal()), mkCall("StartPath", 1, 2), mkCall("RelLineTo", 2, 1), curve,
							resetCall(cfg.vb, defaultPal()), mkCall("StartPath", 1, 2), smooth, mkCall("RelLineTo", 1, 1), mkCall("ClosePathEndPath")}
						t := newTracedRenderer(sh.Next(), fmt.Sprintf("reuse/unended-curve-then-smooth/%d", k), cfg.rect)
						runProg(t, prog)
						stats["reuse.programs"]++
						stats["reuse.unended_curve_then_smooth"]++
						stats["reuse.calls"] += t.n
					}
				}
			}
			for i := 0; i < *n; i++ {
				cfg := cfgs[i%len(cfgs)]
				t := newTracedRenderer(sh.Next(), fmt.Sprintf("reuse/%d", i), cfg.rect)
				a := genVMProgram(rng, cfg.vb, cfg.rect.Dy())
				if i%2 == 0 {
					a = genProgram(rng, &progOpts{maxPaths: 3, maxRun: 4, lattice: true, arcs: true, openEnd: true})
					a[0] = resetCall(cfg.vb, defaultPal())
				}
				if i%3 == 1 && len(a) > 4 {
					a = a[:2+rng.Intn(len(a)-2)] // truncated: mid-path, dirty smooth state
				}
				runProg(t, a)
				if i%7 == 3 {
					// third use (round 10): another whole program between A and B
					mid := genVMProgram(rng, cfg.vb, cfg.rect.Dy())
					if i%2 == 0 && a[0].Op == "Reset" {
						mid[0] = a[0]
					}
					runProg(t, mid)
					stats["reuse.third_use"]++
				}
				if i%4 >= 2 {
					// same Renderer, another target: same size at another origin, or another size
					nr := cfg.rect.Add(image.Pt(3+rng.Intn(9), 1+rng.Intn(5)))
					if i%8 >= 6 {
						nr = image.Rect(nr.Min.X, nr.Min.Y, nr.Min.X+2*cfg.rect.Dx(), nr.Min.Y+2*cfg.rect.Dy())
					}
					t.retarget(nr)
					cfg.rect = nr
				}
				var b []Call
				if i%2 == 0 {
					b = genVMProgram(rng, cfg.vb, cfg.rect.Dy())
					if i%6 == 0 && a[0].Op == "Reset" {
						b[0] = a[0] // the same palette again: nothing of A's register writes may survive
					}
				} else {
					b = genProgram(rng, &progOpts{maxPaths: 3, maxRun: 4, lattice: true, arcs: i%4 == 1})
					vbB := cfg.vb
					if i%4 == 1 {
						// the same target, a viewBox of another size (no SetRasterizer in between): everything
						// derived from the old viewBox must be recomputed by Reset
						for k := range vbB {
							vbB[k] /= 2
						}
					}
					if i%12 == 7 || i%12 == 11 {
						// a viewBox without width or without height (the decoder accepts min = max): whatever a Renderer
						// does with it, a reused one does the same as a fresh one
						if i%12 == 7 {
							vbB[2] = vbB[0]
						} else {
							vbB[3] = vbB[1]
						}
						stats["reuse.degenerate_viewbox"]++
					}
					b[0] = resetCall(vbB, defaultPal())
				}
				n0 := len(t.z.Calls)
				t.trim = false
				runProg(t, b)
				// B alone on a fresh Renderer and a fresh rasteriser: the same rasteriser activity, bit for bit
				{
					fz := &RecRaster{}
					var fr render.Renderer
					fr.SetRasterizer(fz, cfg.rect)
					for k := range b {
						switch b[k].Op {
						case "SetHiRes", "LOD", "Bytes", "CSel", "NSel":
							continue
						}
						c := b[k]
						if !safeApply(&fr, &c) {
							break // the traced run reported the panic already
						}
					}
					t.w.Emit(map[string]interface{}{"ev": "same", "what": "rasteriser log of B on a reused Renderer vs on a fresh one",
						"a": rasterDigest(t.z.Calls[n0:]), "b": rasterDigest(fz.Calls)})
					stats["reuse.fresh_compared"]++
				}
				stats["reuse.programs"]++
				stats["reuse.calls"] += t.n
			}
		default:
			return fmt.Errorf("unknown family %q", fam)
		}
	}
	ev, err := sh.Close()
	if err != nil {
		return err
	}
	os.Stdout = stdout
	summary(map[string]interface{}{"events": ev, "stats": stats})
	return nil
}

func resetCall(vb [4]float32, pal [64]colorRGBA) Call {
	c := mkCall("Reset", vb[0], vb[1], vb[2], vb[3])
	c.Pal = palJ(pal)
	return c
}

// genVMProgram: register traffic (wrap-around at 0/63, ADJ, increments, blends through palette and
// registers, gradients at several bases, LOD pairs) around small triangle paths.
func genVMProgram(r *rand.Rand, vb [4]float32, height int) []Call {
	pal := defaultPal()
	for i := 0; i < 6; i++ {
		c := randColor(r, &progOpts{})
		for c[0] != 0 {
			c = randColor(r, &progOpts{})
		}
		pal[[]int{0, 1, 5, 62, 63, r.Intn(64)}[i]] = rgbaOf(c) // may be non-premultiplied: the Renderer receives what it is given
		if r.Intn(4) == 0 {
			// ... or shaped like a gradient (a Destination driven directly is not behind the decoder's sanitising)
			pal[[]int{0, 1, 5, 62, 63, r.Intn(64)}[i]] = colorRGBA{uint8(r.Intn(64)), uint8(r.Intn(256)), uint8(0x80 | r.Intn(128)), 0}
		}
	}
	prog := []Call{resetCall(vb, pal)}
	sel := func(op string, v int) Call { c := mkCall(op); c.Sel = v; return c }
	h := float32(height)
	for p := 0; p < 2+r.Intn(4); p++ {
		for k := r.Intn(8); k > 0; k-- {
			switch r.Intn(9) {
			case 0:
				prog = append(prog, sel("SetCSel", []int{0, 1, 5, 62, 63, r.Intn(64)}[r.Intn(6)]))
			case 1:
				prog = append(prog, sel("SetNSel", []int{0, 1, 5, 62, 63, r.Intn(64)}[r.Intn(6)]))
			case 2, 3, 4:
				c := mkCall("SetCReg")
				c.C = randColor(r, &progOpts{gradients: true})
				if r.Intn(2) == 0 {
					c.Incr = 1
				} else {
					c.Adj = r.Intn(7)
				}
				prog = append(prog, c)
			case 5, 6:
				c := mkCall("SetNReg", []float32{0, 0.25, 0.5, 1, 1.5, -0.5, float32(math.NaN()), fbits(0x3f800001), float32(math.Copysign(0, -1)), float32(r.Intn(120)) / 120}[r.Intn(10)])
				if r.Intn(2) == 0 {
					c.Incr = 1
				} else {
					c.Adj = r.Intn(7)
				}
				prog = append(prog, c)
			case 7:
				inf := float32(math.Inf(1))
				pairs := [][2]float32{{0, inf}, {h, h + 1}, {h + 1, inf}, {0, h}, {-inf, inf}, {float32(math.NaN()), inf}, {0, float32(math.NaN())}, {h - 1, h + 0.5}, {h, h}}
				pr := pairs[r.Intn(len(pairs))]
				prog = append(prog, mkCall("SetLOD", pr[0], pr[1]))
			case 8:
				// a gradient: stops at base b
				b := []int{0, 10, 58, 60, 63, r.Intn(64), 1 + r.Intn(5), 1 + r.Intn(5)}[r.Intn(8)] // 1..5: the matrix block wraps from NREG[63] to NREG[0]
				ns := []int{0, 1, 2, 3, 5, 9, 58, 59, 60, 63}[r.Intn(10)]
				if r.Intn(2) == 0 {
					// the six matrix registers below NBASE, written through an incrementing selector (round 10)
					prog = append(prog, sel("SetNSel", (b-6)&63))
					for k := 0; k < 6; k++ {
						mm := mkCall("SetNReg", []float32{0.125, -0.5, 0.25, 1, -1, 2, 0.0625, 0, -0.25, 0.5}[r.Intn(10)])
						mm.Incr = 1
						prog = append(prog, mm)
					}
				}
				prog = append(prog, sel("SetCSel", b), sel("SetNSel", b))
				off := 0
				for s := 0; s < ns; s++ {
					cc := mkCall("SetCReg")
					cc.C = randColor(r, &progOpts{})
					if r.Intn(6) != 0 || (ns > 9 && r.Intn(3*ns) != 0) { // (long lists: mostly valid as a whole)
						a := r.Intn(256)
						cc.C = []int{0, r.Intn(a + 1), r.Intn(a + 1), r.Intn(a + 1), a}
					}
					cc.Incr = 1
					step := 1 + r.Intn(20)
					if ns > 9 {
						step = 1 + r.Intn(2) // many stops: small steps, so that the offsets stay within [0,1]
						if off+step+(ns-1-s) > 120 {
							step = 1
						}
					}
					if r.Intn(8) == 0 && (ns <= 9 || r.Intn(ns) == 0) {
						step = 0 // not strictly increasing
					}
					off += step
					nn := mkCall("SetNReg", float32(off)/120)
					if r.Intn(10) == 0 && ns <= 9 {
						nn = mkCall("SetNReg", float32(off)/64)
					}
					if s == 0 && r.Intn(4) == 0 {
						// the smallest legal first offset, in both spellings of zero
						off = 0
						nn = mkCall("SetNReg", []float32{0, float32(math.Copysign(0, -1))}[r.Intn(2)])
					}
					if s == ns-1 && r.Intn(6) == 0 && off < 120 {
						off = 120
						nn = mkCall("SetNReg", 1) // the largest legal last offset
					}
					nn.Incr = 1
					prog = append(prog, cc, nn)
				}
				g := mkCall("SetCReg")
				g.C = []int{0, ns | r.Intn(4)<<6, b | r.Intn(4)<<6, 0x80 | b | r.Intn(2)<<6, 0}
				prog = append(prog, sel("SetCSel", []int{3, b, 63}[r.Intn(3)]), g)
			}
		}
		sp := mkCall("StartPath", 1, 2)
		sp.Adj = r.Intn(7)
		if r.Intn(2) == 0 {
			sp.Adj = 0
		}
		prog = append(prog, sp, mkCall("AbsLineTo", 5, 2), mkCall("RelLineTo", -1, 6), mkCall("ClosePathEndPath"))
	}
	if r.Intn(3) == 0 {
		// the same colour register painted repeatedly while its meaning changes underneath: a valid gradient, then
		// (one register write later) invalid stops, several paths in a row without further writes, then valid again
		tri := func() []Call {
			return []Call{mkCall("StartPath", -3, 2), mkCall("AbsLineTo", 5, 2), mkCall("RelLineTo", -1, 6), mkCall("ClosePathEndPath")}
		}
		b := []int{10, 58, 62}[r.Intn(3)]
		prog = append(prog, sel("SetCSel", b), sel("SetNSel", b))
		for s := 0; s < 3; s++ {
			cc := mkCall("SetCReg")
			cc.C, cc.Incr = []int{0, 40 * s, 10, 20, 255}, 1
			nn := mkCall("SetNReg", float32(s)/2)
			nn.Incr = 1
			prog = append(prog, cc, nn)
		}
		g := mkCall("SetCReg")
		g.C = []int{0, 3, b | 1<<6, 0x80 | b, 0}
		prog = append(prog, sel("SetCSel", 5), g)
		prog = append(prog, tri()...)
		bad := mkCall("SetNReg", float32(-0.25)) // first offset outside [0,1]
		switch r.Intn(3) {
		case 1:
			bad = mkCall("SetNReg", 1) // not strictly increasing any more
		case 2:
			bad = mkCall("SetNReg", float32(math.NaN()))
		}
		prog = append(prog, sel("SetNSel", b), bad)
		prog = append(prog, tri()...)
		prog = append(prog, tri()...)
		prog = append(prog, tri()...)
		prog = append(prog, sel("SetNSel", b), mkCall("SetNReg", 0))
		prog = append(prog, tri()...)
		prog = append(prog, mkCall("SetLOD", float32(height)+16, float32(math.Inf(1)))) // the last LOD of the graphic excludes the height
		prog = append(prog, tri()...)
	}
	return prog
}

// ---- C06: ellipses from the centre parameterisation with rational sines and cosines -------------

// the 20 angles whose sine and cosine are rational with denominator 1, 5 or 13, in increasing order
var ratAngles = [][3]int{{1, 0, 1}, {12, 5, 13}, {4, 3, 5}, {3, 4, 5}, {5, 12, 13}, {0, 1, 1}, {-5, 12, 13}, {-3, 4, 5}, {-4, 3, 5}, {-12, 5, 13},
	{-1, 0, 1}, {-12, -5, 13}, {-4, -3, 5}, {-3, -4, 5}, {-5, -12, 13}, {0, -1, 1}, {5, -12, 13}, {3, -4, 5}, {4, -3, 5}, {12, -5, 13}}

func driveEllipses(sh *Shards, n int, stats map[string]int) {
	rng := newRand(601)
	cfgs := []rendCfg{
		{[4]float32{-128, -128, 128, 128}, image.Rect(0, 0, 256, 256)},
		{[4]float32{-128, -128, 128, 128}, image.Rect(0, 0, 512, 256)},
		{[4]float32{-64, -32, 192, 96}, image.Rect(5, 7, 5+512, 7+256)},
		{[4]float32{-128, -64, 128, 192}, image.Rect(3, 1, 3+640, 1+384)}, // scales 2.5 and 1.5
		{[4]float32{-256, -256, 256, 256}, image.Rect(0, 0, 256, 128)},    // scales 1/2 and 1/4
	}
	turns := func(a [3]int) float32 {
		switch {
		case a[1] == 0 && a[0] > 0:
			return 0
		case a[0] == 0 && a[1] > 0:
			return 0.25
		case a[1] == 0:
			return 0.5
		case a[0] == 0:
			return 0.75
		}
		t := math.Atan2(float64(a[1]), float64(a[0])) / (2 * math.Pi)
		if t < 0 {
			t++
		}
		return float32(t)
	}
	deg := func(a [3]int) float64 {
		d := math.Atan2(float64(a[1]), float64(a[0])) * 180 / math.Pi
		if d < 0 {
			d += 360
		}
		return d
	}
	g := func(k int) float32 { return float32(k) / 64 }
	count := 0
	for count < n {
		ci := rng.Intn(len(cfgs))
		cfg := cfgs[ci]
		phi := ratAngles[rng.Intn(20)]
		th1, th2 := ratAngles[rng.Intn(20)], ratAngles[rng.Intn(20)]
		if count%4 == 3 {
			// exactly half a turn with radii that exactly span the end points
			k := rng.Intn(20)
			th1, th2 = ratAngles[k], ratAngles[(k+10)%20]
		}
		if th1 == th2 {
			continue
		}
		if phi[2] == 13 && (th1[2] == 13 || th2[2] == 13) {
			continue // denominators 13*13 do not divide the radii
		}
		rx64 := 325 * (1 + rng.Intn(4))
		ry64 := 325 * (1 + rng.Intn(4))
		if ci == 4 { // the large viewBox also takes radii up to 81 units
			rx64 = 325 * (1 + rng.Intn(16))
			ry64 = 325 * (1 + rng.Intn(16))
		}
		cx64 := (rng.Intn(41) - 20) * 64
		cy64 := (rng.Intn(41) - 20) * 64
		pt := func(th [3]int) (int, int) {
			ex := rx64 * th[0] / th[2] // rx cos(theta), exact
			ey := ry64 * th[1] / th[2]
			return cx64 + (phi[0]*ex-phi[1]*ey)/phi[2], cy64 + (phi[1]*ex+phi[0]*ey)/phi[2]
		}
		x1, y1 := pt(th1)
		x2, y2 := pt(th2)
		sweep := rng.Intn(2) == 1
		ext := deg(th2) - deg(th1) // extent going in the positive direction
		if ext < 0 {
			ext += 360
		}
		if !sweep {
			ext = 360 - ext
		}
		large := ext > 180
		hint := &arcHint{C: [2]int{cx64, cy64}, Cs: phi, Scaled: 0}
		crx, cry := rx64, ry64
		if count%7 == 6 {
			// radii too small: the chord is a whole axis of the ellipse; pass the radii divided by s
			th1, th2 = ratAngles[10], ratAngles[0]
			if rng.Intn(2) == 0 {
				th1, th2 = ratAngles[5], ratAngles[15]
			}
			x1, y1 = pt(th1)
			x2, y2 = pt(th2)
			if rx64%650 != 0 || ry64%650 != 0 {
				rx64, ry64 = 650, 1300
				x1, y1 = pt(th1)
				x2, y2 = pt(th2)
			}
			crx, cry = rx64/2, ry64/2
			hint.Scaled = 1
			large = rng.Intn(2) == 1
		}
		if count%9 == 8 {
			// an almost closed ring: end point one or two lattice steps from the start (distinct points), so
			// that the flags select either a sliver or nearly the whole ellipse; axis-aligned rotation, radii >= 16
			phi = ratAngles[5*rng.Intn(4)]
			rx64 = 1024 + 64*rng.Intn(17)
			ry64 = 1024 + 64*rng.Intn(17)
			hint = &arcHint{C: [2]int{cx64, cy64}, Cs: phi, Scaled: 0}
			crx, cry = rx64, ry64
			x1, y1 = pt(ratAngles[0])
			ey := []int{1, -1, 2, -2}[rng.Intn(4)]
			x2, y2 = x1-phi[1]*ey/phi[2], y1+phi[0]*ey/phi[2]
			ext = 0.01
			if ey < 0 {
				ext = 359.99
			}
			if !sweep {
				ext = 360 - ext
			}
			large = ext > 180
			stats["ellipses.rings"]++
		}
		rel := count%2 == 1
		t := newTracedRenderer(sh.Next(), fmt.Sprintf("ellipse/%d", count), cfg.rect)
		t.do(resetCall(cfg.vb, defaultPal()))
		t.do(mkCall("StartPath", g(x1), g(y1)))
		var c Call
		if rel {
			c = mkCall("RelArcTo", g(crx), g(cry), turns(phi), g(x2-x1), g(y2-y1))
		} else {
			c = mkCall("AbsArcTo", g(crx), g(cry), turns(phi), g(x2), g(y2))
		}
		if count%5 == 0 {
			c.F[0] = f32j(-g(crx)) // a negative radius means its absolute value
		}
		if count%3 == 1 {
			// the same rotation spelled with another number of whole turns (negative, or beyond one turn) - only where the
			// float32 sum is exact, so that the rotation passed is still the rotation of the hint: quarter turns take any
			// number of turns, other angles t >= 1/2 become t - 1 (exact by Sterbenz' lemma).  (Diametral chords make the
			// centre ill-conditioned in the rotation: a spelling that is 2e-7 turns off moves the arc by 0.02 units.)
			t := c.F[2].float()
			if t*4 == float32(int(t*4)) {
				c.F[2] = f32j(t + []float32{-1, 1, -2, 3}[count/3%4])
				stats["ellipses.rotation_other_turns"]++
			} else if t >= 0.5 {
				c.F[2] = f32j(t - 1)
				stats["ellipses.rotation_other_turns"]++
			}
		}
		c.Fl = []int{b2i(large), b2i(sweep)}
		t.doHint(c, hint)
		t.do(mkCall("RelLineTo", 1, 1))
		t.do(mkCall("ClosePathEndPath"))
		count++
		stats["ellipses.arcs"]++
		stats["ellipses.programs"]++
		stats["ellipses.calls"] += t.n
	}
	// zero radii: a straight line to the mapped end point, absolute and relative, each radius, -0
	negz := float32(math.Copysign(0, -1))
	for i, cfg := range latticeCfgs() {
		for k := 0; k < 6; k++ {
			t := newTracedRenderer(sh.Next(), fmt.Sprintf("zeroradius/%d/%d", i, k), cfg.rect)
			t.do(resetCall(cfg.vb, defaultPal()))
			t.do(mkCall("StartPath", 1, 2))
			rx, ry := []float32{0, 3, negz, 0, 5, 0}[k], []float32{4, 0, 2, negz, 0, 0}[k]
			var c Call
			if k%2 == 0 {
				c = mkCall("AbsArcTo", rx, ry, 0.125, 5, 7.5)
			} else {
				c = mkCall("RelArcTo", rx, ry, 0.75, -3.25, 4)
			}
			c.Fl = []int{k % 2, k / 3}
			t.do(c)
			t.do(mkCall("RelLineTo", 1, 1))
			t.do(mkCall("ClosePathEndPath"))
			stats["ellipses.programs"]++
			stats["ellipses.zeroradius"]++
			stats["ellipses.calls"] += t.n
		}
	}
}
