package main

import (
	"bufio"
	"bytes"
	"crypto/sha256"
	"encoding/hex"
	"encoding/json"
	"flag"
	"fmt"
	"image"
	"image/color"
	"image/draw"
	"os"
	"runtime"
	"sort"
	"strings"
	"sync"
	"time"

	"github.com/reactivego/ivg"
	"github.com/reactivego/ivg/decode"
	"github.com/reactivego/ivg/encode"
	"github.com/reactivego/ivg/generate"
	"github.com/reactivego/ivg/mdicons"
	"github.com/reactivego/ivg/raster/vec"
	"github.com/reactivego/ivg/render"
	"golang.org/x/image/math/f32"
)

// C18: independent pipelines over shared read-only inputs.
//   -mode one   -pipeline NAME          run one pipeline alone (fresh process) and print its output hash
//   -mode list                          print the pipeline names
//   -mode sched -in FILE -base FILE     impose TLC-generated interleavings on real goroutines (gates)
//   -mode free  -secs S -base FILE      free running (build with -race), GOMAXPROCS from the environment

type sharedInputs struct {
	graphics [][]byte
	pal      [64]color.RGBA
	pathData string
	// an option list with spare capacity, passed as opts[:1]... and opts[:2]... by different pipelines
	opts []decode.DecodeOption
	// a table of gradient stops (legal, not sorted by offset) of which pipelines use overlapping windows
	stops []generate.GradientStop
	// one option VALUE (a full palette of colours that are not valid premultiplied colours) applied by many decodes
	badPalOpt decode.DecodeOption
	// graphics packed back to back in one buffer (round 10): each is a sub-slice whose capacity runs to the end of the
	// buffer, some end in the middle of a path (accepted by the decoder); what lies beyond a slice's length is its neighbour
	atlas    []byte
	atlasGfx [][]byte
	// one transform list in a caller-owned slice handed to many Generators
	xform []generate.Aff3
}

func loadShared() (*sharedInputs, error) {
	gs, err := loadCorpus()
	if err != nil {
		return nil, err
	}
	s := &sharedInputs{pathData: "M24 4C12.95 4 4 12.95 4 24s8.95 20 20 20 20-8.95 20-20S35.05 4 24 4zm2 30h-4V22h4v12zm0-16h-4v-4h4v4z"}
	// the testdata graphics (gradients, arcs, LOD, favicon) and a few Material Design icons
	for i, g := range gs {
		if i < 10 || i%97 == 0 {
			s.graphics = append(s.graphics, g.Data)
		}
	}
	for i := range s.pal {
		s.pal[i] = color.RGBA{uint8(3 * i), uint8(255 - 2*i), uint8(i), 0xff}
	}
	// entries that are not valid premultiplied colours: gradient-shaped, and alpha below a channel
	s.pal[7] = color.RGBA{0x03, 0x4a, 0x8a, 0x00}
	s.pal[40] = color.RGBA{0x90, 0x10, 0x10, 0x80}
	for i, g := range s.graphics {
		if i >= 6 {
			break
		}
		d := g
		if i%2 == 1 && len(d) > 0 && d[len(d)-1] == 0xe1 {
			d = d[:len(d)-1] // ends inside its last path
		}
		s.atlas = append(s.atlas, d...)
	}
	s.atlas = append(s.atlas, 0x89, 0x49, 0x56, 0x47, 0x00) // an empty graphic at the very end
	off := 0
	for i, g := range s.graphics {
		if i >= 6 {
			break
		}
		n := len(g)
		if i%2 == 1 && n > 0 && g[n-1] == 0xe1 {
			n--
		}
		s.atlasGfx = append(s.atlasGfx, s.atlas[off:off+n]) // capacity: to the end of the atlas
		off += n
	}
	s.freshShareables()
	return s, nil
}

// freshShareables (re)creates the option values, the option list and the stop table that pipelines share.
func (s *sharedInputs) freshShareables() {
	s.opts = make([]decode.DecodeOption, 2, 4)
	s.opts[0] = decode.WithPalette(s.pal)
	s.opts[1] = decode.WithColorAt(5, color.NRGBA{200, 100, 50, 128})
	var badPal [64]color.RGBA
	for i := range badPal {
		badPal[i] = color.RGBA{uint8(200 + i%50), uint8(i), 0x90, uint8(i)} // R > A everywhere; some look like gradients
	}
	s.badPalOpt = decode.WithPalette(badPal)
	s.xform = []generate.Aff3{{2, 0, -32, 0, 2, -32}}
	s.stops = []generate.GradientStop{{Offset: 0.5, Color: color.RGBA{0xff, 0, 0, 0xff}}, {Offset: 0.25, Color: color.NRGBA{0, 0xff, 0, 0x80}},
		{Offset: 0.75, Color: color.RGBA{0, 0, 0xff, 0xff}}, {Offset: 0.125, Color: color.Gray{0x80}}}
}

func (s *sharedInputs) hash() string {
	h := sha256.New()
	for _, g := range s.graphics {
		h.Write(g)
	}
	fmt.Fprint(h, s.pal, s.pathData, s.stops, len(s.opts), cap(s.opts))
	h.Write(s.atlas)
	fmt.Fprint(h, s.xform, len(s.xform), cap(s.xform))
	// every slot of the option list's backing array (and the shared option value), fingerprinted by what the option does to a probe
	for _, o := range append(append([]decode.DecodeOption{}, s.opts[:cap(s.opts)]...), s.badPalOpt) {
		m := ivg.Metadata{ViewBox: ivg.ViewBox{MinX: 1, MinY: 2, MaxX: 3, MaxY: 4}}
		for i := range m.Palette {
			m.Palette[i] = color.RGBA{uint8(200 + i%50), uint8(i), 7, uint8(4 * i)} // mostly not premultiplied
		}
		if o != nil {
			o(&m)
		}
		fmt.Fprint(h, o == nil, m)
	}
	fmt.Fprint(h, ivg.VerifSharedHash(), decode.VerifSharedHash(), encode.VerifSharedHash(), mdicons.VerifSharedHash())
	return hex.EncodeToString(h.Sum(nil)[:12])
}

// gatedDest calls gate() before forwarding each Destination call.
type gatedDest struct {
	fwdDest
}

func newGated(d ivg.Destination, gate func()) ivg.Destination {
	g := &gatedDest{}
	g.dest = d
	g.onCall = func(c Call) { gate(); apply(d, &c) }
	g.onRead = func(string, uint8) { gate() }
	return g
}

type pipeline struct {
	name string
	run  func(s *sharedInputs, gate func()) []byte
}

func hashCalls(cs []Call) []byte   { b, _ := json.Marshal(cs); return b }
func hashRCalls(cs []RCall) []byte { b, _ := json.Marshal(cs); return b }

func allPipelines(s *sharedInputs) []pipeline {
	var ps []pipeline
	for gi := range s.graphics {
		gi := gi
		ps = append(ps,
			pipeline{fmt.Sprintf("decode-recorder/%d", gi), func(s *sharedInputs, gate func()) []byte {
				rec := &Recorder{}
				err := decode.Decode(newGated(rec, gate), s.graphics[gi])
				return append(hashCalls(rec.Calls), fmt.Sprint(err)...)
			}},
			pipeline{fmt.Sprintf("decode-renderer/%d", gi), func(s *sharedInputs, gate func()) []byte {
				z := &RecRaster{}
				var rd render.Renderer
				rd.SetRasterizer(z, image.Rect(0, 0, 48, 32))
				err := decode.Decode(newGated(&rd, gate), s.graphics[gi])
				return append(hashRCalls(z.Calls), fmt.Sprint(err)...)
			}},
			pipeline{fmt.Sprintf("decode-encoder/%d", gi), func(s *sharedInputs, gate func()) []byte {
				var e encode.Encoder
				err := decode.Decode(newGated(&e, gate), s.graphics[gi])
				b, err2 := e.Bytes()
				return append(append([]byte(nil), b...), fmt.Sprint(err, err2)...)
			}},
			pipeline{fmt.Sprintf("disassemble/%d", gi), func(s *sharedInputs, gate func()) []byte {
				gate()
				b, err := decode.Disassemble(s.graphics[gi])
				return append(b, fmt.Sprint(err)...)
			}},
			pipeline{fmt.Sprintf("disassemble-rejected/%d", gi), func(s *sharedInputs, gate func()) []byte {
				// a rejected input (cut inside its last instruction) after some lines were printed
				gate()
				g := s.graphics[gi]
				b, err := decode.Disassemble(g[: len(g)-1 : len(g)-1])
				gate()
				_, err2 := decode.DecodeViewBox(g[:5:5])
				return append(b, fmt.Sprint(err, err2)...)
			}},
			pipeline{fmt.Sprintf("decode-palette-pixels/%d", gi), func(s *sharedInputs, gate func()) []byte {
				img := image.NewRGBA(image.Rect(0, 0, 40, 40))
				z := vec.NewRasterizer(img)
				z.DrawOp = draw.Src
				var rd render.Renderer
				rd.SetRasterizer(z, image.Rect(4, 4, 36, 36))
				err := decode.Decode(newGated(&rd, gate), s.graphics[gi], decode.WithPalette(s.pal), decode.WithColorAt(gi%64, color.NRGBA{200, 100, 50, 128}))
				return append(append([]byte(nil), img.Pix...), fmt.Sprint(err)...)
			}},
			pipeline{fmt.Sprintf("encoder-reuse/%d", gi), func(s *sharedInputs, gate func()) []byte {
				// a zero-value Encoder is queried, then reused as a decode destination
				var e encode.Encoder
				e.CSel()
				b0, _ := e.Bytes()
				out := append([]byte(nil), b0...)
				gate()
				err := decode.Decode(newGated(&e, gate), s.graphics[gi])
				b, err2 := e.Bytes()
				out = append(out, b...)
				var z encode.Encoder // and another zero-value Encoder afterwards
				z.SetCSel(3)
				b3, _ := z.Bytes()
				return append(append(out, b3...), fmt.Sprint(err, err2)...)
			}},
		)
	}
	for gi := 0; gi < 2; gi++ {
		gi := gi
		for k := 1; k <= 2; k++ {
			k := k
			ps = append(ps, pipeline{fmt.Sprintf("decode-shared-opts/%d/%d", k, gi), func(s *sharedInputs, gate func()) []byte {
				rec := &Recorder{}
				gate()
				err := decode.Decode(newGated(rec, gate), s.graphics[gi], s.opts[:k]...)
				return append(hashCalls(rec.Calls[:1]), fmt.Sprint(len(rec.Calls), err)...)
			}})
		}
	}
	for gi := 0; gi < 3; gi++ {
		gi := gi
		ps = append(ps, pipeline{fmt.Sprintf("decode-shared-option-value/%d", gi), func(s *sharedInputs, gate func()) []byte {
			rec := &Recorder{}
			gate()
			err := decode.Decode(newGated(rec, gate), s.graphics[gi], s.badPalOpt)
			return append(hashCalls(rec.Calls[:1]), fmt.Sprint(len(rec.Calls), err)...)
		}})
	}
	for k := 2; k <= 4; k++ {
		k := k
		ps = append(ps, pipeline{fmt.Sprintf("generator-shared-stops/%d", k), func(s *sharedInputs, gate func()) []byte {
			var e encode.Encoder
			g := &generate.Generator{}
			g.SetDestination(newGated(&e, gate))
			gate()
			err1 := g.SetLinearGradient(-8, -8, 8, 8, generate.GradientSpreadPad, s.stops[:k])
			err2 := g.SetPathData("M0 0L10 10 20 0z", 0)
			err3 := g.SetCircularGradient(0, 0, 3, 4, generate.GradientSpreadNone, s.stops[1:k])
			err4 := g.SetPathData("M0 0L10 10 20 0z", 0)
			b, err5 := e.Bytes()
			return append(append([]byte(nil), b...), fmt.Sprint(err1, err2, err3, err4, err5)...)
		}})
	}
	// the error paths: every pipeline fails in its own way (an unrecognised verb of its own, too many stops, a selector
	// inside the stop range, a call that breaks the Encoder's protocol, an input the decoder rejects) and reports its own
	// failure, whatever the others are doing
	for vi, verb := range []string{"x", "&", "Y", "\x7f", "e"} {
		vi, verb := vi, verb
		ps = append(ps, pipeline{fmt.Sprintf("error-paths/%d", vi), func(s *sharedInputs, gate func()) []byte {
			var out []byte
			for rep := 0; rep < 4; rep++ {
				var e encode.Encoder
				g := &generate.Generator{}
				g.SetDestination(newGated(&e, gate))
				gate()
				err1 := g.SetPathData(verb+"1 2", 0)
				err2 := g.SetPathData("M0 0"+verb+"1 2z", 0)
				many := make([]generate.GradientStop, 59+vi)
				for k := range many {
					many[k] = generate.GradientStop{Offset: float32(k) / 64, Color: color.RGBA{uint8(k), 0, 0, 0xff}}
				}
				err3 := g.SetLinearGradient(0, 0, 1, 1, generate.GradientSpreadPad, many)
				e.SetCSel(uint8(10 + vi%3))
				err4 := g.SetLinearGradient(0, 0, 1, 1, generate.GradientSpreadPad, many[:4])
				_, err5 := e.Bytes()
				var e2 encode.Encoder
				[]func(){func() { e2.AbsLineTo(1, 2) }, func() { e2.ClosePathEndPath() }, func() { e2.StartPath(0, 0, 0); e2.SetCSel(1) },
					func() { e2.SetCReg(3, true, ivg.RGBAColor(color.RGBA{})) }, func() { e2.StartPath(0, 0, 0); e2.StartPath(0, 1, 1) }}[vi]()
				_, err6 := e2.Bytes()
				bad := append([]byte(nil), s.graphics[rep%len(s.graphics)]...)
				bad = append(bad[:len(bad)/2+vi], []byte{0xff, 0xe0 + byte(vi), 0x07}...)
				err7 := decode.Decode(newGated(&Recorder{}, gate), bad)
				_, err8 := decode.Disassemble(bad)
				out = append(out, fmt.Sprint(err1, "|", err2, "|", err3, "|", err4, "|", err5, "|", err6, "|", err7, "|", err8, "\n")...)
			}
			return out
		}})
	}
	for ai := 0; ai < 6; ai++ {
		ai := ai
		ps = append(ps, pipeline{fmt.Sprintf("decode-atlas/%d", ai), func(s *sharedInputs, gate func()) []byte {
			if ai >= len(s.atlasGfx) {
				return nil
			}
			src := s.atlasGfx[ai]
			rec := &Recorder{Limit: 4000}
			err := decode.Decode(newGated(rec, gate), src)
			var e encode.Encoder
			err2 := decode.Decode(&e, src)
			b, err3 := e.Bytes()
			dis, err4 := decode.Disassemble(src)
			vb, err5 := decode.DecodeViewBox(src)
			out, _ := json.Marshal(rec.Calls)
			return append(append(append(out, b...), dis...), fmt.Sprint(err, err2, err3, err4, vb, err5)...)
		}})
	}
	for k := 0; k < 3; k++ {
		k := k
		ps = append(ps, pipeline{fmt.Sprintf("generator-shared-transform/%d", k), func(s *sharedInputs, gate func()) []byte {
			// the caller's one-element transform list, then the transform changed on the same Generator (cleared, or composed
			// of two): the list is the caller's and is read by every other pipeline of this kind
			var e encode.Encoder
			g := &generate.Generator{}
			g.SetDestination(newGated(&e, gate))
			g.SetTransform(s.xform...)
			err1 := g.SetPathData("M4 4h8V12L1 2z", 0)
			switch k {
			case 0:
				g.SetTransform()
			case 1:
				g.SetTransform(generate.Scale(3), generate.Translate(1, -1))
			default:
				g.SetTransform(s.xform[0], generate.Translate(5, 5))
			}
			err2 := g.SetPathData("M4 4h8V12L1 2z", 0)
			g.SetTransform(s.xform...)
			err3 := g.SetPathData("M1 1l2 2L3 0z", 0)
			b, err4 := e.Bytes()
			return append(append([]byte(nil), b...), fmt.Sprint(err1, err2, err3, err4)...)
		}})
	}
	ps = append(ps,
		pipeline{"generator-encoder", func(s *sharedInputs, gate func()) []byte {
			var e encode.Encoder
			g := &generate.Generator{}
			g.SetDestination(newGated(&e, gate))
			g.SetTransform(generate.Scale(2), generate.Translate(-48, -48))
			stops := []generate.GradientStop{{Offset: 0, Color: color.RGBA{0xff, 0, 0, 0xff}}, {Offset: 1, Color: color.NRGBA{0, 0, 0xff, 0x80}}}
			err1 := g.SetLinearGradient(-8, -8, 8, 8, generate.GradientSpreadPad, stops)
			err2 := g.SetPathData(s.pathData, 0)
			err3 := g.SetCircularGradient(0, 0, 3, 4, generate.GradientSpreadReflect, stops)
			err4 := g.SetPathData("M0 0L10 10 20 0z", 0)
			b, err5 := e.Bytes()
			return append(append([]byte(nil), b...), fmt.Sprint(err1, err2, err3, err4, err5)...)
		}},
		pipeline{"mdicons-parsepath", func(s *sharedInputs, gate func()) []byte {
			var e encode.Encoder
			e.Reset(ivg.ViewBox{MinX: -24, MinY: -24, MaxX: 24, MaxY: 24}, ivg.DefaultPalette)
			op := float32(0.5)
			err := mdicons.ParsePath(newGated(&e, gate), &mdicons.Path{D: s.pathData, FillOpacity: &op}, map[float32]uint8{}, 48, f32.Vec2{0, 0}, 48,
				[]mdicons.Circle{{Cx: 24, Cy: 24, R: 4}})
			b, err2 := e.Bytes()
			return append(append([]byte(nil), b...), fmt.Sprint(err, err2)...)
		}},
		pipeline{"helpers", func(s *sharedInputs, gate func()) []byte {
			var out []byte
			creg := s.pal
			for i := 0; i < 256; i++ {
				if i%32 == 0 {
					gate()
				}
				// the helpers read the SHARED palette through the pointer they are given (they have no business writing to it)
				p0 := ivg.PaletteIndexColor(uint8(i)).Resolve(&s.pal, &creg)
				p1 := ivg.BlendColor(uint8(i), 0x80|uint8(i%64), 0x80|7).Resolve(&s.pal, &creg)
				out = append(out, p0.R, p0.G, p0.B, p0.A, p1.R, p1.G, p1.B, p1.A)
				pal := s.pal
				c := ivg.BlendColor(uint8(i), uint8(i), uint8(255-i)).Resolve(&pal, &creg)
				out = append(out, c.R, c.G, c.B, c.A)
				d := ivg.DecodeColor1(byte(i)).Resolve(&pal, &creg)
				out = append(out, d.R, d.G, d.B, d.A)
				x, _ := ivg.DecodeColor1(byte(i)).Encode1()
				out = append(out, x)
			}
			for _, g := range s.graphics {
				gate()
				vb, err := decode.DecodeViewBox(g)
				a, b, c, d := vb.AspectMeet(100, 60, ivg.Mid, ivg.Max)
				e, f, gg, h := ivg.DefaultViewBox.AspectSlice(30, 70, ivg.Min, ivg.Mid)
				out = append(out, fmt.Sprint(vb, err, a, b, c, d, e, f, gg, h, ivg.DefaultMetadata.ViewBox, ivg.DefaultPalette[7])...)
			}
			return out
		}},
		pipeline{"gradient-pixels", func(s *sharedInputs, gate func()) []byte {
			img := image.NewRGBA(image.Rect(0, 0, 32, 32))
			z := vec.NewRasterizer(img)
			var rd render.Renderer
			rd.SetRasterizer(z, img.Bounds())
			err := decode.Decode(newGated(&rd, gate), s.graphics[6]) // testdata/gradient.ivg: many gradient-filled paths
			return append(append([]byte(nil), img.Pix...), fmt.Sprint(err)...)
		}},
	)
	return ps
}

func digest(b []byte) string { h := sha256.Sum256(b); return hex.EncodeToString(h[:12]) }

func init() { register("c18", runC18) }

func runC18(args []string) error {
	fl := flag.NewFlagSet("c18", flag.ExitOnError)
	mode := fl.String("mode", "list", "list | one | sched | free")
	name := fl.String("pipeline", "", "pipeline name (mode one)")
	in := fl.String("in", "", "TLC output with schedules (mode sched)")
	base := fl.String("base", "", "baseline file: name<space>digest per line")
	outF := fl.String("out", "", "mismatch file")
	secs := fl.Float64("secs", 5, "seconds of free running")
	stride := fl.Int("stride", 1, "use every stride-th schedule")
	fl.Parse(args)
	s, err := loadShared()
	if err != nil {
		return err
	}
	ps := allPipelines(s)
	byName := map[string]*pipeline{}
	for i := range ps {
		byName[ps[i].name] = &ps[i]
	}
	nogate := func() {}
	switch *mode {
	case "list":
		for _, p := range ps {
			fmt.Println(p.name)
		}
		return nil
	case "one":
		p, ok := byName[*name]
		if !ok {
			return fmt.Errorf("unknown pipeline %q", *name)
		}
		h0 := s.hash()
		out := p.run(s, nogate)
		// history independence within the process: a second run gives the same output
		out2 := p.run(s, nogate)
		fmt.Printf("@@BASE %s %s %s %v %v\n", p.name, digest(out), h0, s.hash() == h0, bytes.Equal(out, out2))
		return nil
	}
	baseline := map[string]string{}
	bf, err := os.ReadFile(*base)
	if err != nil {
		return err
	}
	for _, l := range strings.Split(string(bf), "\n") {
		f := strings.Fields(l)
		if len(f) == 2 {
			baseline[f[0]] = f[1]
		}
	}
	w, err := newWriter(*outF)
	if err != nil {
		return err
	}
	var mu sync.Mutex
	nmis := 0
	report := func(kind, key string, detail interface{}) {
		mu.Lock()
		defer mu.Unlock()
		nmis++
		if nmis <= 200 {
			w.Emit(map[string]interface{}{"kind": kind, "key": key, "detail": detail})
		}
	}
	h0 := s.hash()
	runs := 0
	switch *mode {
	case "sched":
		f, err := os.Open(*in)
		if err != nil {
			return err
		}
		defer f.Close()
		sc := bufio.NewScanner(f)
		sc.Buffer(make([]byte, 1<<20), 1<<24)
		k := 0
		nsched := 0
		for sc.Scan() {
			line := strings.TrimSpace(sc.Text())
			if !strings.HasPrefix(line, `"{`) || !strings.Contains(line, `\"diag\":\"sched\"`) {
				continue
			}
			k++
			if k%*stride != 0 {
				continue
			}
			var inner string
			json.Unmarshal([]byte(line), &inner)
			var sj struct{ S []int }
			if err := json.Unmarshal([]byte(inner), &sj); err != nil {
				return err
			}
			nsched++
			// three instances: pipelines rotate with the schedule number
			inst := []*pipeline{&ps[(nsched*7)%len(ps)], &ps[(nsched*13+1)%len(ps)], &ps[(nsched*5+2)%len(ps)]}
			outs := runSchedule(s, inst, sj.S)
			for i, p := range inst {
				runs++
				if d := digest(outs[i]); d != baseline[p.name] {
					report("result", fmt.Sprintf("%s under schedule", p.name), map[string]interface{}{"schedule": sj.S, "pipelines": []string{inst[0].name, inst[1].name, inst[2].name}, "got": d, "alone": baseline[p.name]})
				}
			}
			if h := s.hash(); h != h0 {
				report("shared", "shared inputs or package-level variables were written", map[string]interface{}{"schedule": sj.S, "pipelines": []string{inst[0].name, inst[1].name, inst[2].name}})
				h0 = h
			}
		}
		if err := sc.Err(); err != nil {
			return err
		}
		w.Close()
		summary(map[string]interface{}{"schedules": nsched, "runs": runs, "mismatches": nmis, "pipelines": len(ps)})
	case "free":
		// bursts first: FRESH shared option values / option lists / stop tables each round, used by eight goroutines that
		// start together (a library that touches such an object only the first time it sees it is caught in the act)
		{
			sharing := []string{"decode-shared-option-value/0", "decode-shared-option-value/1", "decode-shared-option-value/2",
				"decode-shared-opts/1/0", "decode-shared-opts/2/1", "generator-shared-stops/3", "generator-shared-stops/4", "decode-shared-option-value/0"}
			burstEnd := time.Now().Add(time.Duration(*secs * float64(time.Second) / 4))
			for round := 0; time.Now().Before(burstEnd) || round < 20; round++ {
				s2 := *s
				s2.freshShareables()
				// the reference hash comes from another fresh set: hashing applies every option to a probe, and the set
				// handed to the goroutines must not have been used by anything before them
				s3 := *s
				s3.freshShareables()
				h2 := s3.hash()
				start := make(chan struct{})
				var bw sync.WaitGroup
				for g := 0; g < len(sharing); g++ {
					bw.Add(1)
					go func(g int) {
						defer bw.Done()
						p := byName[sharing[(g+round)%len(sharing)]]
						<-start
						out := p.run(&s2, runtime.Gosched)
						mu.Lock()
						runs++
						mu.Unlock()
						if d := digest(out); d != baseline[p.name] {
							report("result", p.name+" in a burst over fresh shared objects", map[string]string{"got": d, "alone": baseline[p.name]})
						}
					}(g)
				}
				close(start)
				bw.Wait()
				if s2.hash() != h2 {
					report("shared", "a burst wrote to the fresh shared objects", nil)
					break
				}
			}
		}
		deadline := time.Now().Add(time.Duration(*secs * float64(time.Second)))
		var wg sync.WaitGroup
		nw := 2 * runtime.GOMAXPROCS(0)
		if nw < 8 {
			nw = 8
		}
		for g := 0; g < nw; g++ {
			wg.Add(1)
			go func(g int) {
				defer wg.Done()
				r := newRand(int64(1800 + g))
				for time.Now().Before(deadline) {
					p := &ps[r.Intn(len(ps))]
					if g%4 == 0 { // some workers hammer the gradient / encoder-reuse pipelines
						p = byName[[]string{"gradient-pixels", "generator-encoder", "encoder-reuse/6", "decode-renderer/6"}[r.Intn(4)]]
					}
					if g%4 == 1 { // ... and some the pipelines that share option values, option lists and stop tables
						p = byName[[]string{"decode-shared-option-value/0", "decode-shared-option-value/1", "decode-shared-option-value/2",
							"decode-shared-opts/1/0", "decode-shared-opts/2/1", "generator-shared-stops/3", "generator-shared-stops/4"}[r.Intn(7)]]
					}
					out := p.run(s, runtime.Gosched)
					mu.Lock()
					runs++
					mu.Unlock()
					if d := digest(out); d != baseline[p.name] {
						report("result", p.name+" while running concurrently", map[string]string{"got": d, "alone": baseline[p.name]})
					}
				}
			}(g)
		}
		wg.Wait()
		if s.hash() != h0 {
			report("shared", "shared inputs or package-level variables were written", nil)
		}
		w.Close()
		summary(map[string]interface{}{"runs": runs, "mismatches": nmis, "workers": nw, "gomaxprocs": runtime.GOMAXPROCS(0)})
	}
	return nil
}

// runSchedule imposes the interleaving sched (instance numbers 1..3) at Destination-call granularity.
func runSchedule(s *sharedInputs, inst []*pipeline, sched []int) [][]byte {
	n := len(inst)
	type ctl struct {
		arrived chan struct{} // instance is parked at a gate (or finished)
		goOn    chan struct{}
		done    bool
	}
	cs := make([]*ctl, n)
	outs := make([][]byte, n)
	for i := range cs {
		cs[i] = &ctl{arrived: make(chan struct{}), goOn: make(chan struct{})}
	}
	fin := make([]chan struct{}, n)
	for i := 0; i < n; i++ {
		i := i
		fin[i] = make(chan struct{})
		go func() {
			gate := func() {
				cs[i].arrived <- struct{}{}
				<-cs[i].goOn
			}
			gate() // park before the first action
			outs[i] = inst[i].run(s, gate)
			close(fin[i])
		}()
	}
	// wait until instance i is parked or finished; returns false when finished
	parked := func(i int) bool {
		if cs[i].done {
			return false
		}
		select {
		case <-cs[i].arrived:
			return true
		case <-fin[i]:
			cs[i].done = true
			return false
		}
	}
	state := make([]bool, n) // parked?
	for i := 0; i < n; i++ {
		state[i] = parked(i)
	}
	step := func(i int) {
		if !state[i] {
			return
		}
		cs[i].goOn <- struct{}{}
		state[i] = parked(i)
	}
	for t, id := range sched {
		q := 1 + t%4
		for k := 0; k < q; k++ {
			step(id - 1)
		}
	}
	// drain: round robin, a few calls at a time
	for {
		any := false
		for i := 0; i < n; i++ {
			for k := 0; k < 5 && state[i]; k++ {
				step(i)
				any = true
			}
		}
		if !any {
			break
		}
	}
	return outs
}

var _ = sort.Strings
