package main

import (
	"math"
	"math/rand"
	"strings"
)

// Random Destination call sequences. The generator knows the *shape* of the API
// (which calls take which arguments, the styling/drawing alternation) so that it
// can produce mostly well-formed programs; it carries no expectation about what
// the library does with them.

type progOpts struct {
	illegal   float64 // probability of injecting a protocol-violating call at each step
	maxPaths  int
	maxRun    int  // longest run of one drawing verb
	specials  bool // NaN / Inf / huge / denormal numbers
	lattice   bool // coordinates are multiples of 1/64 with |x| <= 100 (exact through quantisation and the renderer)
	arcs      bool
	gradients bool
	hires     bool // toggle SetHiRes between paths
	selreads  bool // CSel/NSel read-backs
	meta      bool // custom viewBox / palette in the initial Reset
	noReset   bool // leave the Encoder at its zero value (no initial Reset)
	openEnd   bool // may end inside a path
}

func fbits(u uint32) float32 { return math.Float32frombits(u) }

func randCoord(r *rand.Rand, o *progOpts) float32 {
	if o.lattice {
		return float32(r.Intn(64*60)-64*30) / 64
	}
	switch r.Intn(12) {
	case 0:
		return float32(r.Intn(128) - 64)
	case 1, 2:
		return float32(r.Intn(16384)-8192) / 64
	case 3:
		return float32(r.Intn(400)-200) / 10
	case 4:
		return float32(r.NormFloat64() * 50)
	case 5:
		f := float32(r.Intn(16384)-8192) / 64
		return fbits(math.Float32bits(f) + uint32(r.Intn(3)) - 1) // one ulp off a short form
	case 6:
		if o.specials {
			return []float32{float32(math.NaN()), float32(math.Inf(1)), float32(math.Inf(-1)), 1e38, -1e38, 1e-40, float32(math.Copysign(0, -1)), 3.4028235e38,
				127.99, 127.9921875, 127.995, -128, -128.004, 128, 1 << 24, 1000.25,
				// the largest numbers below a power of two (mantissa all ones: rounding to 30 bits must not carry out of it)
				fbits(0x43ffffff), fbits(0x43fffffe), fbits(0xc3ffffff), fbits(0x3fffffff), fbits(0x4b7fffff), fbits(0x7f7ffffe)}[r.Intn(22)]
		}
		return float32(r.Intn(128) - 64)
	case 7:
		return float32(r.Intn(2000)-1000) + float32(r.Intn(4))/4
	case 8:
		return []float32{0, 1, -1, 63, -64, 64, 0.5, 1.0 / 64, 127.984375, -127.984375}[r.Intn(10)]
	default:
		return float32(r.Intn(64*40)-64*20) / 64
	}
}

func randReal(r *rand.Rand, o *progOpts) float32 {
	switch r.Intn(8) {
	case 0:
		return float32(r.Intn(128))
	case 1:
		return float32(r.Intn(16384))
	case 2:
		return float32(r.Intn(120)) / 120
	case 3:
		return float32(r.Intn(15120)) / 15120
	case 4:
		if o.specials {
			return []float32{float32(math.NaN()), float32(math.Inf(1)), float32(math.Inf(-1)), 1e38, 1e-40, float32(math.Copysign(0, -1))}[r.Intn(6)]
		}
		return 0.5
	case 5:
		return fbits(r.Uint32())
	default:
		return randCoord(r, o)
	}
}

func randAngle(r *rand.Rand, o *progOpts) float32 {
	switch r.Intn(6) {
	case 0:
		return float32(r.Intn(360)) / 360
	case 1:
		return float32(r.Intn(64)-32) / 16
	case 2:
		return float32(r.Intn(120)) / 120
	case 3:
		return -float32(r.Intn(360)) / 360
	case 4:
		if o.specials {
			return []float32{float32(math.NaN()), float32(math.Inf(1)), 1e10, -1e-30, 1, -1, 2.5}[r.Intn(7)]
		}
		return 0.25
	default:
		return float32(r.Float64()*4 - 2)
	}
}

func randColor(r *rand.Rand, o *progOpts) []int {
	switch r.Intn(9) {
	case 0:
		t := []int{0, 0x40, 0x80, 0xc0, 0xff}
		return []int{0, t[r.Intn(5)], t[r.Intn(5)], t[r.Intn(5)], 0xff}
	case 1:
		return [][]int{{0, 0x80, 0x80, 0x80, 0x80}, {0, 0, 0, 0, 0}, {0, 0xc0, 0xc0, 0xc0, 0xc0}, {0, 0x40, 0x40, 0x40, 0x40}}[r.Intn(4)]
	case 2:
		return []int{0, r.Intn(16) * 0x11, r.Intn(16) * 0x11, r.Intn(16) * 0x11, r.Intn(16) * 0x11}
	case 3:
		return []int{0, r.Intn(256), r.Intn(256), r.Intn(256), 0xff}
	case 4:
		a := r.Intn(256)
		return []int{0, r.Intn(a + 1), r.Intn(a + 1), r.Intn(a + 1), a}
	case 5:
		if r.Intn(4) == 0 {
			return []int{1, r.Intn(256), 0, 0, 0} // the constructors take any uint8: the index is its low six bits
		}
		return []int{1, r.Intn(64), 0, 0, 0}
	case 6:
		if r.Intn(4) == 0 {
			return []int{2, r.Intn(256), 0, 0, 0}
		}
		return []int{2, r.Intn(64), 0, 0, 0}
	case 7:
		if r.Intn(3) == 0 {
			// a blend whose three bytes look like a direct colour in a shorter form (multiples of 0x11; 1-byte table values)
			return [][]int{{3, r.Intn(16) * 0x11, r.Intn(16) * 0x11, r.Intn(16) * 0x11, 0}, {3, 0x40 * r.Intn(4), 0x40 * r.Intn(4), 0x40 * r.Intn(4), 0},
				{3, 0xff, 0xff, 0xff, 0}, {3, 0, 0, 0, 0}}[r.Intn(4)]
		}
		return []int{3, r.Intn(256), r.Intn(256), r.Intn(256), 0}
	default:
		if o.gradients {
			return []int{0, r.Intn(64), r.Intn(256), 0x80 | r.Intn(128), 0}
		}
		return []int{0, r.Intn(256), r.Intn(256), r.Intn(256), r.Intn(256)}
	}
}

var drawVerbs = []struct {
	op string
	n  int
}{{"AbsLineTo", 2}, {"RelLineTo", 2}, {"AbsSmoothQuadTo", 2}, {"RelSmoothQuadTo", 2}, {"AbsQuadTo", 4}, {"RelQuadTo", 4},
	{"AbsSmoothCubeTo", 4}, {"RelSmoothCubeTo", 4}, {"AbsCubeTo", 6}, {"RelCubeTo", 6}, {"AbsHLineTo", 1}, {"RelHLineTo", 1},
	{"AbsVLineTo", 1}, {"RelVLineTo", 1}, {"ClosePathAbsMoveTo", 2}, {"ClosePathRelMoveTo", 2}, {"AbsArcTo", 5}, {"RelArcTo", 5}}

func mkCall(op string, fsv ...float32) Call { return mk(op, fsv...) }

func randDraw(r *rand.Rand, o *progOpts, vi int) Call {
	v := drawVerbs[vi]
	fsv := make([]float32, v.n)
	for i := range fsv {
		fsv[i] = randCoord(r, o)
	}
	if strings.HasPrefix(v.op, "Rel") && v.op != "RelArcTo" && r.Intn(12) == 0 {
		// a relative segment of zero length (all operands zero): still an operation of the path
		for i := range fsv {
			fsv[i] = 0
		}
	}
	c := mkCall(v.op, fsv...)
	if v.op == "AbsArcTo" || v.op == "RelArcTo" {
		c.F[2] = f32j(randAngle(r, o))
		if o.lattice {
			c.F[2] = f32j(float32(r.Intn(8)) / 8)
		}
		c.Fl = []int{r.Intn(2), r.Intn(2)}
	}
	return c
}

func randStyling(r *rand.Rand, o *progOpts) Call {
	switch r.Intn(7) {
	case 0:
		c := mkCall("SetCSel")
		c.Sel = r.Intn(64)
		if r.Intn(8) == 0 {
			c.Sel = r.Intn(256)
		}
		return c
	case 1:
		c := mkCall("SetNSel")
		c.Sel = r.Intn(64)
		if r.Intn(8) == 0 {
			c.Sel = r.Intn(256)
		}
		return c
	case 2, 3:
		c := mkCall("SetCReg")
		c.C = randColor(r, o)
		if r.Intn(3) == 0 {
			c.Incr = 1
		} else {
			c.Adj = r.Intn(7)
		}
		return c
	case 4, 5:
		c := mkCall("SetNReg", randReal(r, o))
		if r.Intn(3) == 0 {
			c.Incr = 1
		} else {
			c.Adj = r.Intn(7)
		}
		return c
	default:
		return mkCall("SetLOD", randReal(r, o), randReal(r, o))
	}
}

func illegalCall(r *rand.Rand, o *progOpts, inPath bool) Call {
	switch r.Intn(4) {
	case 0: // bad adj
		c := mkCall("SetCReg")
		c.C = randColor(r, o)
		c.Adj = 7 + r.Intn(3)
		return c
	case 1: // bad incr
		c := mkCall("SetNReg", 0.5)
		c.Adj, c.Incr = 1+r.Intn(6), 1
		return c
	case 2:
		if inPath {
			return randStyling(r, o)
		}
		return randDraw(r, o, r.Intn(len(drawVerbs)))
	default:
		if inPath {
			c := mkCall("StartPath", 1, 2)
			return c
		}
		return mkCall("ClosePathEndPath")
	}
}

// genProgram returns a call sequence (pseudo-calls CSel/NSel/LOD/Bytes/SetHiRes included).
func genProgram(r *rand.Rand, o *progOpts) []Call {
	var p []Call
	if !o.noReset {
		c := mkCall("Reset", -32, -32, 32, 32)
		c.Pal = palJ(defaultPal())
		if o.meta {
			switch r.Intn(4) {
			case 0:
				c = mkCall("Reset", -24, -24, 24, 24)
			case 1:
				c = mkCall("Reset", 0, 0, 48, 48)
			case 2:
				c = mkCall("Reset", -8, 0.5, 24, 16.25)
			case 3:
				c = mkCall("Reset", -1000.3, -7, 2000.25, 1e6)
			}
			if r.Intn(6) == 0 {
				// a viewBox that differs from the default in a single coordinate
				v := [4]float32{-32, -32, 32, 32}
				k := r.Intn(4)
				v[k] += []float32{-16, 16, 0.5, 16}[k]
				c = mkCall("Reset", v[0], v[1], v[2], v[3])
			}
			if r.Intn(5) == 0 {
				// a viewBox less than one unit across (coordinates are quantised to 1/64 of a unit all the same)
				c = [](Call){mkCall("Reset", 0, 0, 0.5, 0.75), mkCall("Reset", -0.25, -0.25, 0.25, 0.25), mkCall("Reset", 3, 3, 3.015625, 4)}[r.Intn(3)]
			}
			if r.Intn(5) == 0 {
				// viewBox numbers off the 1/64 grid, inside and at the edge of the range of the short coordinate forms: the
				// viewBox is metadata, not a path coordinate - it is not quantised at either resolution
				c = [](Call){mkCall("Reset", -0.3, -0.7, 0.3, 0.7), mkCall("Reset", -33.3, -10.01, 33.3, 10.01), mkCall("Reset", 1.0/3, 2.0/3, 127.99, 127.995),
					mkCall("Reset", -128.004, -127.999, 5, 7), mkCall("Reset", -0.6953125, -0.6953125, 0.6953125, 0.6953125)}[r.Intn(5)]
			}
			pal := defaultPal()
			for i := 0; i < r.Intn(5); i++ {
				col := randColor(r, &progOpts{})
				for col[0] != 0 || col[1] > col[4] || col[2] > col[4] || col[3] > col[4] {
					col = randColor(r, &progOpts{})
				}
				pal[r.Intn(64)] = rgbaOf(col)
			}
			c.Pal = palJ(pal)
		}
		p = append(p, c)
	}
	nPaths := 1 + r.Intn(o.maxPaths)
	for pi := 0; pi < nPaths; pi++ {
		for k := r.Intn(5); k > 0; k-- {
			if o.illegal > 0 && r.Float64() < o.illegal {
				p = append(p, illegalCall(r, o, false))
			}
			p = append(p, randStyling(r, o))
			if o.selreads && r.Intn(4) == 0 {
				p = append(p, mkCall([]string{"CSel", "NSel", "LOD", "Bytes"}[r.Intn(4)]))
			}
		}
		if o.hires && r.Intn(3) == 0 {
			c := mkCall("SetHiRes")
			c.Sel = r.Intn(2)
			p = append(p, c)
		}
		sp := mkCall("StartPath", randCoord(r, o), randCoord(r, o))
		sp.Adj = r.Intn(7)
		p = append(p, sp)
		nv := 1 + r.Intn(6)
		for v := 0; v < nv; v++ {
			vi := r.Intn(len(drawVerbs))
			if !o.arcs && vi >= 16 {
				vi = r.Intn(16)
			}
			run := 1 + r.Intn(3)
			if r.Intn(6) == 0 {
				run = 1 + r.Intn(o.maxRun)
			}
			for k := 0; k < run; k++ {
				if o.illegal > 0 && r.Float64() < o.illegal/4 {
					p = append(p, illegalCall(r, o, true))
				}
				p = append(p, randDraw(r, o, vi))
			}
			if o.hires && r.Intn(5) == 0 {
				// the exported resolution field changed while a path is open: it takes effect at the next StartPath only
				c := mkCall("SetHiRes")
				c.Sel = r.Intn(2)
				p = append(p, c)
			}
			if o.selreads && r.Intn(6) == 0 {
				p = append(p, mkCall([]string{"CSel", "NSel", "Bytes"}[r.Intn(3)]))
			}
		}
		if o.openEnd && pi == nPaths-1 && r.Intn(2) == 0 {
			break
		}
		p = append(p, mkCall("ClosePathEndPath"))
	}
	return p
}
