package main

import (
	"bufio"
	"encoding/json"
	"fmt"
	"go/ast"
	"go/parser"
	"go/token"
	"math"
	"math/rand"
	"os"
	"path/filepath"
	"sort"
	"strconv"
)

// ---- environment ----------------------------------------------------------

func envInt(name string, def int64) int64 {
	if s := os.Getenv(name); s != "" {
		if v, err := strconv.ParseInt(s, 10, 64); err == nil {
			return v
		}
	}
	return def
}

func seed() int64    { return envInt("VERIF_SEED", 1) }
func thorough() bool { return os.Getenv("VERIF_TIER") == "thorough" }
func repoRoot() string { // only used to *read* corpus files
	if s := os.Getenv("VERIF_REPO"); s != "" {
		return s
	}
	return "/repo"
}
func newRand(salt int64) *rand.Rand { return rand.New(rand.NewSource(seed()*1000003 + salt)) }

// ---- number representation --------------------------------------------------

// F is a float32 as the two 16-bit halves of its IEEE bit pattern.
type F [2]int

func f32j(f float32) F {
	u := math.Float32bits(f)
	return F{int(u >> 16), int(u & 0xffff)}
}
func fromBits(u uint32) float32 { return math.Float32frombits(u) }
func (f F) float() float32      { return math.Float32frombits(uint32(f[0])<<16 | uint32(f[1])) }

func bytesJ(b []byte) []int {
	r := make([]int, len(b))
	for i, x := range b {
		r[i] = int(x)
	}
	return r
}

func b2i(b bool) int {
	if b {
		return 1
	}
	return 0
}

// ---- ndjson writer ------------------------------------------------------------

type Writer struct {
	f *os.File
	w *bufio.Writer
	n int
}

func newWriter(path string) (*Writer, error) {
	f, err := os.Create(path)
	if err != nil {
		return nil, err
	}
	return &Writer{f: f, w: bufio.NewWriterSize(f, 1<<20)}, nil
}

func (w *Writer) Emit(v interface{}) {
	b, err := json.Marshal(v)
	if err != nil {
		panic(err)
	}
	w.w.Write(b)
	w.w.WriteByte('\n')
	w.n++
}

func (w *Writer) Close() error {
	if err := w.w.Flush(); err != nil {
		return err
	}
	return w.f.Close()
}

// Sharded writers: events are distributed over k files (round robin by trace)
type Shards struct {
	ws  []*Writer
	cur int
}

func newShards(dir, prefix string, k int) (*Shards, error) {
	s := &Shards{}
	for i := 0; i < k; i++ {
		w, err := newWriter(filepath.Join(dir, fmt.Sprintf("%s.%02d.ndjson", prefix, i)))
		if err != nil {
			return nil, err
		}
		s.ws = append(s.ws, w)
	}
	return s, nil
}
func (s *Shards) Next() *Writer { s.cur = (s.cur + 1) % len(s.ws); return s.ws[s.cur] }
func (s *Shards) Cur() *Writer  { return s.ws[s.cur] }
func (s *Shards) Close() (n int, err error) {
	for _, w := range s.ws {
		n += w.n
		if e := w.Close(); e != nil {
			err = e
		}
	}
	return
}

// ---- corpus -------------------------------------------------------------------

type Graphic struct {
	Name string
	Data []byte
}

// loadCorpus reads testdata/*.ivg and parses the byte-slice literals of
// cmd/mdicons/test/data.go from the repository's current working tree.
func loadCorpus() ([]Graphic, error) {
	var out []Graphic
	root := repoRoot()
	files, _ := filepath.Glob(filepath.Join(root, "testdata", "*.ivg"))
	sort.Strings(files)
	for _, f := range files {
		b, err := os.ReadFile(f)
		if err != nil {
			return nil, err
		}
		out = append(out, Graphic{filepath.Base(f), b})
	}
	fset := token.NewFileSet()
	af, err := parser.ParseFile(fset, filepath.Join(root, "cmd", "mdicons", "test", "data.go"), nil, 0)
	if err != nil {
		return nil, err
	}
	for _, d := range af.Decls {
		gd, ok := d.(*ast.GenDecl)
		if !ok || gd.Tok != token.VAR {
			continue
		}
		for _, sp := range gd.Specs {
			vs := sp.(*ast.ValueSpec)
			if len(vs.Values) != 1 {
				continue
			}
			cl, ok := vs.Values[0].(*ast.CompositeLit)
			if !ok {
				continue
			}
			b := make([]byte, 0, len(cl.Elts))
			for _, e := range cl.Elts {
				bl, ok := e.(*ast.BasicLit)
				if !ok {
					b = nil
					break
				}
				v, err := strconv.ParseUint(bl.Value, 0, 8)
				if err != nil {
					b = nil
					break
				}
				b = append(b, byte(v))
			}
			if b != nil {
				out = append(out, Graphic{vs.Names[0].Name, b})
			}
		}
	}
	if len(out) < 100 {
		return nil, fmt.Errorf("corpus too small: %d graphics", len(out))
	}
	return out, nil
}

// summary printed on stdout as one JSON line for the orchestrator
func summary(m map[string]interface{}) {
	b, _ := json.Marshal(m)
	fmt.Println("@@SUMMARY " + string(b))
}
