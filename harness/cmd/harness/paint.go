package main

import (
	"image"
	"image/color"
	"math"

	"github.com/reactivego/ivg/raster"
)

// D is a float64 observation as a scaled integer: [exact, k, q] meaning
// k * 2^-q. exact = 1 when the float64 equals k * 2^-q with |k| < 2^30 and
// 0 <= q <= 40; otherwise exact = 0 and k = round(x * 2^20), q = 20 (clamped),
// for tolerance comparisons only.
type D [3]int

func d64j(x float64) D {
	if x == 0 {
		return D{1, 0, 0}
	}
	if !math.IsNaN(x) && !math.IsInf(x, 0) {
		for q := 0; q <= 40; q++ {
			y := math.Ldexp(x, q)
			if math.Abs(y) >= 1<<30 {
				break
			}
			if y == math.Trunc(y) {
				return D{1, int(y), q}
			}
		}
	}
	if !math.IsNaN(x) && !math.IsInf(x, 0) && math.Abs(x) >= 1<<30 {
		// a huge value that is k * 2^j exactly (j = -q > 0): reported with a negative q
		for q := -1; q >= -60; q-- {
			y := math.Ldexp(x, q)
			if math.Abs(y) < 1<<30 {
				if y == math.Trunc(y) {
					return D{1, int(y), q}
				}
				break
			}
		}
	}
	y := math.Round(math.Ldexp(x, 20))
	if math.IsNaN(y) {
		return D{0, 0, -1}
	}
	if y > 1<<30 {
		y = 1 << 30
	}
	if y < -(1 << 30) {
		y = -(1 << 30)
	}
	return D{0, int(y), 20}
}

// Paint is the projection of the image handed to Rasterizer.Draw.
type Paint struct {
	K       string   `json:"k"` // "flat", "grad", "other"
	C       [4]int   `json:"c"`
	Shape   int      `json:"shape"`
	Spread  int      `json:"spread"`
	Colors  [][4]int `json:"colors"`
	Offsets []F      `json:"offsets"`       // stop offsets as float32 bits (they are widened float32)
	OffOK   int      `json:"offok"`         // 1 when every offset survived float64->float32->float64
	M       []D      `json:"m"`             // pixel -> gradient matrix a b c d e f
	M64     [][7]int `json:"m64,omitempty"` // the same, exactly (sign, exponent, five 12-bit limbs)
}

func paintJ(src image.Image) interface{} {
	switch s := src.(type) {
	case *image.Uniform:
		r, g, b, a := s.C.RGBA()
		return Paint{K: "flat", C: [4]int{int(r >> 8), int(g >> 8), int(b >> 8), int(a >> 8)},
			Colors: [][4]int{}, Offsets: []F{}, M: []D{}}
	case raster.GradientConfig:
		p := Paint{K: "grad", Shape: s.GradientShape(), Spread: s.SpreadMethod(), OffOK: 1,
			Colors: [][4]int{}, Offsets: []F{}, M: []D{}}
		for _, c := range s.StopColors() {
			p.Colors = append(p.Colors, rgbaJ(c))
		}
		for _, o := range s.StopOffsets() {
			f := float32(o)
			if float64(f) != o {
				p.OffOK = 0
			}
			p.Offsets = append(p.Offsets, f32j(f))
		}
		a, b, c, d, e, f := s.Transform()
		for _, x := range []float64{a, b, c, d, e, f} {
			p.M = append(p.M, d64j(x))
			p.M64 = append(p.M64, d64limbs(x))
		}
		return p
	}
	return Paint{K: "other", Colors: [][4]int{}, Offsets: []F{}, M: []D{}}
}

var _ = color.RGBA{}
