package main

import (
	"flag"
	"image"
	"image/color"
	"math"
	"math/rand"

	"github.com/reactivego/ivg"
	"github.com/reactivego/ivg/generate"
	"github.com/reactivego/ivg/raster"
	"github.com/reactivego/ivg/render"
)

// C15 driver: gradient paint. Events for TV_Gradient:
//   pix: a real gradient image evaluated at an integer pixel (the image reports its own configuration)
//   cfg: the pixel->gradient matrix a real Renderer composed from registers, viewBox and rectangle

type pixEv struct {
	Ev     string  `json:"ev"`
	Path   string  `json:"path"`
	Shape  int     `json:"shape"`
	Spread int     `json:"spread"`
	Stops  []stopJ `json:"stops"`
	M      []D     `json:"m"`
	X      int     `json:"x"`
	Y      int     `json:"y"`
	Got    [4]int  `json:"got"`
}
type cfgEv struct {
	Ev   string   `json:"ev"`
	Vb   []F      `json:"vb"`
	Rect [4]int   `json:"rect"`
	NReg []F      `json:"nreg"`
	M    []D      `json:"m"`
	Sp   [2]int   `json:"sp"`  // the source point passed to Draw: the image pixel aligned with the rectangle's corner
	M64  [][7]int `json:"m64"` // the same matrix, exactly: sign, exponent e, five 12-bit limbs of the significand s (value = s * 2^e); sign 2 = not finite
}

// d64limbs is the exact projection of a float64: no arithmetic, only the fields of its representation.
func d64limbs(x float64) [7]int {
	b := math.Float64bits(x)
	sign, ex, frac := int(b>>63), int(b>>52&0x7ff), b&(1<<52-1)
	if ex == 0x7ff {
		return [7]int{2, 0, 0, 0, 0, 0, 0}
	}
	if ex == 0 {
		ex = 1 // subnormal (or zero): no implicit bit
	} else {
		frac |= 1 << 52
	}
	return [7]int{sign, ex - 1075, int(frac & 0xfff), int(frac >> 12 & 0xfff), int(frac >> 24 & 0xfff), int(frac >> 36 & 0xfff), int(frac >> 48 & 0xfff)}
}

type pixrEv struct {
	Ev     string  `json:"ev"`
	Vb     []F     `json:"vb"`
	Rect   [4]int  `json:"rect"`
	NReg   []F     `json:"nreg"`
	Shape  int     `json:"shape"`
	Spread int     `json:"spread"`
	Stops  []stopJ `json:"stops"`
	X      int     `json:"x"`
	Y      int     `json:"y"`
	Got    [4]int  `json:"got"`
}

func init() { register("drive-c15", driveC15) }

type gradCase struct {
	shape, spread int
	stops         []stopJ // colours 8 bit, offsets float32
	m             [6]float32
}

func randGradStops(r *rand.Rand, n int) []stopJ {
	// strictly increasing multiples of 1/64 in [0,1]
	ks := r.Perm(65)[:n]
	for i := range ks {
		for j := i + 1; j < len(ks); j++ {
			if ks[j] < ks[i] {
				ks[i], ks[j] = ks[j], ks[i]
			}
		}
	}
	out := make([]stopJ, n)
	for i, k := range ks {
		a := r.Intn(256)
		if r.Intn(6) == 0 {
			a = 0
		}
		if r.Intn(4) == 0 {
			a = 255
		}
		out[i] = stopJ{C: [4]int{r.Intn(a + 1), r.Intn(a + 1), r.Intn(a + 1), a}, O: f32j(float32(k) / 64)}
	}
	if r.Intn(8) == 0 { // every stop carries the same colour
		for i := range out {
			out[i].C = out[0].C
		}
		return out
	}
	if r.Intn(3) == 0 { // power-of-two spacing: exact interpolation
		out = out[:0]
		for _, k := range []int{0, 16, 32, 64}[:2+r.Intn(3)] {
			a := r.Intn(256)
			out = append(out, stopJ{C: [4]int{r.Intn(a + 1), r.Intn(a + 1), r.Intn(a + 1), a}, O: f32j(float32(k) / 64)})
		}
	}
	return out
}

// interesting pixels for a linear row (a, b, c): those whose centre maps to k/2 for k in -6..6, plus a block and far pixels
// keptGradient is initialised once per case and never replaced.
var keptGradient render.Gradient

func probePixels(r *rand.Rand, m [6]float32) [][2]int {
	var ps [][2]int
	for y := -2; y < 10; y++ {
		for x := -2; x < 22; x++ {
			ps = append(ps, [2]int{x, y})
		}
	}
	a, c := float64(m[0]), float64(m[2])
	if a != 0 {
		for k := -8; k <= 8; k++ {
			// a (x + 1/2) + b/2 + c = k/2 at y = 0
			x := (float64(k)/2-c-float64(m[1])/2)/a - 0.5
			ps = append(ps, [2]int{int(x), 0}, [2]int{int(x) + 1, 0}, [2]int{int(x) - 1, 0})
		}
	}
	ps = append(ps, [2]int{1000, 3}, [2]int{-1000, -7}, [2]int{640, -480}, [2]int{-333, 999})
	for i := 0; i < 40; i++ {
		ps = append(ps, [2]int{r.Intn(400) - 200, r.Intn(400) - 200})
	}
	return ps
}

func driveC15(args []string) error {
	fl := flag.NewFlagSet("drive-c15", flag.ExitOnError)
	outDir := fl.String("out", ".", "output directory")
	nsh := fl.Int("shards", 16, "trace files")
	n := fl.Int("n", 60, "gradient configurations per path")
	fl.Parse(args)
	sh, err := newShards(*outDir, "c15", *nsh)
	if err != nil {
		return err
	}
	rng := newRand(15)
	stats := map[string]int{}
	mats := func() [6]float32 {
		d := func(k, q int) float32 { return float32(k) / float32(int(1)<<uint(q)) }
		switch rng.Intn(5) {
		case 0: // integers of the offset fall on pixel centres: c = -(a+b)/2 + k/4
			a, b := d(1, 4), d(rng.Intn(3)-1, 5)
			return [6]float32{a, b, -(a+b)/2 + d(rng.Intn(9)-4, 2), d(rng.Intn(3)-1, 6), d(1, 4), -d(1, 5)}
		case 1:
			a, b := d(rng.Intn(9)-4, 5), d(rng.Intn(9)-4, 5)
			return [6]float32{a, b, -(a+b)/2 + d(rng.Intn(17)-8, 3), d(rng.Intn(9)-4, 5), d(rng.Intn(9)-4, 5), d(rng.Intn(17)-8, 4)}
		case 2: // sheared, translated by non-integers
			return [6]float32{d(3, 6), d(-1, 6), d(rng.Intn(64)-32, 5), d(1, 6), d(5, 7), d(rng.Intn(64)-32, 6)}
		case 3: // Pythagorean-friendly radial: 1/8 scale, centre on a half pixel
			return [6]float32{d(1, 3), 0, -d(1, 4) - d(rng.Intn(5), 0)*d(1, 3), 0, d(1, 3), -d(1, 4) - d(rng.Intn(5), 0)*d(1, 3)}
		default:
			return [6]float32{d(1, 2+rng.Intn(6)), 0, -d(1, 3), 0, d(1, 2+rng.Intn(6)), -d(1, 3)}
		}
	}
	emitPix := func(path string, img image.Image, gc raster.GradientConfig, stops []stopJ, x, y int) {
		r, g, b, a := img.At(x, y).RGBA()
		m := []D{}
		ta, tb, tc, td, te, tf := gc.Transform()
		for _, v := range []float64{ta, tb, tc, td, te, tf} {
			m = append(m, d64j(v))
		}
		// stops as the image itself reports them
		cols, offs := gc.StopColors(), gc.StopOffsets()
		js := make([]stopJ, len(cols))
		for i := range cols {
			js[i] = stopJ{C: rgbaJ(cols[i]), O: f32j(float32(offs[i]))}
		}
		sh.Next().Emit(pixEv{Ev: "pix", Path: path, Shape: gc.GradientShape(), Spread: gc.SpreadMethod(), Stops: js, M: m, X: x, Y: y,
			Got: [4]int{int(r), int(g), int(b), int(a)}})
		stats["pix."+path]++
	}
	for i := 0; i < *n; i++ {
		ns := []int{2, 2, 3, 3, 5, 5, 58}[rng.Intn(7)]
		if i%8 == 3 {
			ns = []int{2, 3, 2, 5}[i/8%4] // the single-colour gradients below: two stops (one range) and more, by turns
		}
		gcase := gradCase{shape: rng.Intn(2), spread: rng.Intn(4), stops: randGradStops(rng, ns), m: mats()}
		if i%4 == 0 {
			gcase.spread = 2 // reflect: the triangle wave
		}
		if i%8 == 3 {
			// a "flat" gradient (every stop the same colour) must still obey its spread: none is transparent outside [0,1]
			for k := range gcase.stops {
				gcase.stops[k].C = gcase.stops[0].C
			}
			if gcase.stops[0].C[3] == 0 {
				gcase.stops[0].C = [4]int{10, 20, 30, 200}
				for k := range gcase.stops {
					gcase.stops[k].C = gcase.stops[0].C
				}
			}
			gcase.spread = []int{0, 0, 3, 2}[i/8%4]
		}
		// (A) render.Gradient built directly
		var g render.Gradient
		var st []render.Stop
		for _, s := range gcase.stops {
			st = append(st, render.Stop{Offset: float64(s.O.float()), RGBA64: color.RGBA64{uint16(s.C[0]) * 0x101, uint16(s.C[1]) * 0x101, uint16(s.C[2]) * 0x101, uint16(s.C[3]) * 0x101}})
		}
		var aff render.Aff3
		for k, v := range gcase.m {
			aff[k] = float64(v)
		}
		if g.Init(render.Shape(gcase.shape), render.Spread(gcase.spread), aff, st) {
			for _, p := range probePixels(rng, gcase.m) {
				emitPix("Gradient.Init", &g, &g, gcase.stops, p[0], p[1])
			}
			stats["direct"]++
		}
		// (A'') one Gradient object initialised again and again (round 10), as the Renderer does with its own: stop counts go
		// up and down from case to case, nothing of the previous configuration may remain
		if keptGradient.Init(render.Shape(gcase.shape), render.Spread(gcase.spread), aff, st) {
			for pi, p := range probePixels(rng, gcase.m) {
				if pi%3 == 0 {
					emitPix("Gradient.Init/reused-object", &keptGradient, &keptGradient, gcase.stops, p[0], p[1])
				}
			}
			stats["direct_reused_object"]++
		}
		// (A') the same gradient assembled by hand from the public helpers: the ranges are built by two AppendRanges
		// calls (the second continues from the first's final stop)
		if len(st) >= 3 {
			k := 2 + rng.Intn(len(st)-2)
			h := render.Gradient{Shape: render.Shape(gcase.shape), Spread: render.Spread(gcase.spread), Pix2Grad: aff,
				Ranges: render.AppendRanges(render.AppendRanges(nil, st[:k]), st[k:]), First: st[0].RGBA64, Last: st[len(st)-1].RGBA64}
			for _, p := range probePixels(rng, gcase.m)[:120] {
				emitPix("Gradient.AppendRanges", &h, &h, gcase.stops, p[0], p[1])
			}
			stats["appendranges"]++
		}
		// (B) through the registers of a real Renderer; the image handed to Draw is probed
		cfgs := latticeCfgs()
		// more power-of-two scales that differ in x and y (the composed matrix is compared exactly for those)
		cfgs = append(cfgs,
			rendCfg{[4]float32{-32, -32, 32, 32}, image.Rect(0, 0, 128, 32)},
			rendCfg{[4]float32{0, 0, 16, 64}, image.Rect(2, 1, 66, 65)},
			rendCfg{[4]float32{-8, -8, 8, 8}, image.Rect(0, 0, 64, 16)},
			rendCfg{[4]float32{-32, -32, 32, 32}, image.Rect(0, 0, 32, 16)},
			rendCfg{[4]float32{-16, -32, 16, 32}, image.Rect(5, 5, 5+128, 5+64)})
		cfg := cfgs[rng.Intn(len(cfgs))]
		if i%8 == 3 {
			cfg = cfgs[i/8%3] // single-colour gradients: power-of-two scales in both axes, so that every pixel is decided exactly
		}
		rr := &RecRaster{}
		var z render.Renderer
		z.SetRasterizer(rr, cfg.rect)
		z.Reset(ivg.ViewBox{MinX: cfg.vb[0], MinY: cfg.vb[1], MaxX: cfg.vb[2], MaxY: cfg.vb[3]}, defaultPal())
		// (bases 1..5: the six matrix registers below the base wrap around from NREG[63] to NREG[0])
		base := []int{10, 0, 58, 20, 1, 2, 3, 4, 5, 63}[rng.Intn(10)]
		if i%8 == 6 {
			base = 1 + i/8%5
		}
		z.SetNSel(uint8(base))
		for k, v := range gcase.m {
			z.SetNReg(uint8(6-k), false, v)
		}
		z.SetCSel(uint8(base))
		for _, s := range gcase.stops {
			z.SetCReg(0, true, ivg.RGBAColor(color.RGBA{uint8(s.C[0]), uint8(s.C[1]), uint8(s.C[2]), uint8(s.C[3])}))
			z.SetNReg(0, true, s.O.float())
		}
		// the gradient value lives in CREG[base-1]; it is written and painted either with CSEL = base-1 and ADJ = 0, or
		// with CSEL inside the stop block and the adjustment that reaches back to base-1
		padj := 0
		if i%3 == 1 {
			padj = 1 + rng.Intn(6)
			if padj > len(gcase.stops) {
				padj = len(gcase.stops)
			}
		}
		z.SetCSel(uint8((base + 63 + padj) % 64))
		z.SetCReg(uint8(padj), false, ivg.RGBAColor(ivg.EncodeGradient(uint8(base), uint8(base), uint8(gcase.shape), uint8(gcase.spread), uint8(len(gcase.stops)))))
		full := func() {
			z.StartPath(uint8(padj), cfg.vb[0], cfg.vb[1])
			z.AbsLineTo(cfg.vb[2], cfg.vb[1])
			z.AbsLineTo(cfg.vb[2], cfg.vb[3])
			z.AbsLineTo(cfg.vb[0], cfg.vb[3])
			z.ClosePathEndPath()
		}
		// the image handed to Draw is the Renderer's own gradient object, rebuilt by the next StartPath: probe it
		// right after the Draw, before anything else happens to the Renderer
		probe := func(rc image.Rectangle, from int) {
			ndraw := 0
			for _, c := range rr.Calls[from:] {
				if c.K == "Draw" {
					ndraw++
				}
			}
			if ndraw != 1 {
				// a path painted with a valid gradient (stops premultiplied, offsets strictly increasing within [0,1], default
				// level of detail) is drawn, once
				sh.Next().Emit(map[string]interface{}{"ev": "nodraw", "draws": ndraw, "csel": int(z.CSel()), "adj": padj, "base": base, "nstops": len(gcase.stops)})
			}
			for _, c := range rr.Calls[from:] {
				if c.K != "Draw" {
					continue
				}
				gc, ok := c.img.(raster.GradientConfig)
				if !ok {
					// whatever image the Renderer chose to hand to Draw, its pixels are the gradient's: the expected
					// configuration comes from the registers, the viewBox and the rectangle ("pixr" events)
					if c.img != nil {
						pr := pixrEv{Ev: "pixr", Vb: fs(cfg.vb[0], cfg.vb[1], cfg.vb[2], cfg.vb[3]), Rect: [4]int{rc.Min.X, rc.Min.Y, rc.Max.X, rc.Max.Y},
							Shape: gcase.shape, Spread: gcase.spread, Stops: gcase.stops}
						for _, v := range gcase.m {
							pr.NReg = append(pr.NReg, f32j(v))
						}
						for _, p := range probePixels(rng, gcase.m)[:150] {
							r, g, b, a := c.img.At(p[0], p[1]).RGBA()
							q := pr
							q.X, q.Y, q.Got = p[0], p[1], [4]int{int(r), int(g), int(b), int(a)}
							sh.Next().Emit(q)
							stats["pixr"]++
						}
					}
					continue
				}
				stats["rendered"]++
				ce := cfgEv{Ev: "cfg", Vb: fs(cfg.vb[0], cfg.vb[1], cfg.vb[2], cfg.vb[3]), Rect: [4]int{rc.Min.X, rc.Min.Y, rc.Max.X, rc.Max.Y},
					Sp: [2]int{c.I[4], c.I[5]}}
				for _, v := range gcase.m {
					ce.NReg = append(ce.NReg, f32j(v))
				}
				ta, tb, tc, td, te, tf := gc.Transform()
				for _, v := range []float64{ta, tb, tc, td, te, tf} {
					ce.M = append(ce.M, d64j(v))
					ce.M64 = append(ce.M64, d64limbs(v))
				}
				sh.Next().Emit(ce)
				stats["cfg"]++
				var m32 [6]float32
				for k, v := range []float64{ta, tb, tc, td, te, tf} {
					m32[k] = float32(v)
				}
				for _, p := range probePixels(rng, m32) {
					emitPix("Renderer.Draw", c.img, gc, gcase.stops, p[0], p[1])
				}
			}
		}
		full()
		probe(cfg.rect, 0)
		if i%2 == 0 {
			// the same Renderer gets another target (twice the size, other origin) and paints with the same
			// gradient again, without a Reset or a register write in between
			nr := image.Rect(cfg.rect.Min.X+3, cfg.rect.Min.Y+1, cfg.rect.Min.X+3+2*cfg.rect.Dx(), cfg.rect.Min.Y+1+2*cfg.rect.Dy())
			z.SetRasterizer(rr, nr)
			n0 := len(rr.Calls)
			full()
			probe(nr, n0)
			stats["retargeted"]++
		}
	}
	// radial gradients whose unit is the pixel, centred on a pixel centre, probed where the distance is an exact integer
	// (Pythagorean points, also far from the axes): offset exactly on an integer - repeat starts over, reflect turns
	for spread := 0; spread < 4; spread++ {
		for _, ctr := range [][2]int{{0, 0}, {3, -2}} {
			stops := []stopJ{{C: [4]int{255, 0, 0, 255}, O: f32j(0)}, {C: [4]int{0, 100, 0, 100}, O: f32j(0.5)}, {C: [4]int{0, 0, 255, 255}, O: f32j(1)}}
			var g render.Gradient
			var st []render.Stop
			for _, s := range stops {
				st = append(st, render.Stop{Offset: float64(s.O.float()), RGBA64: color.RGBA64{uint16(s.C[0]) * 0x101, uint16(s.C[1]) * 0x101, uint16(s.C[2]) * 0x101, uint16(s.C[3]) * 0x101}})
			}
			aff := render.Aff3{1, 0, -0.5 - float64(ctr[0]), 0, 1, -0.5 - float64(ctr[1])}
			if g.Init(render.ShapeRadial, render.Spread(spread), aff, st) {
				for _, t := range [][2]int{{3, 4}, {5, 12}, {8, 15}, {20, 21}, {20, 99}, {99, 20}, {27, 120}, {45, 108}, {28, 195}, {65, 72}, {119, 120}, {696, 697}, {0, 7}, {9, 0}, {1, 1}, {2, 3}, {0, 1}, {1, 0}, {0, 2}, {3, 0}} {
					for _, sg := range [][2]int{{1, 1}, {-1, 1}, {1, -1}, {-1, -1}} {
						emitPix("Gradient.Init/pythagorean", &g, &g, stops, ctr[0]+sg[0]*t[0], ctr[1]+sg[1]*t[1])
					}
				}
				stats["pythagorean"]++
			}
		}
	}
	// gradients written by the Generator's helpers and rendered by a real Renderer (one pixel = one unit): the pixel whose
	// centre is the centre / the end of the radius vector / the end of an axis / a point of the perpendicular shows the
	// colour of offset 0 / 1 / 1 / the same offset
	for spread := 0; spread < 4; spread++ {
		for kind := 0; kind < 4; kind++ {
			rr := &RecRaster{}
			var z render.Renderer
			z.SetRasterizer(rr, image.Rect(0, 0, 8, 8))
			z.Reset(ivg.ViewBox{MinX: 0, MinY: 0, MaxX: 8, MaxY: 8}, defaultPal())
			g := &generate.Generator{}
			g.SetDestination(&z)
			gs := []generate.GradientStop{{Offset: 0, Color: color.RGBA{255, 0, 0, 255}}, {Offset: 0.5, Color: color.RGBA{0, 100, 0, 100}}, {Offset: 1, Color: color.RGBA{0, 0, 255, 255}}}
			sp := generate.GradientSpread(spread)
			var err error
			var probes [][2]int
			switch kind {
			case 0:
				err = g.SetCircularGradient(2.5, 2.5, 2, 0, sp, gs)
				probes = [][2]int{{2, 2}, {4, 2}, {0, 2}, {2, 4}, {2, 0}, {3, 2}, {5, 2}, {6, 2}, {2, 7}}
			case 1:
				err = g.SetEllipticalGradient(2.5, 2.5, 2, 0, 0, 1, sp, gs)
				probes = [][2]int{{2, 2}, {4, 2}, {0, 2}, {2, 3}, {2, 1}, {3, 2}, {2, 4}, {6, 2}}
			case 2:
				err = g.SetLinearGradient(0.5, 0.5, 4.5, 0.5, sp, gs)
				probes = [][2]int{{0, 0}, {4, 0}, {2, 0}, {2, 3}, {2, 7}, {5, 0}, {6, 5}, {7, 7}, {4, 6}}
			default:
				// the line starts inside the picture (round 10): pixels before its start have negative offsets (-1/2, -1/4), the
				// one beyond its end offset 5/4 - what the spread makes of both sides
				err = g.SetLinearGradient(2.5, 0.5, 6.5, 0.5, sp, gs)
				probes = [][2]int{{0, 0}, {1, 0}, {2, 0}, {3, 0}, {4, 0}, {5, 0}, {6, 0}, {7, 0}, {0, 5}, {1, 7}, {6, 3}}
			}
			if err != nil {
				return err
			}
			z.StartPath(0, 0, 0)
			z.AbsHLineTo(8)
			z.AbsVLineTo(8)
			z.AbsHLineTo(0)
			z.ClosePathEndPath()
			for _, c := range rr.Calls {
				if c.K != "Draw" {
					continue
				}
				if gc, ok := c.img.(raster.GradientConfig); ok {
					for _, p := range probes {
						emitPix("Generator."+[]string{"SetCircularGradient", "SetEllipticalGradient", "SetLinearGradient", "SetLinearGradient"}[kind], c.img, gc, nil, p[0], p[1])
					}
					stats["helpers"]++
				}
			}
		}
	}
	// hard edges (round 10): stops at neighbouring float32 offsets, a linear gradient whose pixel centres fall exactly on
	// them (one pixel = one unit in the last place): at a stop's own offset the colour is that stop's colour
	{
		type edgeEv struct {
			Ev     string  `json:"ev"`
			Path   string  `json:"path"`
			Shape  int     `json:"shape"`
			Spread int     `json:"spread"`
			Stops  []stopJ `json:"stops"`
			M      []D     `json:"m"`
			X      int     `json:"x"`
			Y      int     `json:"y"`
			Hit    int     `json:"hit"`
			Got    [4]int  `json:"got"`
		}
		u := math.Ldexp(1, -24) // the spacing of float32 numbers in [1/2, 1)
		cols := [][4]int{{255, 0, 0, 255}, {0, 255, 0, 255}, {0, 0, 255, 255}, {255, 255, 255, 255}, {0, 0, 0, 255}, {20, 0, 40, 60}}
		for ci, ec := range []struct {
			offs []float64 // stop offsets
			base float64   // offset of pixel 0
			hits [][2]int  // pixel x -> stop index (1-based)
		}{
			{[]float64{0, 0.5, 0.5 + u, 0.5 + 2*u, 1}, 0.5, [][2]int{{0, 2}, {1, 3}, {2, 4}}},
			{[]float64{0.25, 1 - u, 1}, 1 - u, [][2]int{{0, 2}, {1, 3}}},
			{[]float64{0.5, 0.5 + u}, 0.5, [][2]int{{0, 1}, {1, 2}}},
			{[]float64{0, 0.75 - u, 0.75, 0.75 + u}, 0.75 - u, [][2]int{{0, 2}, {1, 3}, {2, 4}}},
			{[]float64{0, 0.5, 0.5 + 4*u, 1}, 0.5, [][2]int{{0, 2}, {4, 3}}}} {
			for spread := 0; spread < 4; spread++ {
				var st []render.Stop
				var js []stopJ
				for i, o := range ec.offs {
					c := cols[(i+ci)%len(cols)]
					st = append(st, render.Stop{Offset: o, RGBA64: color.RGBA64{uint16(c[0]) * 0x101, uint16(c[1]) * 0x101, uint16(c[2]) * 0x101, uint16(c[3]) * 0x101}})
					js = append(js, stopJ{C: c, O: f32j(float32(o))})
				}
				aff := render.Aff3{u, 0, ec.base - u/2, 0, 0, 0}
				var g render.Gradient
				if !g.Init(render.ShapeLinear, render.Spread(spread), aff, st) {
					continue
				}
				for _, h := range ec.hits {
					for _, y := range []int{0, 3} {
						r, gg, b, a := g.At(h[0], y).RGBA()
						m := []D{}
						for _, v := range aff {
							m = append(m, d64j(v))
						}
						sh.Next().Emit(edgeEv{Ev: "edge", Path: "Gradient.Init/hard-edge", Shape: 0, Spread: spread, Stops: js, M: m, X: h[0], Y: y, Hit: h[1],
							Got: [4]int{int(r), int(gg), int(b), int(a)}})
						stats["edge"]++
					}
				}
			}
		}
	}
	// every stop's own offset is hit by a pixel centre (one pixel = 1/64, offset x/64 at pixel x), ranges of many widths,
	// colours that jump between nothing and full from stop to stop: at a stop's offset the colour is that stop's colour
	for k := 0; k < 12; k++ {
		ns := []int{2, 3, 5, 9, 17, 33, 58, 4, 7, 12, 25, 40}[k]
		stops := randGradStops(rng, ns)
		for j := range stops {
			stops[j].C = [][4]int{{0, 0, 0, 0}, {255, 255, 255, 255}, {0, 0, 0, 255}, {255, 0, 128, 255}, {1, 0, 0, 1}}[(j+k)%5]
			if j%2 == 0 {
				stops[j].C = [][4]int{{0, 0, 0, 0}, {0, 0, 0, 255}}[(j/2+k)%2]
			}
		}
		var st []render.Stop
		for _, s := range stops {
			st = append(st, render.Stop{Offset: float64(s.O.float()), RGBA64: color.RGBA64{uint16(s.C[0]) * 0x101, uint16(s.C[1]) * 0x101, uint16(s.C[2]) * 0x101, uint16(s.C[3]) * 0x101}})
		}
		for spread := 0; spread < 4; spread++ {
			for shape := 0; shape < 2; shape++ {
				var g render.Gradient
				aff := render.Aff3{1.0 / 64, 0, -1.0 / 128, 0, 1.0 / 64, -1.0 / 128}
				if g.Init(render.Shape(shape), render.Spread(spread), aff, st) {
					for x := -3; x <= 132; x++ {
						emitPix("Gradient.Init/stophit", &g, &g, stops, x, 0)
					}
					stats["stophit"]++
				}
			}
		}
	}
	// the same on the 2^-12 grid with range widths w for which w * (1/w) is not 1 in float64 (the quotient w / w is):
	// the upper stop of such a range, hit exactly, still shows that stop's colour
	{
		var odd []int
		for w := 3; w <= 3900; w++ {
			if f := float64(w) / 4096; f*(1/f) != 1 {
				odd = append(odd, w)
			}
		}
		for k := 0; k < 40 && len(odd) > 0; k++ {
			w := odd[rng.Intn(len(odd))]
			o0 := 60 + rng.Intn(3980-w-60+1) // o0 >= 60, o0 + w <= 3980 (units of 2^-12)
			c0, c1 := [4]int{0, 0, 0, 0}, [4]int{255, 255, 255, 255}
			if k%3 == 1 {
				c0, c1 = [4]int{0, 0, 0, 255}, [4]int{255, 128, 64, 255}
			}
			stops := []stopJ{{C: c0, O: f32j(float32(o0) / 4096)}, {C: c1, O: f32j(float32(o0+w) / 4096)}}
			if k%2 == 1 { // the odd range is the second of three
				stops = append([]stopJ{{C: [4]int{9, 9, 9, 9}, O: f32j(float32(o0-50) / 4096)}}, stops...)
				stops = append(stops, stopJ{C: [4]int{0, 0, 0, 77}, O: f32j(float32(o0+w+100) / 4096)})
			}
			var st []render.Stop
			for _, s := range stops {
				st = append(st, render.Stop{Offset: float64(s.O.float()), RGBA64: color.RGBA64{uint16(s.C[0]) * 0x101, uint16(s.C[1]) * 0x101, uint16(s.C[2]) * 0x101, uint16(s.C[3]) * 0x101}})
			}
			var g render.Gradient
			// offset at pixel (x, 0) = x / 4096 + 1/2
			aff := render.Aff3{1.0 / 4096, 0, 0.5 - 1.0/8192, 0, 1.0 / 4096, -1.0 / 8192}
			if g.Init(render.ShapeLinear, render.Spread(k%4), aff, st) {
				for _, o := range []int{o0, o0 + w, o0 + w - 1, o0 + w + 1, o0 + 1} {
					emitPix("Gradient.Init/stophit", &g, &g, stops, o-2048, 0)
				}
				stats["stophit.oddwidth"]++
			}
		}
	}
	// offsets astronomically far outside [0,1]: the translation is +-2^e (an even integer, exact in float32 and
	// float64), the pixel term supplies a small dyadic part; the spread rules still decide the colour (period 2)
	for _, e := range []int{31, 32, 33, 40, 46} {
		for _, sg := range []float64{1, -1} {
			for spread := 0; spread < 4; spread++ {
				for _, a := range []float64{0.25, 0.125, -0.25} {
					stops := []stopJ{{C: [4]int{200, 0, 0, 255}, O: f32j(0)}, {C: [4]int{0, 100, 0, 100}, O: f32j(0.5)}, {C: [4]int{0, 0, 64, 64}, O: f32j(1)}}
					var g render.Gradient
					var st []render.Stop
					for _, s := range stops {
						st = append(st, render.Stop{Offset: float64(s.O.float()), RGBA64: color.RGBA64{uint16(s.C[0]) * 0x101, uint16(s.C[1]) * 0x101, uint16(s.C[2]) * 0x101, uint16(s.C[3]) * 0x101}})
					}
					aff := render.Aff3{a, 0.0625, sg * math.Ldexp(1, e), 0, 1, 0}
					if g.Init(render.ShapeLinear, render.Spread(spread), aff, st) {
						for x := -6; x <= 14; x++ {
							emitPix("Gradient.Init/far", &g, &g, stops, x, x%3)
						}
						stats["far"]++
					}
				}
			}
		}
	}
	nEv, err := sh.Close()
	if err != nil {
		return err
	}
	summary(map[string]interface{}{"events": nEv, "stats": stats})
	return nil
}
