// Command harness drives the real reactivego/ivg code for the /verif checks:
// it records traces (ndjson, one event per public call) that the TLA+ trace
// specifications validate, and replays TLC-generated behaviours into the real
// objects. It contains no oracle: it copies arguments, reads public accessors
// (and the verif-tagged read-only hooks) and converts number representations.
package main

import (
	"fmt"
	"os"
	"sort"
)

type cmdFunc func(args []string) error

var commands = map[string]cmdFunc{}

func register(name string, f cmdFunc) { commands[name] = f }

func main() {
	if len(os.Args) < 2 {
		usage()
	}
	f, ok := commands[os.Args[1]]
	if !ok {
		usage()
	}
	if err := f(os.Args[2:]); err != nil {
		fmt.Fprintln(os.Stderr, "harness:", err)
		os.Exit(3)
	}
}

func usage() {
	names := []string{}
	for n := range commands {
		names = append(names, n)
	}
	sort.Strings(names)
	fmt.Fprintln(os.Stderr, "usage: harness <command> [args]; commands:", names)
	os.Exit(2)
}
