package main

// replay-vecrast: the call sequences GEN_VecRast generated, run on a real raster/vec.Rasterizer over an
// *image.RGBA; after every step the DrawOp field and three pixels (covered by the path, inside the rectangle but
// outside the path, outside the rectangle) are compared with the state VecRast.tla expects. A second route draws
// the same fills through a render.Renderer (whose ClosePathEndPath is the Draw).

import (
	"bufio"
	"encoding/json"
	"flag"
	"fmt"
	"image"
	"image/color"
	"image/draw"
	"os"
	"strings"

	"github.com/reactivego/ivg"
	"github.com/reactivego/ivg/raster/vec"
	"github.com/reactivego/ivg/render"
)

func init() { register("replay-vecrast", replayVecRast) }

type vrState struct {
	Op   string `json:"op"`
	In   [4]int `json:"in"`
	Ring [4]int `json:"ring"`
	Out  [4]int `json:"out"`
}

type vrStep struct {
	Cmd struct {
		K string `json:"k"`
		O string `json:"o"`
		C []int  `json:"c"`
	} `json:"cmd"`
	After vrState `json:"after"`
}

func replayVecRast(args []string) error {
	fl := flag.NewFlagSet("replay-vecrast", flag.ExitOnError)
	in := fl.String("in", "", "TLC output with the generated sequences")
	out := fl.String("out", "", "mismatch file")
	fl.Parse(args)
	f, err := os.Open(*in)
	if err != nil {
		return err
	}
	defer f.Close()
	w, err := newWriter(*out)
	if err != nil {
		return err
	}
	type mism struct {
		Seq   []string `json:"seq"`
		Route string   `json:"route"`
		Step  int      `json:"step"`
		What  string   `json:"what"`
	}
	ops := map[string]draw.Op{"over": draw.Over, "src": draw.Src}
	opName := func(o draw.Op) string {
		if o == draw.Src {
			return "src"
		}
		return "over"
	}
	px := func(img *image.RGBA, x, y int) [4]int {
		c := img.RGBAAt(x, y)
		return [4]int{int(c.R), int(c.G), int(c.B), int(c.A)}
	}
	n, nmis, nsteps := 0, 0, 0
	sc := bufio.NewScanner(f)
	sc.Buffer(make([]byte, 1<<20), 1<<26)
	for sc.Scan() {
		line := strings.TrimSpace(sc.Text())
		if !strings.HasPrefix(line, `"{`) || !strings.Contains(line, `\"diag\":\"vecrast\"`) {
			continue
		}
		var inner string
		if err := json.Unmarshal([]byte(line), &inner); err != nil {
			return err
		}
		var c struct {
			Bg [4]int   `json:"bg"`
			H  []vrStep `json:"h"`
		}
		if err := json.Unmarshal([]byte(inner), &c); err != nil {
			return fmt.Errorf("bad case: %v", err)
		}
		n++
		var seq []string
		for _, s := range c.H {
			seq = append(seq, strings.TrimSpace(fmt.Sprint(s.Cmd.K, " ", s.Cmd.O, s.Cmd.C)))
		}
		// the target rectangle sits at the origin of the image or away from it, by turns; geometry relative to it:
		// rectangle 12 x 10, path (3,2)-(9,8): covered pixel (5,4), ring pixel (1,1); outside: one pixel left of the rectangle
		for route := 0; route < 2; route++ {
			img := image.NewRGBA(image.Rect(0, 0, 20, 16))
			bg := color.RGBA{uint8(c.Bg[0]), uint8(c.Bg[1]), uint8(c.Bg[2]), uint8(c.Bg[3])}
			draw.Draw(img, img.Bounds(), image.NewUniform(bg), image.Point{}, draw.Src)
			org := image.Pt(4, 3)
			if n%2 == 0 {
				org = image.Pt(1, 0)
			}
			rect := image.Rectangle{Min: org, Max: org.Add(image.Pt(12, 10))}
			z := vec.NewRasterizer(img)
			var rd render.Renderer
			name := []string{"vec.Rasterizer", "render.Renderer"}[route]
			if route == 1 {
				rd.SetRasterizer(z, rect)
				rd.Reset(ivg.ViewBox{MinX: 0, MinY: 0, MaxX: 12, MaxY: 10}, ivg.DefaultPalette)
			}
			for si, s := range c.H {
				switch s.Cmd.K {
				case "op":
					z.DrawOp = ops[s.Cmd.O]
				case "reset":
					z.Reset(12, 10)
				case "fillempty":
					col := color.RGBA{uint8(s.Cmd.C[0]), uint8(s.Cmd.C[1]), uint8(s.Cmd.C[2]), uint8(s.Cmd.C[3])}
					empty := image.Rectangle{Min: org.Add(image.Pt(3, 3)), Max: org.Add(image.Pt(3, 9))}
					if route == 0 {
						z.Reset(12, 10)
						z.MoveTo(3, 2)
						z.LineTo(9, 2)
						z.LineTo(9, 8)
						z.ClosePath()
						z.Draw(empty, image.NewUniform(col), image.Point{})
					} else {
						rd.SetRasterizer(z, empty)
						rd.SetCSel(0)
						rd.SetCReg(0, false, ivg.RGBAColor(col))
						rd.StartPath(0, 3, 2)
						rd.AbsLineTo(9, 2)
						rd.AbsLineTo(9, 8)
						rd.ClosePathEndPath()
						rd.SetRasterizer(z, rect)
					}
				case "fill":
					col := color.RGBA{uint8(s.Cmd.C[0]), uint8(s.Cmd.C[1]), uint8(s.Cmd.C[2]), uint8(s.Cmd.C[3])}
					if route == 0 {
						z.Reset(12, 10)
						z.MoveTo(3, 2)
						z.LineTo(9, 2)
						z.LineTo(9, 8)
						z.LineTo(3, 8)
						z.ClosePath()
						z.Draw(rect, image.NewUniform(col), image.Point{})
					} else {
						if col.A == 0 {
							// a Renderer does not draw a path whose colour is transparent at all: under Over that is what the
							// model says too; under Src the model's Draw would clear the rectangle - not comparable on this route
							if z.DrawOp == draw.Src {
								goto nextRoute
							}
							continue
						}
						rd.SetCSel(0)
						rd.SetCReg(0, false, ivg.RGBAColor(col))
						rd.StartPath(0, 3, 2)
						rd.AbsLineTo(9, 2)
						rd.AbsLineTo(9, 8)
						rd.AbsLineTo(3, 8)
						rd.ClosePathEndPath()
					}
				}
				nsteps++
				got := vrState{Op: opName(z.DrawOp), In: px(img, org.X+5, org.Y+4), Ring: px(img, org.X+1, org.Y+1), Out: px(img, org.X-1, org.Y+4)}
				if got != s.After {
					nmis++
					if nmis <= 300 {
						w.Emit(mism{Seq: seq, Route: name, Step: si, What: fmt.Sprintf("after step %d: got %+v, the model says %+v", si, got, s.After)})
					}
					break
				}
			}
		nextRoute:
		}
	}
	if err := sc.Err(); err != nil {
		return err
	}
	if err := w.Close(); err != nil {
		return err
	}
	summary(map[string]interface{}{"cases": n, "steps": nsteps, "mismatches": nmis})
	return nil
}
