package main

import (
	"bytes"
	"flag"
	"fmt"

	"github.com/reactivego/ivg"
	"github.com/reactivego/ivg/decode"
)

// deep-dec: one very long path (millions of separate drawing opcodes in a single path) decoded in
// this process with the runtime's default limits.  By the decoding machine every "e6 80" step in
// drawing mode delivers exactly one AbsHLineTo and stays in drawing mode (MC_Decoder checks Progress
// and ModeDiscipline for every string of the bound; by induction the count below), so the expected
// outcome is N + 3 delivered calls, no error, input untouched - in time and memory linear in the
// input.  The orchestrator runs this as a separate process: if the decoder's own stack grows with
// the number of instructions the Go runtime kills the process ("fatal error: stack overflow"),
// which no recover() can catch.

type countDest struct {
	fwdDest
	n     int
	first string
	last  string
}

func init() { register("deep-dec", deepDec) }

func deepDec(args []string) error {
	fl := flag.NewFlagSet("deep-dec", flag.ExitOnError)
	n := fl.Int("n", 9000000, "drawing opcodes in the path")
	fl.Parse(args)
	src := append([]byte(ivg.Magic), 0x00, 0xc0, 0x80, 0x80)
	for i := 0; i < *n; i++ {
		src = append(src, 0xe6, byte(0x80+2*(i%32)))
	}
	src = append(src, 0xe1)
	orig := append([]byte(nil), src...)
	cd := &countDest{}
	cd.onCall = func(c Call) {
		if cd.n == 0 {
			cd.first = c.Op
		}
		cd.n++
		cd.last = c.Op
	}
	cd.onRead = func(string, uint8) {}
	err := decode.Decode(cd, src)
	vb, err2 := decode.DecodeViewBox(src)
	ok := err == nil && err2 == nil && cd.n == *n+3 && cd.first == "Reset" && cd.last == "ClosePathEndPath" &&
		bytes.Equal(src, orig) && vb == ivg.DefaultViewBox
	summary(map[string]interface{}{"ok": ok, "calls": cd.n, "want": *n + 3, "first": cd.first, "last": cd.last,
		"err": fmt.Sprint(err), "bytes": len(src), "unchanged": bytes.Equal(src, orig)})
	return nil
}
