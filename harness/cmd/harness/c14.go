package main

import (
	"flag"
	"fmt"
	"image"
	"image/color"

	"github.com/reactivego/ivg"
	"github.com/reactivego/ivg/decode"
	"github.com/reactivego/ivg/encode"
)

// C14 driver: palette options. For every option list the real Decode runs on small
// graphics that use palette indices as initial CREG contents, through a register write
// of customPalette[i], and inside a blend. Two traces per run: dec.* (TV_Decoder: the
// Reset arguments under ApplyOpts, outcome, input and caller palettes unmodified) and
// rend.* (TV_Renderer: registers after Reset, paints at Draw).

type grayish struct{ v uint16 } // a custom color.Color implementation

func (g grayish) RGBA() (r, gg, b, a uint32) {
	return uint32(g.v), uint32(g.v) / 2, uint32(g.v) / 3, 0xffff
}

type nonsense struct{} // a color.Color whose channels exceed its alpha

func (nonsense) RGBA() (r, g, b, a uint32) { return 0xffff, 0x8000, 0x0000, 0x4000 }

func init() { register("drive-c14", driveC14) }

func driveC14(args []string) error {
	fl := flag.NewFlagSet("drive-c14", flag.ExitOnError)
	outDir := fl.String("out", ".", "output directory")
	nsh := fl.Int("shards", 8, "trace files per kind")
	fl.Parse(args)
	dec, err := newShards(*outDir, "dec", *nsh)
	if err != nil {
		return err
	}
	rend, err := newShards(*outDir, "rend", *nsh)
	if err != nil {
		return err
	}
	rng := newRand(14)
	stats := map[string]int{}

	// graphics
	sugg := defaultPal()
	sugg[0] = color.RGBA{0x10, 0x20, 0x30, 0xff}
	sugg[5] = color.RGBA{0x40, 0x00, 0x00, 0x80}
	sugg[63] = color.RGBA{0xff, 0xff, 0x00, 0xff}
	build := func(custom bool, f func(e *encode.Encoder)) []byte {
		var e encode.Encoder
		if custom {
			e.Reset(ivg.ViewBox{MinX: -32, MinY: -32, MaxX: 32, MaxY: 32}, sugg)
		}
		f(&e)
		b, err := e.Bytes()
		if err != nil {
			panic(err)
		}
		return append([]byte(nil), b...)
	}
	tri := func(e *encode.Encoder, adj uint8) {
		e.StartPath(adj, -8, -8)
		e.AbsLineTo(8, -8)
		e.AbsLineTo(0, 8)
		e.ClosePathEndPath()
	}
	var graphics [][]byte
	for _, custom := range []bool{false, true} {
		for _, i := range []uint8{0, 5, 63} {
			graphics = append(graphics,
				build(custom, func(e *encode.Encoder) { e.SetCSel(i); tri(e, 0) }), // initial CREG content
				build(custom, func(e *encode.Encoder) { // register write of customPalette[i], after CREG[i] itself was overwritten
					e.SetCSel(i)
					e.SetCReg(0, false, ivg.RGBAColor(color.RGBA{0, 0x80, 0, 0xff}))
					e.SetCSel(20)
					e.SetCReg(0, false, ivg.PaletteIndexColor(i))
					tri(e, 0)
				}),
				build(custom, func(e *encode.Encoder) { // CREG[i] overwritten, painted, then loaded again from customPalette[i] - the same index
					e.SetCSel(i)
					e.SetCReg(0, false, ivg.RGBAColor(color.RGBA{0x80, 0, 0, 0xff}))
					tri(e, 0)
					e.SetCReg(0, false, ivg.PaletteIndexColor(i))
					tri(e, 0)
					e.SetCSel(i + 3)
					e.SetCReg(3, false, ivg.RGBAColor(color.RGBA{0, 0, 0x80, 0xff}))
					e.SetCReg(3, false, ivg.PaletteIndexColor(i)) // the same, through an adjustment
					tri(e, 3)
				}),
				build(custom, func(e *encode.Encoder) { // inside a blend, both operand positions
					e.SetCSel(2)
					e.SetCReg(1, false, ivg.BlendColor(0x40, 0x80|i, 0x85))
					e.SetCReg(0, false, ivg.BlendColor(0xc0, 0x7f, 0x80|i))
					tri(e, 1)
					tri(e, 0)
				}))
		}
	}
	// graphics that consist of metadata only (no instruction at all): Reset is still delivered, with the palette the
	// options produce
	graphics = append(graphics, build(false, func(e *encode.Encoder) {}), build(true, func(e *encode.Encoder) {}))
	// colours of several models; the spec is told the standard library's conversion
	type colCase struct {
		name string
		c    color.Color
	}
	cols := []colCase{
		{"opaque", color.RGBA{0x30, 0x66, 0x07, 0xff}},
		{"translucent", color.RGBA{0x20, 0x40, 0x10, 0x80}},
		{"transparent", color.RGBA{}},
		{"gradient-looking", color.RGBA{0x02, 0x4a, 0x8a, 0x00}},
		{"invalid", color.RGBA{0x00, 0x99, 0x00, 0x88}},
		{"invalid-alpha0", color.RGBA{0x01, 0x00, 0x00, 0x00}},
		{"invalid-alpha0-b", color.RGBA{0x10, 0x20, 0x7f, 0x00}},
		{"invalid-alpha1", color.RGBA{0x02, 0x01, 0x00, 0x01}},
		{"rgba64-invalid-alpha0", color.RGBA64{0x0100, 0, 0, 0}},
		{"nrgba", color.NRGBA{0xff, 0x80, 0x40, 0x7f}},
		{"nrgba-opaque", color.NRGBA{0x12, 0x34, 0x56, 0xff}},
		{"gray", color.Gray{0x7b}},
		{"rgba64", color.RGBA64{0x1234, 0x2345, 0x0fed, 0x8765}},
		{"nrgba64", color.NRGBA64{0xfedc, 0x1357, 0x8000, 0x9bdf}},
		{"alpha16", color.Alpha16{0x4321}},
		{"gray16", color.Gray16{0xabcd}},
		{"ycbcr", color.YCbCr{120, 60, 200}},
		{"custom", grayish{0xbeef}},
		{"rgba64-invalid", color.RGBA64{0x8000, 0x0100, 0x9000, 0x1000}},
		{"rgba64-gradient-looking", color.RGBA64{0x0200, 0x4a00, 0x8a00, 0x0000}},
		{"ptr-rgba-invalid", &color.RGBA{0x00, 0x99, 0x00, 0x88}},
		// 16-bit colours whose channels exceed alpha only in the low byte: the palette entry (8 bits per channel) is valid
		{"rgba64-lowbyte-above-alpha", color.RGBA64{0x8001, 0x8000, 0x7fff, 0x8000}},
		{"rgba64-lowbyte-above-alpha-b", color.RGBA64{0x12ff, 0x0000, 0x1234, 0x1200}},
		{"custom-invalid", nonsense{}},
	}
	fullA, fullB := defaultPal(), defaultPal()
	for i := range fullA {
		fullA[i] = color.RGBA{uint8(i), uint8(2 * i), uint8(3 * i), 0xff}
		a := uint8(rng.Intn(256))
		fullB[i] = color.RGBA{uint8(rng.Intn(int(a) + 1)), uint8(rng.Intn(int(a) + 1)), uint8(rng.Intn(int(a) + 1)), a}
	}
	fullB[0] = color.RGBA{0x02, 0x4a, 0x8a, 0x00} // gradient-looking user entry
	fullB[5] = color.RGBA{0x00, 0x99, 0x00, 0x88} // non-premultiplied user entry
	fullB[63] = color.RGBA{0x80, 0x00, 0x00, 0x40}
	fullB[1] = color.RGBA{0x01, 0x00, 0x00, 0x00} // alpha 0 with colour, not gradient-shaped

	type opt struct {
		o decode.DecodeOption
		j interface{}
	}
	mkAt := func(i int, c colCase) opt {
		conv := color.RGBAModel.Convert(c.c).(color.RGBA)
		return opt{decode.WithColorAt(i, c.c), map[string]interface{}{"k": "at", "i": i, "c": rgbaJ(conv), "pal": [][4]int{}, "model": c.name}}
	}
	mkPal := func(p *[64]color.RGBA) opt {
		return opt{decode.WithPalette(*p), map[string]interface{}{"k": "pal", "i": 0, "c": [4]int{}, "pal": palJ(*p)}}
	}
	// an option written by the caller (DecodeOption is an exported function type): it stores a colour in the palette
	// directly, or replaces the palette wholesale - whatever an option leaves behind is sanitised before Reset
	mkOwnAt := func(i int, c color.RGBA) opt {
		return opt{func(m *ivg.Metadata) { m.Palette[i] = c }, map[string]interface{}{"k": "at", "i": i, "c": rgbaJ(c), "pal": [][4]int{}, "model": "caller-written option"}}
	}
	mkOwnPal := func(p *[64]color.RGBA) opt {
		q := *p
		return opt{func(m *ivg.Metadata) { m.Palette = q }, map[string]interface{}{"k": "pal", "i": 0, "c": [4]int{}, "pal": palJ(q)}}
	}
	var atoms []func() opt
	for _, i := range []int{0, 5, 63} {
		i := i
		atoms = append(atoms, func() opt {
			if rng.Intn(5) == 0 {
				own := []color.RGBA{{0x02, 0x4a, 0x8a, 0x00}, {0xff, 0x00, 0x00, 0x80}, {0x30, 0x66, 0x07, 0xff}, {0x01, 0x00, 0x00, 0x00}, {0x20, 0x40, 0x10, 0x80}}
				return mkOwnAt(i, own[rng.Intn(len(own))])
			}
			return mkAt(i, cols[rng.Intn(len(cols))])
		})
	}
	atoms = append(atoms, func() opt { return mkPal(&fullA) }, func() opt {
		if rng.Intn(3) == 0 {
			return mkOwnPal(&fullB)
		}
		return mkPal(&fullB)
	})
	// a full replacement that happens to equal the default palette: it still discards everything before it
	fullBlack := defaultPal()
	atoms = append(atoms, func() opt { return mkPal(&fullBlack) })

	var shared *tracedRenderer
	sharedUses := 0
	run := func(id string, g []byte, opts []opt) {
		a0, b0 := fullA, fullB
		var dopts []decode.DecodeOption
		var jopts []interface{}
		for _, o := range opts {
			dopts = append(dopts, o.o)
			jopts = append(jopts, o.j)
		}
		fl := decFlags{others: false, render: true, opts: dopts, optsJ: jopts, rect: image.Rect(0, 0, 64, 64)}
		nc, acc := traceDecode(dec.Next(), id, g, fl)
		count(stats, "options", nc, acc)
		// the same decode into a traced Renderer; one Renderer (and rasteriser) serves eight consecutive decodes
		if shared == nil || sharedUses >= 8 {
			shared = newTracedRenderer(rend.Next(), id, image.Rect(0, 0, 64, 64))
			shared.trim = true
			sharedUses = 0
		}
		sharedUses++
		t := shared
		rec := &Recorder{OnCall: func(c *Call) { t.do(*c) }, Limit: 1}
		if err := decode.Decode(rec, g, dopts...); err != nil {
			stats["options.renderr"]++
		}
		if a0 != fullA || b0 != fullB {
			// the caller's palette arrays were written to: report as a modified input
			w := dec.Next()
			w.Emit(srcEv{Ev: "src", ID: id + "/caller-palette-modified", B: bytesJ(g), Opts: []interface{}{}})
			w.Emit(endEv{Ev: "end", OK: 1, Unchanged: 0, NCalls: 0})
			fullA, fullB = a0, b0
		}
	}
	// every option colour model at every index, alone; the graphics follow each other under the same option
	// list, so that a reused Renderer sees an identical palette after registers were overwritten
	for _, c := range cols {
		for _, i := range []int{0, 5, 63} {
			o := mkAt(i, c)
			for gi, g := range graphics {
				if (gi+i)%3 == 0 || gi%3 == 1 || thorough() {
					run(fmt.Sprintf("opt/%d/at%d/%s", gi, i, c.name), g, []opt{o})
				}
			}
		}
	}
	for round := 0; round < 2; round++ {
		for gi, g := range graphics {
			run(fmt.Sprintf("opt/%d/none/%d", gi, round), g, nil)
		}
		for gi := len(graphics) - 1; gi >= 0; gi-- {
			run(fmt.Sprintf("opt/%d/fullA/%d", gi, round), graphics[gi], []opt{mkPal(&fullA)})
		}
	}
	// one option list with spare capacity, decoded with as its first one, two, three entries in turn (round 10): the
	// caller's slice is an input - what lies beyond the length handed over is not Decode's to write
	for k := 0; k < 12; k++ {
		base := make([]opt, 3, 8)
		for i := range base {
			base[i] = atoms[(k+2*i)%len(atoms)]()
		}
		dbase := make([]decode.DecodeOption, 3, 8)
		jbase := make([]interface{}, 3, 8)
		for i := range base {
			dbase[i], jbase[i] = base[i].o, base[i].j
		}
		g := graphics[k%len(graphics)]
		for _, n := range []int{1, 2, 3, 0, 3} {
			fl := decFlags{others: false, render: true, opts: dbase[:n], optsJ: jbase[:n], rect: image.Rect(0, 0, 64, 64)}
			nc, acc := traceDecode(dec.Next(), fmt.Sprintf("opt/shared-backing/%d/first%d", k, n), g, fl)
			count(stats, "options", nc, acc)
			stats["options.shared_backing"]++
		}
	}
	// all option lists of length <= 3 over the five atoms (colour models drawn at random)
	for gi, g := range graphics {
		if !thorough() && gi%3 != int(seed()%3) {
			continue
		}
		maxLen := 3
		if thorough() {
			maxLen = 4
		}
		for l := 1; l <= maxLen; l++ {
			total := 1
			for k := 0; k < l; k++ {
				total *= len(atoms)
			}
			for c := 0; c < total; c++ {
				var opts []opt
				x := c
				for k := 0; k < l; k++ {
					opts = append(opts, atoms[x%len(atoms)]())
					x /= len(atoms)
				}
				run(fmt.Sprintf("opt/%d/list%d/%d", gi, l, c), g, opts)
			}
		}
	}
	// longer random lists over every palette index (duplicates, overrides before and after full replacements)
	nrand := 120
	if thorough() {
		nrand = 6000
	}
	for r := 0; r < nrand; r++ {
		var opts []opt
		for k := 1 + rng.Intn(8); k > 0; k-- {
			switch rng.Intn(6) {
			case 0:
				opts = append(opts, mkPal(&fullA))
			case 1:
				opts = append(opts, mkPal(&fullB))
			default:
				opts = append(opts, mkAt([]int{0, 5, 63, rng.Intn(64), rng.Intn(64)}[rng.Intn(5)], cols[rng.Intn(len(cols))]))
			}
		}
		run(fmt.Sprintf("opt/%d/random/%d", r%len(graphics), r), graphics[r%len(graphics)], opts)
	}
	n1, _ := dec.Close()
	n2, _ := rend.Close()
	summary(map[string]interface{}{"dec_events": n1, "rend_events": n2, "stats": stats, "graphics": len(graphics)})
	return nil
}
