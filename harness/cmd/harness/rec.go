package main

import (
	"image"
	"image/color"
	"reflect"
	"unsafe"

	"github.com/reactivego/ivg"
)

// Call is one Destination call in the uniform shape the trace specifications
// read: op name, ADJ, incr flag, float arguments in declaration order, colour
// as [type, R, G, B, A], arc flags [largeArc, sweep], palette (Reset only).
type Call struct {
	Op   string   `json:"op"`
	Adj  int      `json:"adj"`
	Incr int      `json:"incr"`
	F    []F      `json:"f"`
	C    []int    `json:"c"`
	Fl   []int    `json:"fl"`
	Pal  [][4]int `json:"pal,omitempty"`
	Sel  int      `json:"sel"`
}

func mk(op string, fs ...float32) Call {
	c := Call{Op: op, F: make([]F, len(fs)), C: []int{}, Fl: []int{}}
	for i, f := range fs {
		c.F[i] = f32j(f)
	}
	return c
}

// colorJ projects an ivg.Color (private fields typ, data) without using any
// ivg semantics: it reads the two fields through reflection/unsafe.
func colorJ(c ivg.Color) []int {
	v := reflect.ValueOf(&c).Elem()
	typ := *(*uint8)(unsafe.Pointer(v.Field(0).UnsafeAddr()))
	d := *(*color.RGBA)(unsafe.Pointer(v.Field(1).UnsafeAddr()))
	return []int{int(typ), int(d.R), int(d.G), int(d.B), int(d.A)}
}

func rgbaJ(c color.RGBA) [4]int { return [4]int{int(c.R), int(c.G), int(c.B), int(c.A)} }

func palJ(p [64]color.RGBA) [][4]int {
	r := make([][4]int, 64)
	for i, c := range p {
		r[i] = rgbaJ(c)
	}
	return r
}

// Recorder is an ivg.Destination that records every call. CSel/NSel reads are
// answered from a trivially maintained pair of fields (last SetCSel/SetNSel
// argument), and are not recorded (the decoder never calls them).
type Recorder struct {
	Calls      []Call
	cSel, nSel uint8
	Limit      int // stop recording (but keep counting) beyond this many calls; 0 = unlimited
	N          int
	OnCall     func(c *Call) // optional
}

func (r *Recorder) add(c Call) {
	r.N++
	if r.OnCall != nil {
		r.OnCall(&c)
	}
	if r.Limit == 0 || len(r.Calls) < r.Limit {
		r.Calls = append(r.Calls, c)
	}
}

func (r *Recorder) Reset(vb ivg.ViewBox, pal [64]color.RGBA) {
	c := mk("Reset", vb.MinX, vb.MinY, vb.MaxX, vb.MaxY)
	c.Pal = palJ(pal)
	r.cSel, r.nSel = 0, 0
	r.add(c)
}
func (r *Recorder) CSel() uint8 { return r.cSel }
func (r *Recorder) NSel() uint8 { return r.nSel }
func (r *Recorder) SetCSel(s uint8) {
	r.cSel = s
	c := mk("SetCSel")
	c.Sel = int(s)
	r.add(c)
}
func (r *Recorder) SetNSel(s uint8) {
	r.nSel = s
	c := mk("SetNSel")
	c.Sel = int(s)
	r.add(c)
}
func (r *Recorder) SetCReg(adj uint8, incr bool, col ivg.Color) {
	c := mk("SetCReg")
	c.Adj, c.Incr, c.C = int(adj), b2i(incr), colorJ(col)
	r.add(c)
}
func (r *Recorder) SetNReg(adj uint8, incr bool, f float32) {
	c := mk("SetNReg", f)
	c.Adj, c.Incr = int(adj), b2i(incr)
	r.add(c)
}
func (r *Recorder) SetLOD(l0, l1 float32) { r.add(mk("SetLOD", l0, l1)) }
func (r *Recorder) StartPath(adj uint8, x, y float32) {
	c := mk("StartPath", x, y)
	c.Adj = int(adj)
	r.add(c)
}
func (r *Recorder) ClosePathEndPath()               { r.add(mk("ClosePathEndPath")) }
func (r *Recorder) ClosePathAbsMoveTo(x, y float32) { r.add(mk("ClosePathAbsMoveTo", x, y)) }
func (r *Recorder) ClosePathRelMoveTo(x, y float32) { r.add(mk("ClosePathRelMoveTo", x, y)) }
func (r *Recorder) AbsHLineTo(x float32)            { r.add(mk("AbsHLineTo", x)) }
func (r *Recorder) RelHLineTo(x float32)            { r.add(mk("RelHLineTo", x)) }
func (r *Recorder) AbsVLineTo(y float32)            { r.add(mk("AbsVLineTo", y)) }
func (r *Recorder) RelVLineTo(y float32)            { r.add(mk("RelVLineTo", y)) }
func (r *Recorder) AbsLineTo(x, y float32)          { r.add(mk("AbsLineTo", x, y)) }
func (r *Recorder) RelLineTo(x, y float32)          { r.add(mk("RelLineTo", x, y)) }
func (r *Recorder) AbsSmoothQuadTo(x, y float32)    { r.add(mk("AbsSmoothQuadTo", x, y)) }
func (r *Recorder) RelSmoothQuadTo(x, y float32)    { r.add(mk("RelSmoothQuadTo", x, y)) }
func (r *Recorder) AbsQuadTo(x1, y1, x, y float32)  { r.add(mk("AbsQuadTo", x1, y1, x, y)) }
func (r *Recorder) RelQuadTo(x1, y1, x, y float32)  { r.add(mk("RelQuadTo", x1, y1, x, y)) }
func (r *Recorder) AbsSmoothCubeTo(x2, y2, x, y float32) {
	r.add(mk("AbsSmoothCubeTo", x2, y2, x, y))
}
func (r *Recorder) RelSmoothCubeTo(x2, y2, x, y float32) {
	r.add(mk("RelSmoothCubeTo", x2, y2, x, y))
}
func (r *Recorder) AbsCubeTo(x1, y1, x2, y2, x, y float32) {
	r.add(mk("AbsCubeTo", x1, y1, x2, y2, x, y))
}
func (r *Recorder) RelCubeTo(x1, y1, x2, y2, x, y float32) {
	r.add(mk("RelCubeTo", x1, y1, x2, y2, x, y))
}
func (r *Recorder) AbsArcTo(rx, ry, rot float32, la, sw bool, x, y float32) {
	c := mk("AbsArcTo", rx, ry, rot, x, y)
	c.Fl = []int{b2i(la), b2i(sw)}
	r.add(c)
}
func (r *Recorder) RelArcTo(rx, ry, rot float32, la, sw bool, x, y float32) {
	c := mk("RelArcTo", rx, ry, rot, x, y)
	c.Fl = []int{b2i(la), b2i(sw)}
	r.add(c)
}

var _ ivg.Destination = (*Recorder)(nil)

// apply replays a recorded/generated Call onto any Destination.
func apply(d ivg.Destination, c *Call) {
	f := func(i int) float32 { return c.F[i].float() }
	switch c.Op {
	case "Reset":
		var p [64]color.RGBA
		for i := range p {
			if i < len(c.Pal) {
				p[i] = color.RGBA{uint8(c.Pal[i][0]), uint8(c.Pal[i][1]), uint8(c.Pal[i][2]), uint8(c.Pal[i][3])}
			}
		}
		d.Reset(ivg.ViewBox{MinX: f(0), MinY: f(1), MaxX: f(2), MaxY: f(3)}, p)
	case "CSel":
		d.CSel()
	case "NSel":
		d.NSel()
	case "SetCSel":
		d.SetCSel(uint8(c.Sel))
	case "SetNSel":
		d.SetNSel(uint8(c.Sel))
	case "SetCReg":
		d.SetCReg(uint8(c.Adj), c.Incr != 0, mkColor(c.C))
	case "SetNReg":
		d.SetNReg(uint8(c.Adj), c.Incr != 0, f(0))
	case "SetLOD":
		d.SetLOD(f(0), f(1))
	case "StartPath":
		d.StartPath(uint8(c.Adj), f(0), f(1))
	case "ClosePathEndPath":
		d.ClosePathEndPath()
	case "ClosePathAbsMoveTo":
		d.ClosePathAbsMoveTo(f(0), f(1))
	case "ClosePathRelMoveTo":
		d.ClosePathRelMoveTo(f(0), f(1))
	case "AbsHLineTo":
		d.AbsHLineTo(f(0))
	case "RelHLineTo":
		d.RelHLineTo(f(0))
	case "AbsVLineTo":
		d.AbsVLineTo(f(0))
	case "RelVLineTo":
		d.RelVLineTo(f(0))
	case "AbsLineTo":
		d.AbsLineTo(f(0), f(1))
	case "RelLineTo":
		d.RelLineTo(f(0), f(1))
	case "AbsSmoothQuadTo":
		d.AbsSmoothQuadTo(f(0), f(1))
	case "RelSmoothQuadTo":
		d.RelSmoothQuadTo(f(0), f(1))
	case "AbsQuadTo":
		d.AbsQuadTo(f(0), f(1), f(2), f(3))
	case "RelQuadTo":
		d.RelQuadTo(f(0), f(1), f(2), f(3))
	case "AbsSmoothCubeTo":
		d.AbsSmoothCubeTo(f(0), f(1), f(2), f(3))
	case "RelSmoothCubeTo":
		d.RelSmoothCubeTo(f(0), f(1), f(2), f(3))
	case "AbsCubeTo":
		d.AbsCubeTo(f(0), f(1), f(2), f(3), f(4), f(5))
	case "RelCubeTo":
		d.RelCubeTo(f(0), f(1), f(2), f(3), f(4), f(5))
	case "AbsArcTo":
		d.AbsArcTo(f(0), f(1), f(2), c.Fl[0] != 0, c.Fl[1] != 0, f(3), f(4))
	case "RelArcTo":
		d.RelArcTo(f(0), f(1), f(2), c.Fl[0] != 0, c.Fl[1] != 0, f(3), f(4))
	default:
		panic("apply: unknown op " + c.Op)
	}
}

// mkColor builds an ivg.Color from [type, R, G, B, A] with the public constructors.
func mkColor(c []int) ivg.Color {
	switch c[0] {
	case 0:
		return ivg.RGBAColor(color.RGBA{uint8(c[1]), uint8(c[2]), uint8(c[3]), uint8(c[4])})
	case 1:
		return ivg.PaletteIndexColor(uint8(c[1]))
	case 2:
		return ivg.CRegColor(uint8(c[1]))
	default:
		return ivg.BlendColor(uint8(c[1]), uint8(c[2]), uint8(c[3]))
	}
}

// ---- recording rasterizer -------------------------------------------------------

// RCall is one mutating rasteriser call. Kinds: Reset MoveTo LineTo QuadTo
// CubeTo ClosePath Draw. Pen/Size/Bounds are queries and are not recorded.
type RCall struct {
	K   string      `json:"k"`
	F   []F         `json:"f"`             // float32 arguments (bit pairs)
	I   []int       `json:"i,omitempty"`   // Reset: w,h   Draw: r.Min.X, r.Min.Y, r.Max.X, r.Max.Y, sp.X, sp.Y
	Src interface{} `json:"src,omitempty"` // Draw: projected paint
	img image.Image
}

// RecRaster implements raster.Rasterizer with the pen semantics of
// golang.org/x/image/vector (Reset zeroes pen and first; MoveTo sets both;
// ClosePath is a line back to first) and records calls.
type RecRaster struct {
	Calls          []RCall
	w, h           int
	penX, penY     float32
	firstX, firstY float32
	N              int
	Limit          int
}

func (z *RecRaster) add(c RCall) {
	z.N++
	if z.Limit == 0 || len(z.Calls) < z.Limit {
		z.Calls = append(z.Calls, c)
	}
}
func fs(v ...float32) []F {
	r := make([]F, len(v))
	for i, x := range v {
		r[i] = f32j(x)
	}
	return r
}
func (z *RecRaster) Reset(w, h int) {
	z.w, z.h = w, h
	z.penX, z.penY, z.firstX, z.firstY = 0, 0, 0, 0
	z.add(RCall{K: "Reset", F: []F{}, I: []int{w, h}})
}
func (z *RecRaster) Size() image.Point       { return image.Point{z.w, z.h} }
func (z *RecRaster) Bounds() image.Rectangle { return image.Rect(0, 0, z.w, z.h) }
func (z *RecRaster) Pen() (x, y float32)     { return z.penX, z.penY }
func (z *RecRaster) MoveTo(ax, ay float32) {
	z.penX, z.penY, z.firstX, z.firstY = ax, ay, ax, ay
	z.add(RCall{K: "MoveTo", F: fs(ax, ay)})
}
func (z *RecRaster) LineTo(bx, by float32) {
	z.penX, z.penY = bx, by
	z.add(RCall{K: "LineTo", F: fs(bx, by)})
}
func (z *RecRaster) QuadTo(bx, by, cx, cy float32) {
	z.penX, z.penY = cx, cy
	z.add(RCall{K: "QuadTo", F: fs(bx, by, cx, cy)})
}
func (z *RecRaster) CubeTo(bx, by, cx, cy, dx, dy float32) {
	z.penX, z.penY = dx, dy
	z.add(RCall{K: "CubeTo", F: fs(bx, by, cx, cy, dx, dy)})
}
func (z *RecRaster) ClosePath() {
	z.penX, z.penY = z.firstX, z.firstY
	z.add(RCall{K: "ClosePath", F: []F{}})
}
func (z *RecRaster) Draw(r image.Rectangle, src image.Image, sp image.Point) {
	z.add(RCall{K: "Draw", F: []F{}, I: []int{r.Min.X, r.Min.Y, r.Max.X, r.Max.Y, sp.X, sp.Y},
		Src: paintJ(src), img: src})
}

func defaultPal() [64]color.RGBA {
	var p [64]color.RGBA
	for i := range p {
		p[i] = color.RGBA{0, 0, 0, 0xff}
	}
	return p
}

func rgbaOf(c []int) color.RGBA {
	return color.RGBA{uint8(c[1]), uint8(c[2]), uint8(c[3]), uint8(c[4])}
}

type colorRGBA = color.RGBA
