package main

import (
	"bytes"
	"flag"
	"image/color"
	"math"

	"github.com/reactivego/ivg"
	"github.com/reactivego/ivg/decode"
	"github.com/reactivego/ivg/encode"
)

// C08 driver: number encodings through every public path that writes or reads
// a number (plus the verif-tagged wrappers for the raw codecs). Every event is
// independent:  {ev, kind, path, v|u, b, ...}.  The harness only slices byte
// strings at fixed, documented offsets; all judging is done by TV_Numbers.tla.

type numEv struct {
	Ev   string `json:"ev"`   // enc | encnat | dec | reenc | quant | angle
	Kind string `json:"kind"` // natural real coordinate zeroToOne any
	Path string `json:"path"`
	V    F      `json:"v"`
	U    int    `json:"u"`
	B    []int  `json:"b"`
	B2   []int  `json:"b2"`
	Cnt  int    `json:"cnt"` // how many numbers b holds
	Op   int    `json:"op"`  // SetNReg: the opcode byte chosen
	OK   int    `json:"ok"`  // dec: 1 = accepted
	N    int    `json:"n"`   // dec (hook): bytes consumed
}

func init() { register("drive-c08", driveC08) }

var magic00 = []byte{0x89, 0x49, 0x56, 0x47, 0x00}

// encBytes runs f on a fresh Encoder and returns the bytes it appended after
// the 5-byte default header.
func encTail(f func(e *encode.Encoder)) []byte {
	var e encode.Encoder
	f(&e)
	b, err := e.Bytes()
	if err != nil {
		panic(err)
	}
	if !bytes.HasPrefix(b, magic00) {
		panic("unexpected header")
	}
	return append([]byte(nil), b[5:]...)
}

// special marks the boundary values that are driven through every public path
var special = map[uint32]bool{}

func interestingFloats(r interface{ Uint32() uint32 }, nRandom int) []uint32 {
	seen := map[uint32]bool{}
	var out []uint32
	add := func(u uint32) {
		for _, d := range []int32{0, -1, 1, -2, 2, -3, 3, 4, -4} {
			w := uint32(int32(u) + d)
			if !seen[w] {
				seen[w] = true
				out = append(out, w)
			}
		}
	}
	// every sign/exponent with boundary mantissas
	mans := []uint32{0, 1, 2, 3, 4, 5, 6, 7, 8, 0x3ffffc, 0x400000, 0x400001, 0x7ffff8, 0x7ffffc, 0x7ffffd, 0x7ffffe, 0x7fffff,
		0x555555, 0x2aaaaa, 0x100000, 0x200003, 0x600002}
	for s := uint32(0); s < 2; s++ {
		for e := uint32(0); e < 256; e++ {
			for _, m := range mans {
				u := s<<31 | e<<23 | m
				if !seen[u] {
					seen[u] = true
					out = append(out, u)
				}
			}
		}
	}
	// short-form neighbourhoods
	step := 1
	if !thorough() {
		step = 7
	}
	for k := -8300; k <= 8300; k += step {
		add(math.Float32bits(float32(k) / 64))
	}
	for k := 0; k <= 16500; k += step {
		add(math.Float32bits(float32(k)))
	}
	for u := 0; u <= 15200; u += step {
		add(math.Float32bits(float32(u) / 15120))
	}
	for u := 0; u <= 130; u++ {
		add(math.Float32bits(float32(u) / 120))
	}
	for _, f := range []float32{-64, 63, 64, -65, -128, 127.984375, 128, -128.015625, 127, 16383, 16384, 1 << 24, 1 << 30, 1 << 31, 4294967296,
		-1, -0.5, 0.5, 0.25, 1.0 / 3, 1e-38, 1e38, 3.4028235e38, 1e-45, 0.3, 0.1, 11.05, 8.95, 129, 255, 256, 16382, 16385, 0.0078125, 126, 7.5} {
		add(math.Float32bits(f))
		add(math.Float32bits(-f))
		for _, d := range []int32{0, -1, 1} {
			special[uint32(int32(math.Float32bits(f))+d)] = true
			special[uint32(int32(math.Float32bits(-f))+d)] = true
		}
	}
	for _, u := range []uint32{0x7f7fffff, 0x7f7ffffe, 0x7f7ffffd, 0xff7fffff, 0xff7ffffe, 0x7f800000, 0xff800000, 0x7fc00000, 0x007fffff, 0x00800000, 0x807fffff, 0x3f7fffff, 0x3f7ffffe, 0x3f800001} {
		add(u)
		special[u] = true
	}
	for k := 0; k < 32; k++ {
		add(math.Float32bits(float32(uint64(1) << uint(k))))
		add(math.Float32bits(float32(uint64(1)<<uint(k)) + 1))
		add(math.Float32bits(float32(uint64(1)<<uint(k)) - 1))
	}
	for i := 0; i < nRandom; i++ {
		u := r.Uint32()
		switch i % 4 {
		case 1: // moderate magnitudes
			u = u&0x807fffff | (uint32(110+int(u>>23&0x1f)) << 23)
		case 2: // multiples of 1/64 in range, with a few low mantissa bits of noise or none
			k := int32(u%20000) - 10000
			u = math.Float32bits(float32(k) / 64)
			if i%8 == 2 {
				u += (r.Uint32() % 3)
			}
		}
		if !seen[u] {
			seen[u] = true
			out = append(out, u)
		}
	}
	return out
}

func driveC08(args []string) error {
	fl := flag.NewFlagSet("drive-c08", flag.ExitOnError)
	outDir := fl.String("out", ".", "output directory")
	shards := fl.Int("shards", 16, "number of trace files")
	nRandom := fl.Int("random", 20000, "random float32 patterns")
	fl.Parse(args)
	sh, err := newShards(*outDir, "c08", *shards)
	if err != nil {
		return err
	}
	rng := newRand(8)
	emit := func(e numEv) {
		if e.B == nil {
			e.B = []int{}
		}
		if e.B2 == nil {
			e.B2 = []int{}
		}
		sh.Next().Emit(e)
	}
	counts := map[string]int{}

	floats := interestingFloats(rng, *nRandom)

	// ---- encoders, per float ------------------------------------------------
	for i, u := range floats {
		v := fromBits(u)
		vj := f32j(v)
		// raw codecs (hook)
		emit(numEv{Ev: "enc", Kind: "real", Path: "hook", V: vj, B: bytesJ(encode.VerifEncodeReal(v)), Cnt: 1})
		emit(numEv{Ev: "enc", Kind: "coordinate", Path: "hook", V: vj, B: bytesJ(encode.VerifEncodeCoordinate(v)), Cnt: 1})
		emit(numEv{Ev: "enc", Kind: "zeroToOne", Path: "hook", V: vj, B: bytesJ(encode.VerifEncodeZeroToOne(v)), Cnt: 1})
		counts["enc.hook"] += 3
		// public paths; rotate so that every path sees every class over the run, and all paths on a subset
		all := i%5 == 0 || special[u] || thorough() && i%2 == 0
		if all || i%5 == 1 {
			// SetLOD(v, v): c7 real real
			t := encTail(func(e *encode.Encoder) { e.SetLOD(v, v) })
			emit(numEv{Ev: "enc", Kind: "real", Path: "SetLOD", V: vj, B: bytesJ(t[1:]), Cnt: 2, Op: int(t[0])})
			counts["enc.SetLOD"]++
		}
		if all || i%5 == 2 {
			// SetNReg(0,false,v): opcode (a8 real | b0 coordinate | b8 zero-to-one) then the shortest of the three
			t := encTail(func(e *encode.Encoder) { e.SetNReg(0, false, v) })
			emit(numEv{Ev: "enc", Kind: "any", Path: "SetNReg", V: vj, B: bytesJ(t[1:]), Cnt: 1, Op: int(t[0])})
			counts["enc.SetNReg"]++
		}
		if all || i%5 == 3 {
			// high-resolution StartPath(0, v, v): c0 coord coord
			t := encTail(func(e *encode.Encoder) {
				e.HighResolutionCoordinates = true
				e.StartPath(0, v, v)
			})
			emit(numEv{Ev: "enc", Kind: "coordinate", Path: "StartPath.hires", V: vj, B: bytesJ(t[1:]), Cnt: 2, Op: int(t[0])})
			// high-resolution line inside a path: c0 80 80 | 00 coord coord | e1
			t = encTail(func(e *encode.Encoder) {
				e.HighResolutionCoordinates = true
				e.StartPath(0, 0, 0)
				e.AbsLineTo(v, v)
				e.ClosePathEndPath()
			})
			emit(numEv{Ev: "enc", Kind: "coordinate", Path: "AbsLineTo.hires", V: vj, B: bytesJ(t[4 : len(t)-1]), Cnt: 2, Op: int(t[3])})
			counts["enc.coords.hires"] += 2
		}
		if all || i%5 == 4 {
			// viewBox {v,v,v,v}: magic 02 len 00 c c c c
			var e encode.Encoder
			e.Reset(ivg.ViewBox{MinX: v, MinY: v, MaxX: v, MaxY: v}, ivg.DefaultPalette)
			b, err := e.Bytes()
			if err != nil {
				return err
			}
			emit(numEv{Ev: "enc", Kind: "coordinate", Path: "viewBox", V: vj, B: bytesJ(b[7:]), Cnt: 4, Op: int(b[6])})
			counts["enc.viewBox"]++
		}
		// low-resolution quantisation: StartPath(0, v, v) and a relative cubic
		if all || i%3 == 0 {
			t := encTail(func(e *encode.Encoder) { e.StartPath(0, v, v) })
			emit(numEv{Ev: "quant", Kind: "coordinate", Path: "StartPath.lores", V: vj, B: bytesJ(t[1:]), Cnt: 2})
			t = encTail(func(e *encode.Encoder) {
				e.StartPath(0, 0, 0)
				e.RelQuadTo(v, v, v, v)
				e.ClosePathEndPath()
			})
			emit(numEv{Ev: "quant", Kind: "coordinate", Path: "RelQuadTo.lores", V: vj, B: bytesJ(t[4 : len(t)-1]), Cnt: 4})
			counts["quant"] += 2
		}
		// arc angle: c0 80 80 | c0 82 82 angle flags 82 82 | e1 ; rx=ry=x=y=1 encode as the single byte 82
		if all || i%3 == 1 {
			t := encTail(func(e *encode.Encoder) {
				e.StartPath(0, 0, 0)
				e.AbsArcTo(1, 1, v, true, false, 1, 1)
				e.ClosePathEndPath()
			})
			emit(numEv{Ev: "angle", Kind: "zeroToOne", Path: "AbsArcTo.angle", V: vj, B: bytesJ(t[6 : len(t)-4]), Cnt: 1,
				B2: bytesJ(t[len(t)-4 : len(t)-3]), U: 1})
			counts["angle"]++
		}
	}

	// ---- naturals -------------------------------------------------------------
	nats := []uint32{}
	for _, u := range []uint32{0, 1, 2, 63, 64, 126, 127, 128, 129, 255, 256, 16382, 16383, 16384, 16385, 65535, 65536,
		1<<30 - 1, 1<<30 - 2, 1 << 29, 1<<24 - 1, 1 << 24} {
		nats = append(nats, u)
	}
	for k := uint(0); k < 30; k++ {
		nats = append(nats, 1<<k, 1<<k+1, 1<<k-1)
	}
	for i := 0; i < *nRandom/4; i++ {
		u := rng.Uint32() >> 2
		switch i % 3 {
		case 1:
			u %= 20000
		case 2:
			u %= 300
		}
		nats = append(nats, u)
	}
	for _, u := range nats {
		emit(numEv{Ev: "encnat", Kind: "natural", Path: "hook", U: int(u), B: bytesJ(encode.VerifEncodeNatural(u)), Cnt: 1})
		counts["encnat.hook"]++
	}
	// arc flags through the public path (naturals 0..3)
	for la := 0; la < 2; la++ {
		for sw := 0; sw < 2; sw++ {
			t := encTail(func(e *encode.Encoder) {
				e.StartPath(0, 0, 0)
				e.RelArcTo(1, 1, 0, la != 0, sw != 0, 1, 1)
				e.ClosePathEndPath()
			})
			// c0 80 80 | d0 82 82 00 flags 82 82 | e1
			emit(numEv{Ev: "encnat", Kind: "natural", Path: "RelArcTo.flags", U: la + 2*sw, B: bytesJ(t[7 : len(t)-3]), Cnt: 1})
			counts["encnat.flags"]++
		}
	}
	// chunk length through the public path: suggested palette with n+1 four-byte colours
	for n := 0; n < 64; n++ {
		p := ivg.DefaultPalette
		for i := 0; i <= n; i++ {
			p[i] = color.RGBA{uint8(i + 1), uint8(2*i + 1), 7, 0x99} // not 1/2/3-byte encodable
		}
		var e encode.Encoder
		e.Reset(ivg.DefaultViewBox, p)
		b, err := e.Bytes()
		if err != nil {
			return err
		}
		// magic 02 | length ... ; the chunk extends to the end of the stream
		emit(numEv{Ev: "enclen", Kind: "natural", Path: "palette.chunkLength", B: bytesJ(b[5:]), Cnt: 1})
		counts["enclen"]++
	}

	// ---- decoders: every 1-byte and 2-byte pattern, strided 4-byte patterns, all truncations ----
	type decoder struct {
		kind string
		op   byte // SetNReg opcode used for the public path (0 = none)
		hook func([]byte) (F, int, int)
	}
	decs := []decoder{
		{"real", 0xa8, func(b []byte) (F, int, int) { f, n := decode.VerifDecodeReal(b); return f32j(f), 0, n }},
		{"coordinate", 0xb0, func(b []byte) (F, int, int) { f, n := decode.VerifDecodeCoordinate(b); return f32j(f), 0, n }},
		{"zeroToOne", 0xb8, func(b []byte) (F, int, int) { f, n := decode.VerifDecodeZeroToOne(b); return f32j(f), 0, n }},
		{"natural", 0, func(b []byte) (F, int, int) { u, n := decode.VerifDecodeNatural(b); return F{}, int(u), n }},
	}
	var pats [][]byte
	for x := 0; x < 256; x += 2 {
		pats = append(pats, []byte{byte(x)})
	}
	step2 := 1
	if !thorough() {
		step2 = 3
	}
	for y := 0; y < 16384; y += step2 {
		u := uint32(y)<<2 | 1
		pats = append(pats, []byte{byte(u), byte(u >> 8)})
	}
	for s := uint32(0); s < 2; s++ {
		for e := uint32(0); e < 256; e++ {
			for _, m := range []uint32{0, 4, 0x7ffffc, 0x400000, 0x2aaaa8} {
				u := s<<31 | e<<23 | m | 3
				pats = append(pats, []byte{byte(u), byte(u >> 8), byte(u >> 16), byte(u >> 24)})
			}
		}
	}
	for i := 0; i < *nRandom/2; i++ {
		u := rng.Uint32() | 3
		pats = append(pats, []byte{byte(u), byte(u >> 8), byte(u >> 16), byte(u >> 24)})
	}
	for pi, full := range pats {
		for cut := len(full); cut >= 0; cut-- {
			if cut < len(full) && pi%4 != 0 && len(full) != 4 {
				continue // truncations of a quarter of the short patterns and of all 4-byte ones
			}
			b := full[:cut]
			for di, d := range decs {
				if (pi+di)%2 == 0 || cut < len(full) || len(full) == 1 {
					var v F
					var u, n int
					o := guarded(func() error {
						v, u, n = d.hook(append(b[:len(b):len(b)], 0xee, 0xee)[:len(b)]) // capacity holds poison, length does not
						return nil
					})
					okv := b2i(n > 0)
					if o.panicv != nil || o.hang {
						okv, n = -1, -9
					}
					emit(numEv{Ev: "dec", Kind: d.kind, Path: "hook", B: bytesJ(b), V: v, U: u, N: n, OK: okv})
					counts["dec.hook"]++
				}
				if d.op != 0 && (pi+di)%2 == 1 || cut < len(full) && d.op != 0 {
					// public path: magic 00 | SetNReg opcode | b
					src := append(append([]byte{}, magic00...), d.op)
					src = append(src, b...)
					var rec Recorder
					o := guarded(func() error { return decode.Decode(&rec, src) })
					err := o.err
					ev := numEv{Ev: "dec", Kind: d.kind, Path: "SetNReg", B: bytesJ(b), N: -1}
					if o.panicv != nil || o.hang {
						ev.OK = -1 // a panic or hang of the real decoder: no specification outcome matches
					} else if err == nil && len(rec.Calls) == 2 {
						ev.OK = 1
						ev.V = rec.Calls[1].F[0]
					} else if err == nil {
						ev.OK = -2
					}
					emit(ev)
					counts["dec.SetNReg"]++
				}
			}
		}
	}

	// ---- the numbers of an arc: the rotation (a zero-to-one number, not confined to [0,1]) and the flags (a natural
	// number of any width, two low bits delivered) read through Decode ------------------------------------------------
	for pi, full := range pats {
		if len(full) == 2 && pi%16 != 0 {
			continue
		}
		for cut := len(full); cut >= 0; cut-- {
			if cut < len(full) && pi%8 != 0 {
				continue
			}
			b := full[:cut]
			for which := 0; which < 2; which++ {
				// magic 00 | StartPath 0,0 | A (one repetition) rx=1 ry=1 angle flags x=2 y=2 | z
				src := append(append([]byte{}, magic00...), 0xc0, 0x80, 0x80, 0xc0, 0x82, 0x82)
				if which == 1 {
					src = append(src, 0x50) // rotation 1/3, then the flags under test
				}
				src = append(src, b...)
				if cut == len(full) { // a cut number ends the input
					if which == 0 {
						src = append(src, 0x02) // flags: sweep
					}
					src = append(src, 0x84, 0x84, 0xe1)
				}
				var rec Recorder
				o := guarded(func() error { return decode.Decode(&rec, src) })
				ev := numEv{Ev: "dec", Kind: []string{"zeroToOne", "arcflags"}[which], Path: []string{"AbsArcTo.angle", "AbsArcTo.flags"}[which], B: bytesJ(b), N: -1}
				if o.panicv != nil || o.hang {
					ev.OK = -1
				} else if o.err == nil && len(rec.Calls) == 4 && rec.Calls[2].Op == "AbsArcTo" {
					ev.OK = 1
					ev.V = rec.Calls[2].F[2]
					ev.U = rec.Calls[2].Fl[0] + 2*rec.Calls[2].Fl[1]
				} else if o.err == nil {
					ev.OK = -2
				}
				if which == 1 {
					ev.V = F{}
				} else {
					ev.U = 0
				}
				emit(ev)
				counts["dec.arc"]++
			}
		}
	}

	// ---- a coordinate as the first operand of a repetition: directly after the opcode byte, and as the first number of
	// the second repetition of a run (a cut number there is still a cut number: the input may not end inside a run)
	for pi, full := range pats {
		if len(full) == 2 && pi%16 != 0 || len(full) == 4 && pi%4 != 0 {
			continue
		}
		for cut := len(full); cut >= 0; cut-- {
			if cut < len(full) && cut > 0 && pi%8 != 0 {
				continue
			}
			b := full[:cut]
			for which := 0; which < 2; which++ {
				// magic 00 | StartPath 0,0 | L with one / two repetitions | ... | z
				src := append(append([]byte{}, magic00...), 0xc0, 0x80, 0x80, byte(which))
				if which == 1 {
					src = append(src, 0x82, 0x84) // the first repetition: (1, 2)
				}
				src = append(src, b...)
				if cut == len(full) {
					src = append(src, 0x86, 0xe1)
				}
				var rec Recorder
				o := guarded(func() error { return decode.Decode(&rec, src) })
				ev := numEv{Ev: "dec", Kind: "coordinate", Path: []string{"AbsLineTo.x", "AbsLineTo.x(2nd repetition)"}[which], B: bytesJ(b), N: -1}
				if o.panicv != nil || o.hang {
					ev.OK = -1
				} else if o.err == nil && len(rec.Calls) == 4+which && rec.Calls[2+which].Op == "AbsLineTo" {
					ev.OK = 1
					ev.V = rec.Calls[2+which].F[0]
				} else if o.err == nil {
					ev.OK = -2
				}
				emit(ev)
				counts["dec.lineto"]++
			}
		}
	}

	// ---- re-encoding a decoded real / coordinate --------------------------------
	for pi, full := range pats {
		if pi%2 == 1 && len(full) != 4 {
			continue
		}
		for _, k := range []struct {
			kind string
			op   byte
		}{{"real", 0xa8}, {"coordinate", 0xb0}} {
			src := append(append([]byte{}, magic00...), k.op)
			src = append(src, full...)
			var rec Recorder
			o := guarded(func() error { return decode.Decode(&rec, src) })
			if o.err != nil || o.panicv != nil || o.hang || len(rec.Calls) != 2 {
				// a complete number that the real decoder does not accept: reported as a rejected dec event
				emit(numEv{Ev: "dec", Kind: k.kind, Path: "SetNReg", B: bytesJ(full), N: -1, OK: -1})
				continue
			}
			d := rec.Calls[1].F[0].float()
			var t []byte
			if k.kind == "real" {
				t = encTail(func(e *encode.Encoder) { e.SetLOD(d, d) })
			} else {
				t = encTail(func(e *encode.Encoder) {
					e.HighResolutionCoordinates = true
					e.StartPath(0, d, d)
				})
			}
			emit(numEv{Ev: "reenc", Kind: k.kind, Path: "decode->encode", B: bytesJ(full), B2: bytesJ(t[1:]), Cnt: 2})
			counts["reenc"]++
		}
	}
	n, err := sh.Close()
	if err != nil {
		return err
	}
	summary(map[string]interface{}{"events": n, "counts": counts, "floats": len(floats), "patterns": len(pats)})
	return nil
}
