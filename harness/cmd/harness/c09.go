package main

import (
	"flag"
	"fmt"
	"image"
	"image/color"
	"math"

	"github.com/reactivego/ivg"
	"github.com/reactivego/ivg/decode"
	"github.com/reactivego/ivg/encode"
	"github.com/reactivego/ivg/render"
)

// C09 driver: colours. Independent events judged by TV_Colors.tla:
//   ctx     : a palette and a register file (referenced by line number from resolve events)
//   creg    : colour written by Encoder.SetCReg -> opcode + payload bytes
//   dec     : payload bytes read by the decoder through a SetCReg opcode -> colour or error
//   resolve : Color.Resolve / Renderer.SetCReg result for a colour in a context
//   palette : suggested palette written by Encoder.Reset -> stream bytes, and what Decode delivers

type colEv struct {
	Ev   string   `json:"ev"`
	Path string   `json:"path"`
	C    []int    `json:"c"`
	Adj  int      `json:"adj"`
	Incr int      `json:"incr"`
	Op   int      `json:"op"`
	B    []int    `json:"b"`
	OK   int      `json:"ok"`
	Form int      `json:"form"`
	Ctx  int      `json:"ctx"`
	Res  [4]int   `json:"res"`
	Pal  [][4]int `json:"pal"`
	CReg [][4]int `json:"creg"`
	Got  [][4]int `json:"got"`
}

func init() { register("drive-c09", driveC09) }

func driveC09(args []string) error {
	fl := flag.NewFlagSet("drive-c09", flag.ExitOnError)
	outDir := fl.String("out", ".", "output directory")
	nsh := fl.Int("shards", 16, "trace files")
	fl.Parse(args)
	sh, err := newShards(*outDir, "c09", *nsh)
	if err != nil {
		return err
	}
	rng := newRand(9)
	counts := map[string]int{}

	// contexts: written at the top of every shard, same line numbers everywhere
	type ctxT struct {
		pal, creg [64]color.RGBA
	}
	var ctxs []ctxT
	for k := 0; k < 5; k++ {
		var c ctxT
		for i := 0; i < 64; i++ {
			switch k {
			case 4:
				// alpha 0 with non-zero channels everywhere (gradient encodings and other such values): blending two
				// of them is still the per-channel formula
				g := ivg.EncodeGradient(uint8(i), uint8(63-i), uint8(i%2), uint8(i%4), uint8(i%7))
				c.creg[i] = g
				c.pal[i] = color.RGBA{uint8(3 * i), uint8(255 - i), uint8(i | 0x80), 0}
				if i%5 == 4 {
					c.creg[i] = color.RGBA{uint8(i), uint8(2 * i), uint8(i), 0}
				}
			case 0:
				c.pal[i] = color.RGBA{0, 0, 0, 255}
				c.creg[i] = c.pal[i]
			case 1:
				a := uint8(rng.Intn(256))
				c.pal[i] = color.RGBA{uint8(rng.Intn(int(a) + 1)), uint8(rng.Intn(int(a) + 1)), uint8(rng.Intn(int(a) + 1)), a}
				a = uint8(rng.Intn(256))
				c.creg[i] = color.RGBA{uint8(rng.Intn(int(a) + 1)), uint8(rng.Intn(int(a) + 1)), uint8(rng.Intn(int(a) + 1)), a}
			case 2:
				c.pal[i] = color.RGBA{uint8(i * 4), uint8(255 - i), uint8(i), 255}
				c.creg[i] = color.RGBA{uint8(rng.Intn(256)), uint8(rng.Intn(256)), uint8(rng.Intn(256)), uint8(rng.Intn(256))} // incl. non-premultiplied / gradients
			default:
				c.pal[i] = color.RGBA{uint8(i), uint8(i), uint8(i), uint8(i)}
				c.creg[i] = color.RGBA{uint8(4 * i), 0, 0, uint8(4 * i)}
			}
		}
		ctxs = append(ctxs, c)
	}
	for _, w := range sh.ws {
		for _, c := range ctxs {
			w.Emit(colEv{Ev: "ctx", Pal: palJ(c.pal), CReg: palJ(c.creg), C: []int{}, B: []int{}, Got: [][4]int{}})
		}
	}
	emit := func(e colEv) {
		if e.C == nil {
			e.C = []int{}
		}
		if e.B == nil {
			e.B = []int{}
		}
		if e.Pal == nil {
			e.Pal = [][4]int{}
		}
		if e.CReg == nil {
			e.CReg = [][4]int{}
		}
		if e.Got == nil {
			e.Got = [][4]int{}
		}
		sh.Next().Emit(e)
		counts[e.Ev]++
	}

	// ---- register writes through the Encoder ---------------------------------------------
	writeCReg := func(c []int, adj int, incr bool) {
		t := encTail(func(e *encode.Encoder) { e.SetCReg(uint8(adj), incr, mkColor(c)) })
		emit(colEv{Ev: "creg", Path: "Encoder.SetCReg", C: c, Adj: adj, Incr: b2i(incr), Op: int(t[0]), B: bytesJ(t[1:])})
	}
	reps := []int{0x00, 0x01, 0x11, 0x3f, 0x40, 0x41, 0x7f, 0x80, 0x88, 0xc0, 0xfe, 0xff}
	if thorough() {
		reps = []int{0x00, 0x01, 0x10, 0x11, 0x12, 0x22, 0x33, 0x3f, 0x40, 0x41, 0x44, 0x55, 0x66, 0x77, 0x7f, 0x80, 0x81, 0x88, 0x99,
			0xaa, 0xbb, 0xbf, 0xc0, 0xc1, 0xcc, 0xdd, 0xee, 0xfe, 0xff}
	}
	k := 0
	for _, r := range reps {
		for _, g := range reps {
			for _, b := range reps {
				for _, a := range reps {
					k++
					writeCReg([]int{0, r, g, b, a}, k%7, false)
				}
			}
		}
	}
	// one channel fully exhaustive against a small set for the others
	small := []int{0x00, 0x40, 0x77, 0xff}
	for ch := 0; ch < 4; ch++ {
		for x := 0; x < 256; x++ {
			for _, o1 := range small {
				for _, o2 := range small {
					c := []int{0, o1, o2, o1, o2}
					c[1+ch] = x
					writeCReg(c, 0, x%2 == 0)
				}
			}
		}
	}
	nr := 20000
	if thorough() {
		nr = 2000000
	}
	for i := 0; i < nr; i++ {
		writeCReg([]int{0, rng.Intn(256), rng.Intn(256), rng.Intn(256), rng.Intn(256)}, rng.Intn(7), false)
	}
	// an Encoder that was Reset with a suggested palette holding the very colour: the colour is still written as the
	// colour (a reference to the palette entry would follow the palette the viewer substitutes)
	for k := 0; k < 6; k++ {
		var pal [64]color.RGBA
		for i := range pal {
			a := rng.Intn(256)
			if k%2 == 1 && i%3 == 0 {
				a = 255
			}
			pal[i] = color.RGBA{uint8(rng.Intn(a + 1)), uint8(rng.Intn(a + 1)), uint8(rng.Intn(a + 1)), uint8(a)}
			if k == 5 && i%4 == 1 {
				v := uint8(rng.Intn(16) * 0x11)
				pal[i] = color.RGBA{v, v, v, 0xff} // 2-byte and 1-byte colours as well
			}
		}
		for i := 0; i < 64; i++ {
			var e encode.Encoder
			e.Reset(ivg.ViewBox{MinX: -8, MinY: -8, MaxX: 8, MaxY: 8}, pal)
			b0, err := e.Bytes()
			if err != nil {
				return err
			}
			n0 := len(b0)
			c := []int{0, int(pal[i].R), int(pal[i].G), int(pal[i].B), int(pal[i].A)}
			adj := (i + k) % 7
			if i%5 == 0 {
				adj = 0 // the incrementing form has no adjustment
			}
			e.SetCReg(uint8(adj), i%5 == 0, mkColor(c))
			b1, err := e.Bytes()
			if err != nil {
				return err
			}
			t := b1[n0:]
			emit(colEv{Ev: "creg", Path: "Encoder.SetCReg/in-palette", C: c, Adj: adj, Incr: b2i(i%5 == 0), Op: int(t[0]), B: bytesJ(t[1:])})
		}
	}
	// gradient-encoding values
	for ns := 0; ns < 64; ns += 3 {
		for _, base := range []int{0, 10, 63} {
			for shape := 0; shape < 2; shape++ {
				for spread := 0; spread < 4; spread++ {
					g := ivg.EncodeGradient(uint8(base), uint8(63-base), uint8(shape), uint8(spread), uint8(ns))
					writeCReg([]int{0, int(g.R), int(g.G), int(g.B), int(g.A)}, 0, false)
				}
			}
		}
	}
	// indirect colours
	for i := 0; i < 64; i++ {
		writeCReg([]int{1, i, 0, 0, 0}, i%7, false)
		writeCReg([]int{2, i, 0, 0, 0}, 0, i%2 == 0)
	}
	for t := 0; t < 256; t++ {
		for j := 0; j < 12; j++ {
			writeCReg([]int{3, t, rng.Intn(256), rng.Intn(256), 0}, rng.Intn(7), false)
		}
	}
	// blends whose three bytes look like a 2-byte / 1-byte encodable RGBA value
	for t := 0; t < 256; t += 0x11 {
		for c0 := 0; c0 < 256; c0 += 0x11 {
			writeCReg([]int{3, t, c0, (t + c0) % 256 / 0x11 * 0x11, 0}, 0, false)
			writeCReg([]int{3, t, c0, rng.Intn(16) * 0x11, 0}, rng.Intn(7), false)
		}
	}
	for _, v := range []int{0x00, 0x40, 0x80, 0xc0, 0xff} {
		writeCReg([]int{3, v, v, v, 0}, 0, false)
		writeCReg([]int{3, v, 0xff, 0x00, 0}, 0, true)
	}
	// indirect colours whose index byte looks like a colour channel
	for _, i := range []int{0x00, 0x11, 0x22, 0x33, 0x3f} {
		writeCReg([]int{1, i, 0, 0, 0}, 0, false)
		writeCReg([]int{2, i, 0, 0, 0}, 0, false)
	}

	// ---- decoder tables -------------------------------------------------------------------
	dec := func(form int, payload []byte) {
		op := byte(0x80 + 8*form)
		src := append(append([]byte{}, magic00...), op)
		src = append(src, payload...)
		var rec Recorder
		err := decode.Decode(&rec, src)
		e := colEv{Ev: "dec", Path: "Decode(SetCReg)", Form: form, B: bytesJ(payload)}
		if err == nil && len(rec.Calls) == 2 {
			e.OK = 1
			e.C = rec.Calls[1].C
		} else if err == nil {
			e.OK = -1
		}
		emit(e)
	}
	for x := 0; x < 256; x++ {
		dec(0, []byte{byte(x)})
	}
	dec(0, nil)
	step := 5
	if thorough() {
		step = 1
	}
	for x := 0; x < 65536; x += step {
		dec(1, []byte{byte(x >> 8), byte(x)})
	}
	for i := 0; i < 4000; i++ {
		b := []byte{byte(rng.Intn(256)), byte(rng.Intn(256)), byte(rng.Intn(256)), byte(rng.Intn(256))}
		dec(2, b[:3])
		dec(3, b)
		dec(4, b[:3])
		dec(i%5, b[:rng.Intn(4)]) // mostly cut short
	}

	// ---- blends and indirections resolved ---------------------------------------------------
	nres := 0
	for ci, cx := range ctxs {
		resolve := func(c []int) {
			pal, creg := cx.pal, cx.creg
			got := mkColor(c).Resolve(&pal, &creg)
			emit(colEv{Ev: "resolve", Path: "Color.Resolve", C: c, Ctx: ci + 1, Res: rgbaJ(got)})
			// through a Renderer: Reset(palette) seeds CREG from the palette; load the register file, then store c
			if c[0] != 2 || true {
				var z render.Renderer
				z.SetRasterizer(&RecRaster{}, image.Rect(0, 0, 8, 8))
				z.Reset(ivg.DefaultViewBox, cx.pal)
				for i := 0; i < 64; i++ {
					z.SetCSel(uint8(i))
					z.SetCReg(0, false, ivg.RGBAColor(cx.creg[i]))
				}
				// store into a register the colour does not read: use CSEL = 0 with ADJ = 0 only when c does not refer to CREG[0]
				tgt := 0
				for _, cand := range []int{0, 1, 2} {
					uses := false
					if c[0] == 2 && c[1] == cand {
						uses = true
					}
					if c[0] == 3 && (c[2] >= 192 && c[2]-192 == cand || c[3] >= 192 && c[3]-192 == cand) {
						uses = true
					}
					if !uses {
						tgt = cand
						break
					}
				}
				z.SetCSel(uint8(tgt))
				path := "Renderer.SetCReg"
				nres++
				if nres%4 == 1 {
					// a level-of-detail range that excludes the target's height (8) switches drawing off, not styling: the
					// register is written all the same
					lods := [][2]float32{{0, 8}, {9, float32(math.Inf(1))}, {0, 0}, {8.5, 100}, {100, 1}}
					ld := lods[nres/4%len(lods)]
					z.SetLOD(ld[0], ld[1])
					path = "Renderer.SetCReg/lod"
				}
				z.SetCReg(0, false, mkColor(c))
				emit(colEv{Ev: "resolve", Path: path, C: c, Ctx: ci + 1, Res: rgbaJ(z.VerifState().CReg[tgt])})
			}
		}
		for i := 0; i < 64; i++ {
			resolve([]int{1, i, 0, 0, 0})
			resolve([]int{2, i, 0, 0, 0})
		}
		ts := []int{0, 1, 2, 64, 127, 128, 129, 191, 253, 254, 255}
		for _, t := range ts {
			for c0 := 0; c0 < 256; c0 += 3 {
				for c1 := 0; c1 < 256; c1 += 5 {
					resolve([]int{3, t, c0, (c1 + c0) % 256, 0})
				}
			}
		}
		n := 6000
		if thorough() {
			n = 200000
		}
		for i := 0; i < n; i++ {
			resolve([]int{3, rng.Intn(256), rng.Intn(256), rng.Intn(256), 0})
		}
		// all t for a few operand pairs, incl. the documented example 40 7f 82
		for t := 0; t < 256; t++ {
			resolve([]int{3, t, 0x7f, 0x82, 0})
			resolve([]int{3, t, 0x7f, 0x80, 0})
			resolve([]int{3, t, 0x7c, 0x00, 0})
			resolve([]int{3, t, 0x7f, 0x19, 0})
			resolve([]int{3, t, 0xc1, 0x7d, 0})
		}
	}

	// ---- suggested palettes ------------------------------------------------------------------
	var sharedEnc encode.Encoder
	npal := 0
	palette := func(id string, p [64]color.RGBA) error {
		// every third palette is written twice by one long-lived Encoder that is Reset again and again
		// (the second time with another viewBox); the others by fresh Encoders
		npal++
		if npal%3 == 0 {
			sharedEnc.Reset(ivg.ViewBox{MinX: -24, MinY: -24, MaxX: 24, MaxY: 24}, p)
			if b, err := sharedEnc.Bytes(); err == nil {
				var rec Recorder
				ev := colEv{Ev: "palette", Path: id + "/reused-1", Pal: palJ(p), B: bytesJ(b)}
				if err := decode.Decode(&rec, b); err == nil && len(rec.Calls) == 1 {
					ev.OK = 1
					ev.Got = rec.Calls[0].Pal
				}
				emit(ev)
			}
			sharedEnc.Reset(ivg.ViewBox{MinX: 0, MinY: 0, MaxX: 48, MaxY: 48}, p)
			if b, err := sharedEnc.Bytes(); err == nil {
				var rec Recorder
				ev := colEv{Ev: "palette", Path: id + "/reused-2", Pal: palJ(p), B: bytesJ(b)}
				if err := decode.Decode(&rec, b); err == nil && len(rec.Calls) == 1 {
					ev.OK = 1
					ev.Got = rec.Calls[0].Pal
				}
				emit(ev)
			}
		}
		var e encode.Encoder
		e.Reset(ivg.DefaultViewBox, p)
		b, err := e.Bytes()
		if err != nil {
			return fmt.Errorf("palette %s: %v", id, err)
		}
		var rec Recorder
		ev := colEv{Ev: "palette", Path: id, Pal: palJ(p), B: bytesJ(b)}
		if err := decode.Decode(&rec, b); err == nil && len(rec.Calls) == 1 {
			ev.OK = 1
			ev.Got = rec.Calls[0].Pal
		}
		emit(ev)
		// the same stream decoded with an option that overrides ONE entry: every other entry is still exactly the
		// suggested one (the option machinery has no business touching them)
		if npal%2 == 0 {
			at := (npal * 7) % 64
			oc := color.RGBA{uint8(npal), 0x40, 0x10, 0xff}
			var rec2 Recorder
			ev2 := colEv{Ev: "palopt", Path: id + "/WithColorAt", Pal: palJ(p), B: bytesJ(b), Adj: at, C: []int{0, int(oc.R), int(oc.G), int(oc.B), int(oc.A)}}
			if err := decode.Decode(&rec2, b, decode.WithColorAt(at, oc)); err == nil && len(rec2.Calls) == 1 {
				ev2.OK = 1
				ev2.Got = rec2.Calls[0].Pal
			}
			emit(ev2)
		}
		return nil
	}
	black := color.RGBA{0, 0, 0, 255}
	gens := map[string]func(i int) color.RGBA{
		"enc1": func(i int) color.RGBA {
			return []color.RGBA{{0x40, 0x80, 0xc0, 0xff}, {0xff, 0, 0x40, 0xff}, {0, 0, 0, 0}, {0x80, 0x80, 0x80, 0x80}, {0xc0, 0xc0, 0xc0, 0xc0}}[i%5]
		},
		"trans1": func(i int) color.RGBA {
			return []color.RGBA{{0x40, 0x40, 0x40, 0x40}, {0, 0x40, 0, 0x80}, {0x40, 0, 0x80, 0xc0}, {0, 0, 0, 0x40}}[i%4]
		},
		"enc2": func(i int) color.RGBA {
			return color.RGBA{uint8(i%16) * 0x11 / 2 / 0x11 * 0x11, 0x11, 0, uint8(8+i%8) * 0x11}
		},
		"enc3": func(i int) color.RGBA { return color.RGBA{uint8(i*3 + 1), uint8(i + 7), uint8(200 - i), 0xff} },
		"enc4": func(i int) color.RGBA { return color.RGBA{uint8(i), uint8(i / 2), 1, uint8(i + 3)} },
		"mixed": func(i int) color.RGBA {
			a := uint8(rng.Intn(256))
			return color.RGBA{uint8(rng.Intn(int(a) + 1)), uint8(rng.Intn(int(a) + 1)), uint8(rng.Intn(int(a) + 1)), a}
		},
		"mixed12": func(i int) color.RGBA {
			return []color.RGBA{{0x40, 0x80, 0xc0, 0xff}, {0x33, 0x88, 0, 0xff}, {0x30, 0x66, 0x07, 0xff}, {0x10, 0x20, 0x30, 0x80}}[rng.Intn(4)]
		},
	}
	names := []string{"enc1", "trans1", "enc2", "enc3", "enc4", "mixed", "mixed12"}
	for _, name := range names {
		g := gens[name]
		for cnt := 1; cnt <= 64; cnt++ {
			var p [64]color.RGBA
			for i := range p {
				p[i] = black
			}
			for i := 0; i < cnt; i++ {
				p[i] = g(i)
			}
			if p[cnt-1] == black {
				p[cnt-1] = color.RGBA{0xff, 0xff, 0xff, 0xff}
			}
			if err := palette(fmt.Sprintf("%s/%d", name, cnt), p); err != nil {
				return err
			}
		}
	}
	// orderings: a translucent entry after opaque ones that rule out the short formats, and vice versa
	for i := 0; i < 400; i++ {
		var p [64]color.RGBA
		for j := range p {
			p[j] = black
		}
		n := 1 + rng.Intn(6)
		for j := 0; j < n; j++ {
			p[rng.Intn(8)] = gens[names[rng.Intn(len(names))]](rng.Intn(64))
		}
		if err := palette(fmt.Sprintf("order/%d", i), p); err != nil {
			return err
		}
	}
	// suggested palettes no encoder writes: in the 1-byte format, entries that are references (0x80.. customPalette[i],
	// 0xc0.. CREG[i]) to earlier non-black entries, to themselves, to later entries; other formats with random bytes
	paldec := func(id string, format int, entries [][]byte) {
		body := []byte{0x02, byte(format<<6 | (len(entries) - 1))}
		for _, e := range entries {
			body = append(body, e...)
		}
		ln := []byte{byte(len(body) << 1)}
		if len(body) >= 128 {
			v := len(body)<<2 | 1
			ln = []byte{byte(v), byte(v >> 8)}
		}
		b := append(append(append([]byte{}, magic00[:4]...), 0x02), ln...)
		b = append(b, body...)
		var rec Recorder
		ev := colEv{Ev: "paldec", Path: id, B: bytesJ(b)}
		if err := decode.Decode(&rec, b); err == nil && len(rec.Calls) == 1 {
			ev.OK = 1
			ev.Got = rec.Calls[0].Pal
		}
		emit(ev)
	}
	for k := 0; k < 200; k++ {
		n := 2 + rng.Intn(10)
		var es [][]byte
		for i := 0; i < n; i++ {
			switch rng.Intn(4) {
			case 0:
				es = append(es, []byte{byte(1 + rng.Intn(124))}) // a direct non-black colour
			case 1:
				es = append(es, []byte{byte(0x80 | rng.Intn(n))}) // customPalette[j], j anywhere in the list
			case 2:
				es = append(es, []byte{byte(0xc0 | rng.Intn(n))}) // CREG[j]
			default:
				es = append(es, []byte{byte(rng.Intn(256))})
			}
		}
		paldec(fmt.Sprintf("paldec/refs/%d", k), 0, es)
	}
	for k := 0; k < 100; k++ {
		format := 1 + rng.Intn(3)
		n := 1 + rng.Intn(8)
		var es [][]byte
		for i := 0; i < n; i++ {
			e := make([]byte, format+1)
			for j := range e {
				e[j] = byte(rng.Intn(256))
			}
			es = append(es, e)
		}
		paldec(fmt.Sprintf("paldec/random/%d", k), format, es)
	}
	// uniform palettes (64 equal entries): the zero value of the array type (all transparent), the default, and others
	for i, u := range []color.RGBA{{}, black, {0xff, 0xff, 0xff, 0xff}, {0x80, 0x80, 0x80, 0x80}, {0x10, 0x20, 0x30, 0x40}, {0x33, 0x88, 0, 0xff}, {1, 2, 3, 0xff}, {0, 0, 0, 1}} {
		var p [64]color.RGBA
		for j := range p {
			p[j] = u
		}
		if err := palette(fmt.Sprintf("uniform/%d", i), p); err != nil {
			return err
		}
		// ... and the same with one entry set to the default colour
		for _, at := range []int{0, 31, 63} {
			q := p
			q[at] = black
			if err := palette(fmt.Sprintf("uniform/%d/black@%d", i, at), q); err != nil {
				return err
			}
		}
	}
	// palettes that contain entries which are not valid premultiplied colours (a decoder reads those as black, but the
	// valid entries around them must survive and the stream must stay decodable): alone, trailing, leading, in between
	nons := []color.RGBA{{0xff, 0x90, 0xcc, 0x80}, {0x02, 0x4a, 0x8a, 0x00}, {0x01, 0, 0, 0}, {0x80, 0x80, 0x81, 0x80}}
	for k, nc := range nons {
		mk := func(f func(p *[64]color.RGBA)) [64]color.RGBA {
			var p [64]color.RGBA
			for j := range p {
				p[j] = black
			}
			f(&p)
			return p
		}
		cases := map[string][64]color.RGBA{
			"only0":    mk(func(p *[64]color.RGBA) { p[0] = nc }),
			"only63":   mk(func(p *[64]color.RGBA) { p[63] = nc }),
			"only5":    mk(func(p *[64]color.RGBA) { p[5] = nc }),
			"trailing": mk(func(p *[64]color.RGBA) { p[0] = color.RGBA{0x40, 0x80, 0xc0, 0xff}; p[1] = nc; p[2] = nc }),
			"leading":  mk(func(p *[64]color.RGBA) { p[0] = nc; p[1] = color.RGBA{0x10, 0x20, 0x30, 0x40} }),
			"between": mk(func(p *[64]color.RGBA) {
				p[3] = color.RGBA{1, 2, 3, 0xff}
				p[4] = nc
				p[9] = color.RGBA{0x33, 0x88, 0, 0xff}
			}),
			"all": mk(func(p *[64]color.RGBA) {
				for j := range p {
					p[j] = nc
				}
			}),
		}
		for _, name := range []string{"only0", "only63", "only5", "trailing", "leading", "between", "all"} {
			if err := palette(fmt.Sprintf("nonsense/%d/%s", k, name), cases[name]); err != nil {
				return err
			}
		}
	}
	// the default palette with a single entry changed, at every index
	for at := 0; at < 64; at++ {
		var p [64]color.RGBA
		for j := range p {
			p[j] = black
		}
		p[at] = []color.RGBA{{}, {0xff, 0xff, 0xff, 0xff}, {0, 0, 0, 0xfe}, {0x12, 0x34, 0x56, 0x78}}[at%4]
		if err := palette(fmt.Sprintf("single/%d", at), p); err != nil {
			return err
		}
	}
	n, err := sh.Close()
	if err != nil {
		return err
	}
	summary(map[string]interface{}{"events": n, "counts": counts, "ctx": len(ctxs)})
	return nil
}
