package main

import (
	"fmt"
	"github.com/reactivego/ivg"
	"github.com/reactivego/ivg/encode"
	"math"
	"math/rand"
)

// Input families for the decoder traces. They generate byte strings only; what
// those strings mean is decided by Decoder.tla.

func init() {
	decFamilies["corpus"] = famCorpus(true, true)
	decFamilies["corpus-nocuts"] = famCorpus(false, true)
	decFamilies["corrupt"] = famCorrupt
	decFamilies["random"] = famRandom
	decFamilies["alphabet"] = famAlphabet
	decFamilies["opsweep"] = famOpSweep
	decFamilies["meta"] = famMeta
	decFamilies["adversarial"] = famAdversarial
	decFamilies["splice"] = famSplice
	decFamilies["gradients"] = famGradients
}

var allFlags = decFlags{cuts: false, listing: true, render: true, encoder: true, others: true}

func famCorpus(cuts, listing bool) famFunc {
	return func(sh *Shards, n int, stats map[string]int) error {
		gs, err := loadCorpus()
		if err != nil {
			return err
		}
		for i, g := range gs {
			fl := allFlags
			fl.cuts = cuts && (thorough() || i%3 == int(seed()%3) || i < 12)
			fl.listing = listing
			nc, acc := traceDecode(sh.Next(), "corpus/"+g.Name, g.Data, fl)
			count(stats, "corpus", nc, acc)
			if fl.cuts {
				stats["corpus.cutpoints"] += len(g.Data)
			}
		}
		return nil
	}
}

func famCorrupt(sh *Shards, n int, stats map[string]int) error {
	gs, err := loadCorpus()
	if err != nil {
		return err
	}
	rng := newRand(2)
	per := 6
	if thorough() {
		per = 60
	}
	for _, g := range gs {
		for k := 0; k < per; k++ {
			b := append([]byte(nil), g.Data...)
			pos := rng.Intn(len(b))
			switch rng.Intn(6) {
			case 0:
				b[pos] ^= 1 << uint(rng.Intn(8))
			case 1:
				b[pos] = 0x00
			case 2:
				b[pos] = 0xff
			case 3:
				b[pos]++
			case 4:
				b[pos]--
			case 5:
				b[pos] = byte(rng.Intn(256))
			}
			fl := allFlags
			fl.cuts = k == 0 && len(b) < 400
			nc, acc := traceDecode(sh.Next(), fmt.Sprintf("corrupt/%s@%d", g.Name, pos), b, fl)
			count(stats, "corrupt", nc, acc)
		}
	}
	return nil
}

func famRandom(sh *Shards, n int, stats map[string]int) error {
	rng := newRand(3)
	for i := 0; i < n; i++ {
		l := rng.Intn(40)
		if i%10 == 0 {
			l = rng.Intn(400)
		}
		b := append([]byte(nil), magic00...)
		if i%7 == 0 { // random metadata too
			b = b[:4]
		}
		for j := 0; j < l; j++ {
			b = append(b, byte(rng.Intn(256)))
		}
		if i%97 == 0 {
			b = b[:rng.Intn(len(b))] // damaged magic / short input
		}
		fl := allFlags
		fl.cuts = len(b) < 60
		nc, acc := traceDecode(sh.Next(), fmt.Sprintf("random/%d", i), b, fl)
		count(stats, "random", nc, acc)
	}
	return nil
}

// the alphabet of the MC_Decoder model: hits every opcode class in both modes,
// every number-length tag, reserved opcodes, counts
var mcAlphabet = []byte{0x00, 0x02, 0x03, 0x41, 0x80, 0x87, 0x8f, 0x98, 0xa7, 0xa8, 0xb7, 0xbf, 0xc0, 0xc6, 0xc7,
	0xe1, 0xe2, 0xe6, 0xe0, 0xd0, 0x21, 0x7f, 0xff}

func famAlphabet(sh *Shards, n int, stats map[string]int) error {
	rng := newRand(4)
	for i := 0; i < n; i++ {
		l := 1 + rng.Intn(24)
		b := append([]byte(nil), magic00...)
		for j := 0; j < l; j++ {
			b = append(b, mcAlphabet[rng.Intn(len(mcAlphabet))])
		}
		fl := allFlags
		fl.cuts = true
		nc, acc := traceDecode(sh.Next(), fmt.Sprintf("alphabet/%d", i), b, fl)
		count(stats, "alphabet", nc, acc)
	}
	return nil
}

// ---- C03: every opcode in each mode with operand width combinations -----------------------

// number patterns per width; value classes per kind are covered because the
// same bytes are read as natural/real/coordinate/zero-to-one depending on the opcode
func numPatterns(rng *rand.Rand, width int) [][]byte {
	switch width {
	case 1:
		return [][]byte{{0x00}, {0x02}, {0x80}, {0xfe}, {0x7e}, {byte(rng.Intn(128)) << 1}}
	case 2:
		return [][]byte{{0x01, 0x00}, {0xfd, 0xff}, {0x01, 0x80}, {0x05, 0x00}, {0x59, 0x83},
			{byte(rng.Intn(64))<<2 | 1, byte(rng.Intn(256))}}
	default:
		f := func(u uint32) []byte { u |= 3; return []byte{byte(u), byte(u >> 8), byte(u >> 16), byte(u >> 24)} }
		return [][]byte{f(0), f(0x3f800000), f(0x7f800000), f(0xff800000), f(0x7fc00000), f(0x80000000),
			f(0x00000004), f(0xc1300000 | 0xcccc), f(0xffffffff), f(math.Float32bits(1e30)), f(rng.Uint32())}
	}
}

func pick(rng *rand.Rand, ps [][]byte) []byte { return ps[rng.Intn(len(ps))] }

// operands: list of 'n' (number) and 'c1'..'c4','ci' (colour of given form)
func famOpSweep(sh *Shards, n int, stats map[string]int) error {
	rng := newRand(5)
	reps := 1
	if thorough() {
		reps = 6
	}
	emit := func(id string, b []byte, cuts bool) {
		fl := allFlags
		fl.cuts = cuts
		nc, acc := traceDecode(sh.Next(), id, b, fl)
		count(stats, "opsweep", nc, acc)
	}
	colorBytes := func(form int) [][]byte {
		switch form {
		case 0:
			out := [][]byte{}
			for x := 0; x < 256; x++ {
				out = append(out, []byte{byte(x)})
			}
			return out
		case 1:
			return [][]byte{{0x00, 0x0f}, {0x38, 0x0f}, {0xff, 0xff}, {0x12, 0x34}, {0xf0, 0x00}, {byte(rng.Intn(256)), byte(rng.Intn(256))}}
		case 2, 4:
			return [][]byte{{0x30, 0x66, 0x07}, {0x40, 0x7f, 0x82}, {0xff, 0xc0, 0x80}, {0x00, 0xff, 0x7f}, {0x80, 0x00, 0x18},
				{byte(rng.Intn(256)), byte(rng.Intn(256)), byte(rng.Intn(256))}}
		default:
			return [][]byte{{0x30, 0x66, 0x07, 0x80}, {0x02, 0x4a, 0x8a, 0x00}, {0x00, 0x99, 0x00, 0x88}, {0, 0, 0, 0}, {255, 255, 255, 255},
				{byte(rng.Intn(256)), byte(rng.Intn(256)), byte(rng.Intn(256)), byte(rng.Intn(256))}}
		}
	}
	// width combinations for k numbers: all 3^k when k <= 4, else structured patterns + random
	combos := func(k int) [][]int {
		ws := []int{1, 2, 4}
		var out [][]int
		if k == 0 {
			return [][]int{{}}
		}
		if k <= 4 {
			total := 1
			for i := 0; i < k; i++ {
				total *= 3
			}
			for c := 0; c < total; c++ {
				w := make([]int, k)
				x := c
				for i := range w {
					w[i] = ws[x%3]
					x /= 3
				}
				out = append(out, w)
			}
			return out
		}
		for _, base := range [][]int{{1}, {2}, {4}, {1, 2, 4}, {2, 4, 1}, {4, 1, 2}} {
			w := make([]int, k)
			for i := range w {
				w[i] = base[i%len(base)]
			}
			out = append(out, w)
		}
		for r := 0; r < 3; r++ {
			w := make([]int, k)
			for i := range w {
				w[i] = ws[rng.Intn(3)]
			}
			out = append(out, w)
		}
		return out
	}
	for rep := 0; rep < reps; rep++ {
		// styling mode
		for op := 0; op < 256; op++ {
			head := append(append([]byte(nil), magic00...), byte(op))
			switch {
			case op < 0x80 || op >= 0xc8:
				emit(fmt.Sprintf("sty/%02x", op), head, true)
			case op < 0xa8:
				form := (op - 0x80) >> 3
				for _, cb := range colorBytes(form) {
					emit(fmt.Sprintf("sty/%02x/c", op), append(append([]byte(nil), head...), cb...), form != 0)
				}
			default:
				k := 1
				if op >= 0xc0 {
					k = 2
				}
				for _, w := range combos(k) {
					b := append([]byte(nil), head...)
					for _, wi := range w {
						b = append(b, pick(rng, numPatterns(rng, wi))...)
					}
					emit(fmt.Sprintf("sty/%02x/%v", op, w), b, true)
					if op >= 0xc0 && op < 0xc7 {
						// follow a StartPath by one drawing op to see the mode switch
						emit(fmt.Sprintf("sty/%02x/%v+e1", op, w), append(b, 0xe1, 0x05), true)
					}
				}
			}
		}
		// drawing mode: magic 00 c0 80 80 | op operands...
		for op := 0; op < 256; op++ {
			head := append(append([]byte(nil), magic00...), 0xc0, 0x80, 0x80, byte(op))
			var per, rc int // numbers per repetition, repeat count
			switch {
			case op < 0x40:
				per, rc = 2, 1+op&0x1f
			case op < 0x60:
				per, rc = 2, 1+op&0x0f
			case op < 0xa0:
				per, rc = 4, 1+op&0x0f
			case op < 0xc0:
				per, rc = 6, 1+op&0x0f
			case op < 0xe0:
				per, rc = 6, 1+op&0x0f // arc: c c a n c c
			case op == 0xe2 || op == 0xe3:
				per, rc = 2, 1
			case op >= 0xe6 && op <= 0xe9:
				per, rc = 1, 1
			default:
				per, rc = 0, 1
			}
			k := per * rc
			cs := combos(k)
			if rc > 2 && !thorough() && len(cs) > 4 {
				cs = append(cs[:3:3], cs[len(cs)-1])
			}
			for ci, w := range cs {
				b := append([]byte(nil), head...)
				for i, wi := range w {
					p := pick(rng, numPatterns(rng, wi))
					if op >= 0xc0 && op < 0xe0 && i%6 == 3 && wi == 4 && rng.Intn(2) == 0 {
						p = []byte{0xff, 0xff, 0xff, 0xff} // arc flags with high bits set
					}
					b = append(b, p...)
				}
				b = append(b, 0xe1)
				emit(fmt.Sprintf("drw/%02x/%d", op, ci), b, len(b) < 120)
			}
		}
	}
	return nil
}

// ---- C13: metadata sections ----------------------------------------------------------------

func natBytes(u uint32, width int) []byte {
	switch width {
	case 1:
		return []byte{byte(u << 1)}
	case 2:
		v := u<<2 | 1
		return []byte{byte(v), byte(v >> 8)}
	default:
		v := u<<2 | 3
		return []byte{byte(v), byte(v >> 8), byte(v >> 16), byte(v >> 24)}
	}
}

func coordBytes(f float32, width int) []byte {
	switch width {
	case 1:
		return []byte{byte((int(f) + 64) << 1)}
	case 2:
		v := uint32(int(f*64)+128*64)<<2 | 1
		return []byte{byte(v), byte(v >> 8)}
	default:
		v := math.Float32bits(f) | 3
		return []byte{byte(v), byte(v >> 8), byte(v >> 16), byte(v >> 24)}
	}
}

func famMeta(sh *Shards, n int, stats map[string]int) error {
	rng := newRand(6)
	emit := func(id string, b []byte) {
		fl := allFlags
		fl.cuts = len(b) < 48 || rng.Intn(8) == 0
		nc, acc := traceDecode(sh.Next(), id, b, fl)
		count(stats, "meta", nc, acc)
	}
	inf := float32(math.Inf(1))
	nan := float32(math.NaN())
	type vbCase struct {
		v [4]float32
	}
	vbs := []vbCase{{[4]float32{-24, -24, 24, 24}}, {[4]float32{0, 0, 48, 48}}, {[4]float32{5, 5, 5, 5}}, {[4]float32{-8, 0, 24, 16}},
		{[4]float32{1, 0, 0.984375, 1}}, {[4]float32{0, 1, 1, 0.984375}}, {[4]float32{0, 0, inf, 1}}, {[4]float32{-inf, 0, 1, 1}},
		{[4]float32{0, nan, 1, 1}}, {[4]float32{0, 0, 1, nan}}, {[4]float32{nan, 0, 1, 1}}, {[4]float32{0, 0, nan, 1}},
		{[4]float32{float32(math.Copysign(0, -1)), 0, 0, 0}}, {[4]float32{-1000.5, -3e10, 2000.25, 3e10}}, {[4]float32{0, 0, 0, -inf}},
		{[4]float32{1e-40, 0, 1e-39, 1}}, {[4]float32{63, 63, -64, 63}},
		// finite and ordered, but the extent max - min is not a finite float32
		{[4]float32{-3e38, -1, 3e38, 1}}, {[4]float32{0, -3.4e38, 1, 3.4e38}},
		{[4]float32{-math.MaxFloat32, -math.MaxFloat32, math.MaxFloat32, math.MaxFloat32}},
		{[4]float32{3e38, -3e38, 3.4e38, -2e38}}, {[4]float32{-1e-45, -1e-45, 1e-45, 1e-45}},
		// the same infinity at both ends of an axis (ordered by <=, but not a viewBox), each axis, each sign, and all four
		{[4]float32{inf, 0, inf, 1}}, {[4]float32{-inf, 0, -inf, 1}}, {[4]float32{0, inf, 1, inf}}, {[4]float32{0, -inf, 1, -inf}},
		{[4]float32{inf, inf, inf, inf}}, {[4]float32{-inf, -inf, inf, inf}},
		// signalling NaNs (quiet bit clear), either sign, in each position
		{[4]float32{fbits(0x7f800004), 0, 1, 1}}, {[4]float32{0, fbits(0x7fa00000), 1, 1}},
		{[4]float32{0, 0, fbits(0xff800004), 1}}, {[4]float32{0, 0, 1, fbits(0xffbffffc)}}}
	vbChunk := func(v [4]float32, ws [4]int, lenDelta int, lenWidth int) []byte {
		body := []byte{0x00}
		for i := 0; i < 4; i++ {
			w := ws[i]
			f := v[i]
			if w == 1 && !(f == float32(int(f)) && f >= -64 && f < 64) {
				w = 4
			}
			if w == 2 && !(f*64 == float32(int(f*64)) && f >= -128 && f < 128) {
				w = 4
			}
			body = append(body, coordBytes(f, w)...)
		}
		l := len(body) + lenDelta
		if l < 0 {
			l = 0
		}
		return append(natBytes(uint32(l), lenWidth), body...)
	}
	palChunk := func(format, count int, colorBytes func(i int) []byte, lenDelta int, midWidth int) []byte {
		body := natBytes(1, midWidth)
		body = append(body, byte(format<<6|(count-1)))
		for i := 0; i < count; i++ {
			body = append(body, colorBytes(i)...)
		}
		l := len(body) + lenDelta
		if l < 0 {
			l = 0
		}
		w := 1
		if l >= 128 {
			w = 2
		}
		return append(natBytes(uint32(l), w), body...)
	}
	stream := func(nChunks uint32, ncWidth int, chunks [][]byte, tail []byte) []byte {
		b := append([]byte(nil), magic00[:4]...)
		b = append(b, natBytes(nChunks, ncWidth)...)
		for _, c := range chunks {
			b = append(b, c...)
		}
		return append(b, tail...)
	}
	tails := [][]byte{{}, {0xc0, 0x80, 0x80, 0xe1}, {0x81}}
	// viewBox chunks
	for vi, vb := range vbs {
		for wc := 0; wc < 81; wc++ {
			if !thorough() && wc%7 != vi%7 {
				continue
			}
			ws := [4]int{[]int{1, 2, 4}[wc%3], []int{1, 2, 4}[wc/3%3], []int{1, 2, 4}[wc/9%3], []int{1, 2, 4}[wc/27%3]}
			emit(fmt.Sprintf("meta/vb%d/w%d", vi, wc), stream(1, 1, [][]byte{vbChunk(vb.v, ws, 0, 1)}, tails[wc%3]))
		}
		for d := -3; d <= 3; d++ {
			emit(fmt.Sprintf("meta/vb%d/len%+d", vi, d), stream(1, 1, [][]byte{vbChunk(vb.v, [4]int{1, 1, 1, 1}, d, 1)}, tails[1]))
		}
		emit(fmt.Sprintf("meta/vb%d/len2", vi), stream(1, 2, [][]byte{vbChunk(vb.v, [4]int{2, 2, 2, 2}, 0, 2)}, tails[1]))
		emit(fmt.Sprintf("meta/vb%d/len4", vi), stream(1, 4, [][]byte{vbChunk(vb.v, [4]int{4, 1, 2, 4}, 0, 4)}, tails[2]))
	}
	// every viewBox over {-Inf, -1, 0 (both signs), 1, +Inf, NaN} in its four positions (2401; a seventh of them per seed
	// in the quick tier): valid exactly when all four are finite and min <= max in both axes
	{
		vals := []float32{-inf, -1, 0, float32(math.Copysign(0, -1)), 1, inf, nan}
		k := 0
		for _, a := range vals {
			for _, b := range vals {
				for _, c := range vals {
					for _, d := range vals {
						k++
						if !thorough() && k%7 != int(seed()%7) {
							continue
						}
						emit(fmt.Sprintf("meta/vb-special/%d", k), stream(1, 1, [][]byte{vbChunk([4]float32{a, b, c, d}, [4]int{4, 4, 4, 4}, 0, 1)}, tails[k%3]))
					}
				}
			}
		}
	}
	// a viewBox chunk that holds only one, two or three whole coordinates (of every width) and says so in its length, at
	// the end of the input and followed by a body
	for have := 0; have < 4; have++ {
		for wc := 0; wc < 3; wc++ {
			body := []byte{0x00}
			for i := 0; i < have; i++ {
				body = append(body, coordBytes([]float32{-10, -10.5, 33.3}[(i+wc)%3], []int{1, 2, 4}[(i+wc)%3])...)
			}
			ch := append(natBytes(uint32(len(body)), 1), body...)
			emit(fmt.Sprintf("meta/vb-short/have%d/w%d/eof", have, wc), stream(1, 1, [][]byte{ch}, nil))
			emit(fmt.Sprintf("meta/vb-short/have%d/w%d", have, wc), stream(1, 1, [][]byte{ch}, tails[1]))
		}
	}
	// palette chunks
	colorGen := func(format int, class int) func(i int) []byte {
		return func(i int) []byte {
			switch format {
			case 0:
				if class == 0 {
					return []byte{byte(i*5 + class)}
				}
				return []byte{byte(rng.Intn(256))}
			case 1:
				if class == 0 {
					return []byte{byte(i * 17), 0xff}
				}
				return []byte{byte(rng.Intn(256)), byte(rng.Intn(256))}
			case 2:
				return []byte{byte(rng.Intn(256)), byte(i), byte(rng.Intn(256))}
			default:
				switch class {
				case 0:
					a := byte(rng.Intn(256))
					return []byte{byte(rng.Intn(int(a) + 1)), byte(rng.Intn(int(a) + 1)), byte(rng.Intn(int(a) + 1)), a}
				case 1:
					return []byte{0x02, 0x4a, 0x8a, 0x00} // gradient-looking
				default:
					return []byte{byte(rng.Intn(256)), byte(rng.Intn(256)), byte(rng.Intn(256)), byte(rng.Intn(256))}
				}
			}
		}
	}
	for format := 0; format < 4; format++ {
		for _, cnt := range []int{1, 2, 3, 17, 63, 64} {
			for class := 0; class < 3; class++ {
				emit(fmt.Sprintf("meta/pal%d/%d/%d", format, cnt, class),
					stream(1, 1, [][]byte{palChunk(format, cnt, colorGen(format, class), 0, 1)}, tails[(cnt+class)%3]))
			}
			for d := -3; d <= 3; d++ {
				if d != 0 {
					emit(fmt.Sprintf("meta/pal%d/%d/len%+d", format, cnt, d),
						stream(1, 1, [][]byte{palChunk(format, cnt, colorGen(format, 0), d, 1)}, tails[1]))
				}
			}
		}
	}
	// all 256 one-byte palette colours, in four chunks of 64
	for q := 0; q < 4; q++ {
		emit(fmt.Sprintf("meta/pal0/all%d", q), stream(1, 1, [][]byte{palChunk(0, 64, func(i int) []byte { return []byte{byte(q*64 + i)} }, 0, 1)}, tails[1]))
	}
	// every entry count 1..64 for each format
	for format := 0; format < 4; format++ {
		for cnt := 1; cnt <= 64; cnt++ {
			if thorough() || cnt%4 == format {
				emit(fmt.Sprintf("meta/pal%d/cnt%d", format, cnt), stream(1, 1, [][]byte{palChunk(format, cnt, colorGen(format, 2), 0, 1)}, tails[cnt%3]))
			}
		}
	}
	// two chunks in order, MID in 2-byte form, unknown MIDs, chunk counts
	vb0 := vbChunk(vbs[0].v, [4]int{1, 1, 1, 1}, 0, 1)
	pal0 := palChunk(3, 3, colorGen(3, 0), 0, 1)
	emit("meta/two", stream(2, 1, [][]byte{vb0, pal0}, tails[1]))
	emit("meta/two-nc2", stream(2, 2, [][]byte{vb0, pal0}, tails[1]))
	emit("meta/two-nc4", stream(2, 4, [][]byte{vb0, pal0}, tails[1]))
	emit("meta/pal-mid2", stream(1, 1, [][]byte{palChunk(3, 2, colorGen(3, 0), 0, 2)}, tails[1]))
	emit("meta/pal-mid4", stream(1, 1, [][]byte{palChunk(3, 2, colorGen(3, 0), 0, 4)}, tails[1]))
	emit("meta/out-of-order", stream(2, 1, [][]byte{pal0, vb0}, tails[1])) // loose: accepted either way
	emit("meta/repeated", stream(2, 1, [][]byte{vb0, vb0}, tails[1]))      // loose
	// repeated chunks of which one is invalid by itself: rejected under every reading
	vbBad := vbChunk([4]float32{5, 0, 1, 1}, [4]int{1, 1, 1, 1}, 0, 1)
	vbNaN := vbChunk([4]float32{0, 0, nan, 1}, [4]int{1, 1, 4, 1}, 0, 1)
	emit("meta/repeated/bad-then-good", stream(2, 1, [][]byte{vbBad, vb0}, tails[1]))
	emit("meta/repeated/nan-then-good", stream(2, 1, [][]byte{vbNaN, vb0}, tails[1]))
	emit("meta/repeated/good-then-bad", stream(2, 1, [][]byte{vb0, vbBad}, tails[1]))
	emit("meta/repeated/bad-pal-good", stream(3, 1, [][]byte{vbBad, pal0, vb0}, tails[1]))
	emit("meta/repeated/pal-short-then-pal", stream(2, 1, [][]byte{palChunk(3, 3, colorGen(3, 0), -1, 1), pal0}, tails[1]))
	// well-formed viewBox / palette bodies under MIDs that are 0 or 1 modulo 2^16 or 2^8 (unknown MIDs all the same), and
	// declared lengths that are right modulo 2^16 or 2^8 only
	{
		vbBody := []byte{0x80, 0x80, 0x82, 0x82} // 0 0 1 1
		palBody := []byte{0x02, 0x7c, 0x30, 0x00}
		for _, mid := range []uint32{256, 257, 65536, 65537, 5 << 16, 5<<16 + 1, 1 << 24, 1<<24 + 1} {
			body := append(natBytes(mid, 4), vbBody...)
			if mid%2 == 1 {
				body = append(natBytes(mid, 4), palBody...)
			}
			ch := append(natBytes(uint32(len(body)), 1), body...)
			emit(fmt.Sprintf("meta/mid-modulo/%d", mid), stream(1, 1, [][]byte{ch}, tails[1]))
		}
		for _, extra := range []uint32{256, 65536, 131072, 1 << 24} {
			b1 := append([]byte{0x00}, vbBody...)
			emit(fmt.Sprintf("meta/len-modulo/vb/%d", extra), stream(1, 1, [][]byte{append(natBytes(uint32(len(b1))+extra, 4), b1...)}, tails[1]))
			b2 := append([]byte{0x02}, palBody...)
			emit(fmt.Sprintf("meta/len-modulo/pal/%d", extra), stream(1, 1, [][]byte{append(natBytes(uint32(len(b2))+extra, 4), b2...)}, tails[1]))
		}
	}
	// a last chunk that declares more bytes than the input has left (round 10): the input ends right after the metadata,
	// or one byte / a whole body follows
	for _, d := range []int{1, 2, 7, 50} {
		for ti, tail := range [][]byte{nil, {0xe1}, tails[1]} {
			emit(fmt.Sprintf("meta/too-long/vb/%+d/tail%d", d, ti), stream(1, 1, [][]byte{vbChunk(vbs[0].v, [4]int{1, 1, 1, 1}, d, 1)}, tail))
			emit(fmt.Sprintf("meta/too-long/pal/%+d/tail%d", d, ti), stream(1, 1, [][]byte{palChunk(3, 2, colorGen(3, 0), d, 1)}, tail))
			emit(fmt.Sprintf("meta/too-long/two/%+d/tail%d", d, ti), stream(2, 1, [][]byte{vb0, palChunk(1, 3, colorGen(1, 0), d, 1)}, tail))
		}
	}
	// chunks whose declared length is tiny (0..5) while the MID is written in 1, 2 or 4 bytes (the length then cannot
	// even hold the MID), for both kinds of chunk
	for _, mw := range []int{1, 2, 4} {
		for ln := 0; ln <= 5; ln++ {
			pb := append(natBytes(uint32(ln), 1), natBytes(1, mw)...)
			pb = append(pb, 0x00, 0x00, 0x00, 0x00, 0x00, 0x00)
			emit(fmt.Sprintf("meta/tiny/pal/mid%d/len%d", mw, ln), stream(1, 1, [][]byte{pb}, nil))
			vbb := append(natBytes(uint32(ln), 1), natBytes(0, mw)...)
			vbb = append(vbb, 0x80, 0x80, 0x82, 0x82)
			emit(fmt.Sprintf("meta/tiny/vb/mid%d/len%d", mw, ln), stream(1, 1, [][]byte{vbb}, tails[1]))
		}
	}
	// a palette whose count byte promises more colours than the chunk holds, with a declared length that matches the
	// shortened content (every format, counts up to the maximum)
	for format := 0; format < 4; format++ {
		for _, cnt := range []int{2, 17, 63, 64} {
			for _, have := range []int{0, 1, cnt / 2, cnt - 1} {
				body := []byte{0x02, byte(format<<6 | (cnt - 1))}
				for i := 0; i < have; i++ {
					body = append(body, colorGen(format, 0)(i)...)
				}
				w := 1
				if len(body) >= 128 {
					w = 2
				}
				ch := append(natBytes(uint32(len(body)), w), body...)
				emit(fmt.Sprintf("meta/pal%d/promised%d/have%d", format, cnt, have), stream(1, 1, [][]byte{ch}, tails[1]))
				emit(fmt.Sprintf("meta/pal%d/promised%d/have%d/eof", format, cnt, have), stream(1, 1, [][]byte{ch}, nil)) // the input ends with the chunk
			}
		}
	}
	// the largest palette chunk (64 entries of 4 bytes) with the MID in each width, alone and after a viewBox
	for _, mw := range []int{1, 2, 4} {
		big := palChunk(3, 64, colorGen(3, 0), 0, mw)
		emit(fmt.Sprintf("meta/pal3/64/mid%d", mw), stream(1, 1, [][]byte{big}, tails[1]))
		emit(fmt.Sprintf("meta/two/pal3/64/mid%d", mw), stream(2, 1, [][]byte{vb0, big}, tails[0]))
	}
	for _, mid := range []uint32{2, 3, 63, 64, 1000, 1 << 20} {
		w := 1
		if mid >= 128 {
			w = 2
		}
		if mid >= 1<<14 {
			w = 4
		}
		body := natBytes(mid, w)
		emit(fmt.Sprintf("meta/mid%d", mid), stream(1, 1, [][]byte{append(natBytes(uint32(len(body)), 1), body...)}, tails[1]))
	}
	for _, nc := range []uint32{0, 1, 2, 3, 5, 1<<30 - 1, 1 << 14, 127, 128} {
		for _, w := range []int{1, 2, 4} {
			if w == 1 && nc >= 128 || w == 2 && nc >= 1<<14 {
				continue
			}
			emit(fmt.Sprintf("meta/nc%d/w%d", nc, w), stream(nc, w, [][]byte{vb0}, tails[1]))
			emit(fmt.Sprintf("meta/nc%d/w%d/two", nc, w), stream(nc, w, [][]byte{vb0, pal0}, tails[0]))
			emit(fmt.Sprintf("meta/nc%d/w%d/none", nc, w), stream(nc, w, nil, tails[1]))
		}
	}
	// lengths far past the end of the input
	for _, l := range []uint32{100, 1 << 14, 1<<30 - 1, 1 << 29} {
		w := 2
		if l >= 1<<14 {
			w = 4
		}
		emit(fmt.Sprintf("meta/lenpast%d", l), stream(1, 1, [][]byte{append(natBytes(l, w), vb0[1:]...)}, tails[1]))
		emit(fmt.Sprintf("meta/lenpast%d/pal", l), stream(1, 1, [][]byte{append(natBytes(l, w), pal0[1:]...)}, tails[1]))
	}
	// empty palette chunk body, palette count past EOF
	emit("meta/pal-empty", stream(1, 1, [][]byte{{0x02, 0x02}}, nil))
	emit("meta/pal-short", stream(1, 1, [][]byte{{0x06, 0x02, 0xff, 0x01, 0x02}}, nil))
	return nil
}

func famAdversarial(sh *Shards, n int, stats map[string]int) error {
	// the magic identifier somewhere else than at the start: a whole graphic after a prefix, the magic inside an operand
	if gs, err := loadCorpus(); err == nil {
		for gi, pre := range [][]byte{{0x00}, {0x89}, {0x89, 'I', 'V'}, {'x', 'y', 'z', 'w'}, {0x89, 'I', 'V', 'G' + 1, 0x00}, {0xff, 0xfe, 0xfd, 0xfc, 0xfb, 0xfa, 0xf9}} {
			g := gs[gi%len(gs)]
			b := append(append([]byte{}, pre...), g.Data...)
			nc, acc := traceDecode(sh.Next(), fmt.Sprintf("adv/shifted-magic/%d", gi), b, allFlags)
			count(stats, "adversarial", nc, acc)
		}
		// first four bytes damaged, a 4-byte colour operand later spells the magic
		b := []byte{0x88, 'I', 'V', 'G', 0x00, 0x98, 0x89, 'I', 'V', 'G', 0xc0, 0x80, 0x80, 0xe1}
		nc, acc := traceDecode(sh.Next(), "adv/magic-in-operand", b, allFlags)
		count(stats, "adversarial", nc, acc)
	}
	emit := func(id string, b []byte) {
		fl := allFlags
		fl.cuts = len(b) < 80
		nc, acc := traceDecode(sh.Next(), id, b, fl)
		count(stats, "adversarial", nc, acc)
	}
	// arc flags naturals with reserved bits set (only the two low bits mean anything), in every width
	for _, fv := range []uint32{4, 5, 6, 7, 8, 0x40, 0x41, 0x42, 0x7e, 0x1234, 0x1235, 0x3ffe, 1 << 20, 1<<20 + 1, 1<<29 + 2} {
		for _, op := range []byte{0xc0, 0xd0, 0xc1} {
			w := 1
			if fv >= 128 {
				w = 2
			}
			if fv >= 16384 {
				w = 4
			}
			b := append(append([]byte{}, magic00...), 0xc0, 0x80, 0x80, op)
			for rep := 0; rep <= int(op&1); rep++ {
				b = append(b, 0x84, 0x86, 0x00)
				b = append(b, natBytes(fv, w)...)
				b = append(b, 0x88, 0x8a)
			}
			b = append(b, 0xe1)
			emit(fmt.Sprintf("adv/arcflags/%d/%02x", fv, op), b)
		}
	}
	f4 := func(u uint32) []byte { u |= 3; return []byte{byte(u), byte(u >> 8), byte(u >> 16), byte(u >> 24)} }
	m := func(parts ...[]byte) []byte {
		b := append([]byte(nil), magic00...)
		for _, p := range parts {
			b = append(b, p...)
		}
		return b
	}
	specials := []uint32{0x7f800000, 0xff800000, 0x7fc00000, 0xffc00000, 0x7e967699, 0xfe967699, 0x00000001, 0x80000000, 0x7f7fffff, 0x00800000}
	for i, s := range specials {
		for j, t := range specials {
			// StartPath at special coords, line/quad/cube/arc with special operands
			emit(fmt.Sprintf("adv/line/%d/%d", i, j), m([]byte{0xc0}, f4(s), f4(t), []byte{0x01}, f4(t), f4(s), f4(s), f4(s), []byte{0xe1}))
			emit(fmt.Sprintf("adv/cube/%d/%d", i, j), m([]byte{0xc0, 0x80, 0x80, 0xa0}, f4(s), f4(t), f4(s), f4(t), f4(t), f4(s), []byte{0x80}, f4(s), f4(t), f4(t), f4(t), []byte{0xe3}, f4(s), f4(t), []byte{0xe1}))
			emit(fmt.Sprintf("adv/arc/%d/%d", i, j), m([]byte{0xc0, 0x80, 0x80, 0xc1}, f4(s), f4(t), f4(s), []byte{0x02}, f4(t), f4(s), []byte{0x90, 0x90}, f4(t), []byte{0x06}, f4(s), f4(t), []byte{0xd0}, f4(t), f4(t), f4(t), f4(0xffffffff), f4(s), f4(s), []byte{0xe1}))
			emit(fmt.Sprintf("adv/lod/%d/%d", i, j), m([]byte{0xc7}, f4(s), f4(t), []byte{0xc0, 0x80, 0x80, 0x00, 0x90, 0x90, 0xe1}))
			emit(fmt.Sprintf("adv/grad/%d/%d", i, j), m([]byte{0x4a, 0xaf}, f4(s), []byte{0xbf}, f4(t), []byte{0x98, 0x02, 0x0a, 0x8a, 0x00, 0xc0, 0x80, 0x80, 0x00, 0x90, 0x90, 0xe1}))
		}
	}
	// repeat count 32 with one operand group, 16 arcs cut short
	emit("adv/rep32", m([]byte{0xc0, 0x80, 0x80, 0x1f, 0x82, 0x82}))
	emit("adv/rep16arc", m([]byte{0xc0, 0x80, 0x80, 0xcf, 0x82, 0x82, 0x00, 0x00, 0x84, 0x84}))
	// a long well-formed stream: many paths
	long := m()
	for i := 0; i < 2000; i++ {
		long = append(long, 0xc0, 0x80, 0x80, 0x21, 0x82, 0x80, 0x80, 0x82, 0xe1)
	}
	emit("adv/long", long)
	// gradients whose stops are all valid (strictly increasing offsets k/120, opaque black colours from
	// the default palette) at every base, so that CBASE+i and NBASE+i wrap past register 63
	for _, base := range []int{0, 5, 10, 54, 58, 60, 62, 63} {
		for _, ns := range []int{2, 3, 7, 10, 40, 63} {
			for _, shape := range []byte{0x80, 0xc0} {
				b := m([]byte{0x40 | byte(base)})
				for i := 0; i < ns; i++ {
					b = append(b, 0xbf, byte(2*(i+1))) // NREG[NSEL] = (i+1)/120; NSEL++
				}
				b = append(b, 0x98, byte(ns), byte(base)|0x40, byte(base)|shape, 0x00) // CREG[CSEL] = gradient
				b = append(b, 0xc0, 0x80, 0x80, 0x01, 0x90, 0x80, 0x90, 0x90, 0xe1)
				emit(fmt.Sprintf("adv/gradwrap/%d/%d/%x", base, ns, shape), b)
			}
		}
	}
	// gradients with every NSTOPS, wrap-around bases
	for ns := 0; ns < 64; ns++ {
		emit(fmt.Sprintf("adv/nstops%d", ns), m([]byte{0x98, byte(ns), 0x3a | 0x40, 0x80 | 0x3e, 0x00, 0xc0, 0x80, 0x80, 0x00, 0x90, 0x90, 0xe1}))
	}
	return nil
}

// splice: fragments of corpus instruction streams glued together
func famSplice(sh *Shards, n int, stats map[string]int) error {
	gs, err := loadCorpus()
	if err != nil {
		return err
	}
	rng := newRand(7)
	for i := 0; i < n; i++ {
		b := append([]byte(nil), magic00...)
		for k := 0; k < 1+rng.Intn(4); k++ {
			g := gs[rng.Intn(len(gs))].Data
			if len(g) < 8 {
				continue
			}
			a := 5 + rng.Intn(len(g)-5)
			e := a + rng.Intn(len(g)-a+1)
			if e-a > 60 {
				e = a + 60
			}
			b = append(b, g[a:e]...)
		}
		fl := allFlags
		fl.cuts = len(b) < 100
		nc, acc := traceDecode(sh.Next(), fmt.Sprintf("splice/%d", i), b, fl)
		count(stats, "splice", nc, acc)
	}
	return nil
}

// ---- graphics with valid gradients of many layouts (written by a real Encoder): the first stop above 0, the last below 1,
// one to sixty stops, every shape and spread, matrices that put pixels before the first and beyond the last stop, bases
// that make the stop and matrix registers wrap around -------------------------------------------------------------------
func famGradients(sh *Shards, n int, stats map[string]int) error {
	rng := newRand(11)
	// well-formed graphics whose mapped coordinates are not finite or astronomically large (a viewBox without width; NaN,
	// infinite and 3e38 coordinates in the 4-byte form): every run decodes them into a Renderer over raster/vec too
	for di, d := range []struct {
		vb   ivg.ViewBox
		x, y float32
	}{{ivg.ViewBox{MinX: 0, MinY: 0, MaxX: 0, MaxY: 8}, 5, 1}, {ivg.DefaultViewBox, float32(math.NaN()), float32(math.NaN())},
		{ivg.DefaultViewBox, float32(math.Inf(1)), 1}, {ivg.DefaultViewBox, 3e38, 1}} {
		var e encode.Encoder
		e.Reset(d.vb, ivg.DefaultPalette)
		e.HighResolutionCoordinates = true
		e.StartPath(0, 1, 1)
		e.AbsLineTo(d.x, d.y)
		e.AbsLineTo(5, 5)
		e.AbsQuadTo(d.x, 3, 4, d.y)
		e.ClosePathEndPath()
		b, err := e.Bytes()
		if err != nil {
			return err
		}
		fl := allFlags
		fl.vecAlways = true
		nc, acc := traceDecode(sh.Next(), fmt.Sprintf("gradients/non-finite-geometry/%d", di), b, fl)
		count(stats, "gradients", nc, acc)
	}
	k := 0
	for _, ns := range []int{2, 3, 5, 17, 58, 60} {
		for shape := 0; shape < 2; shape++ {
			for spread := 0; spread < 4; spread++ {
				for _, lay := range [][2]float32{{0, 1}, {0.25, 0.75}, {0, 0.5}, {0.5, 1}, {0.125, 0.25}} {
					k++
					if !thorough() && k%3 != int(seed()%3) {
						continue
					}
					base := []int{10, 0, 1, 3, 5, 58, 63}[k%7]
					var e encode.Encoder
					e.Reset(ivg.ViewBox{MinX: -8, MinY: -8, MaxX: 8, MaxY: 8}, ivg.DefaultPalette)
					e.SetCSel(uint8(base))
					e.SetNSel(uint8(base))
					for s := 0; s < ns; s++ {
						a := 55 + rng.Intn(201)
						e.SetCReg(0, true, ivg.RGBAColor(colorRGBA{uint8(rng.Intn(a + 1)), uint8(rng.Intn(a + 1)), uint8(rng.Intn(a + 1)), uint8(a)}))
						e.SetNReg(0, true, lay[0]+(lay[1]-lay[0])*float32(s)/float32(ns-1))
					}
					m := [6]float32{0.125, 0.03125, 0.5, -0.03125, 0.125, 0.25}
					if k%2 == 0 {
						m = [6]float32{0.5, 0, 0, 0, 0.5, 0} // offsets far beyond 1 inside the rectangle
					}
					e.SetNSel(uint8(base))
					for j, v := range m {
						e.SetNReg(uint8(6-j), false, v)
					}
					e.SetCSel(uint8((base + 63) % 64))
					e.SetCReg(0, false, ivg.RGBAColor(ivg.EncodeGradient(uint8(base), uint8(base), uint8(shape), uint8(spread), uint8(ns))))
					e.StartPath(0, -8, -8)
					e.AbsHLineTo(8)
					e.AbsVLineTo(8)
					e.AbsHLineTo(-8)
					e.ClosePathEndPath()
					b, err := e.Bytes()
					if err != nil {
						return err
					}
					fl := allFlags
					fl.cuts = k%9 == 0
					nc, acc := traceDecode(sh.Next(), fmt.Sprintf("gradients/%d/%d/%d/%d", ns, shape, spread, k), b, fl)
					count(stats, "gradients", nc, acc)
				}
			}
		}
	}
	return nil
}
