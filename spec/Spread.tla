------------------------------- MODULE Spread -------------------------------
(***************************************************************************)
(* The spread rules of gradient paint (property C15), on offsets held as   *)
(* integers in units of 2^-12 (T12 = 4096 is offset 1.0).  Kept in a       *)
(* module of their own, free of recursive operators, so that the TLA+      *)
(* proof system can read it (GradientProofs.tla).                          *)
(***************************************************************************)
EXTENDS Integers

T12 == 4096

FloorDiv(a, b) == a \div b                 \* TLA+ \div floors for b > 0
Mod(a, b) == a % b

(* triangle wave of period 2: Reflect(t) = t for t in [0,1], 2 - t in [1,2] *)
Reflect(t) == LET m == Mod(t, 2 * T12) IN IF m <= T12 THEN m ELSE 2 * T12 - m
(* fractional part; an offset exactly on a positive integer stays at the end of the ramp  *)
(* only inside [0,1] itself: Repeat(1) = 1 is "inside", Repeat(2) = 0                      *)
Repeat(t) == Mod(t, T12)

Clamp(spread, t) ==
  IF t >= 0 /\ t <= T12 THEN t
  ELSE CASE spread = 1 -> IF t < 0 THEN 0 ELSE T12
         [] spread = 2 -> Reflect(t)
         [] spread = 3 -> Repeat(t)
         [] OTHER -> -1
=============================================================================
