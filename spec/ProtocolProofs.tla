--------------------------- MODULE ProtocolProofs ---------------------------
(***************************************************************************)
(* Unbounded facts about the styling/drawing protocol automaton of         *)
(* Protocol.tla (property C10), proved with TLAPS for ALL call parameters  *)
(* (any adjustment, any increment flag) -- TLC checks them only over the   *)
(* alphabets of MC_Encoder.                                                *)
(***************************************************************************)
EXTENDS Protocol, TLAPS

States == {"styling", "drawing", "failed"}
Kinds  == {"reset", "read", "bytes", "sethires", "styling", "start", "draw", "end"}
PState == [s : States, why : SUBSET STRING]

(* the sticky error: nothing but reset leaves "failed", and the reasons are kept *)
THEOREM Sticky == \A p, c : p.s = "failed" /\ c.k # "reset" => PStep(p, c) = p
  BY DEF PStep

(* reset always lands in the initial state *)
THEOREM ResetFresh == \A p, c : c.k = "reset" => PStep(p, c) = PInit
  BY DEF PStep

(* the automaton never leaves its three states *)
THEOREM Closed == \A p \in PState : \A c : c.k \in Kinds => PStep(p, c).s \in States
  BY DEF PStep, PInit, PFail, States, Kinds, PState

(* a failure always carries at least one reason *)
THEOREM Reasoned == \A p \in PState : \A c : p.s \in {"styling", "drawing"} /\ c.k \in Kinds /\ c.adj \in Nat /\ c.incr \in {0, 1}
                              /\ PStep(p, c).s = "failed" => PStep(p, c).why # {}
  BY DEF PStep, PInit, PFail, AdjReasons, Kinds, PState, States

(* protocol-respecting calls never fail: styling calls with a legal adjustment in styling mode, *)
(* drawing calls in drawing mode, reads and Bytes anywhere                                      *)
THEOREM LegalStyling == \A p, c : p.s = "styling" /\ c.k = "styling" /\ c.adj \in 0..6 /\ (c.incr = 1 => c.adj = 0)
                                   => PStep(p, c) = p
  BY DEF PStep, AdjReasons
THEOREM LegalStart == \A p \in PState : \A c : p.s = "styling" /\ c.k = "start" /\ c.adj \in 0..6 => PStep(p, c).s = "drawing"
  BY DEF PStep, AdjReasons, PState
THEOREM LegalDraw == \A p, c : p.s = "drawing" /\ c.k = "draw" => PStep(p, c) = p
  BY DEF PStep
THEOREM LegalEnd == \A p \in PState : \A c : p.s = "drawing" /\ c.k = "end" => PStep(p, c).s = "styling"
  BY DEF PStep, PState
THEOREM Transparent == \A p, c : p.s # "failed" /\ c.k \in {"read", "bytes", "sethires"} => PStep(p, c) = p
  BY DEF PStep

(* and the converse: every other call in those modes fails *)
THEOREM IllegalFails ==
  \A p, c : /\ p.s \in {"styling", "drawing"} /\ c.adj \in Nat /\ c.incr \in {0, 1}
            /\ \/ (p.s = "drawing" /\ c.k \in {"styling", "start"})
               \/ (p.s = "styling" /\ c.k \in {"draw", "end"})
               \/ (c.k \in {"styling", "start"} /\ c.adj > 6)
               \/ (c.k = "styling" /\ c.incr = 1 /\ c.adj # 0)
            => PStep(p, c).s = "failed"
  BY DEF PStep, PFail, AdjReasons
=============================================================================
