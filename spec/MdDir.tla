------------------------------- MODULE MdDir -------------------------------
(***************************************************************************)
(* The directory pipeline of the Material Design converter (cmd/mdicons -> *)
(* mdicons.Parse -> ParseDir -> ParseFile), beyond the listed properties.  *)
(*                                                                         *)
(* A tree is  root / <category> / svg/production / ic_<base>_<N>px.svg     *)
(*                  / <category> / 1x_web / ic_<base>_black_<D>dp.png      *)
(*                                                                         *)
(* Parse    visits the sub-directories of root in bytewise name order,     *)
(*          skipping plain files and names starting with a dot;            *)
(* ParseDir reads svg/production in *whatever order the file system        *)
(*          returns* (action Visit below is enabled for every pending      *)
(*          entry), keeps names with prefix "ic_" and one of the five size *)
(*          suffixes, drops the one known duplicate, and for each base     *)
(*          name remembers the file with the largest size; base names are  *)
(*          then converted in bytewise order;                              *)
(* ParseFile names the variable  Upper(category) ++ Upper(part)...  over   *)
(*          the "_"-separated parts of the base name, where Upper is the   *)
(*          acronym table or else capitalises an initial a..z.             *)
(* Statistics: files and SVG bytes of converted files; for the 24 and 48   *)
(* targets the size of the first existing PNG among 48, 24, 18 dp that is  *)
(* not larger than the target, or else a failure line.                     *)
(*                                                                         *)
(* Deliberate deviation of the code that the model names (DroppedFailure): *)
(* a file whose conversion fails leaves an empty declaration in the output *)
(* and is otherwise forgotten -- its failure line is appended to a local   *)
(* that is discarded (the upstream generator reported it).                 *)
(*                                                                         *)
(* Strings are opaque to TLC (no indexing), so a name part is the pair     *)
(* [h, t] of its first character and the rest.                             *)
(***************************************************************************)
EXTENDS Integers, Sequences, FiniteSets, TLC

Tok(h, t) == [h |-> h, t |-> t]
Str(k) == k.h \o k.t

Acronyms ==
  ("3d" :> "3D") @@ ("ac" :> "AC") @@ ("adb" :> "ADB") @@ ("airplanemode" :> "AirplaneMode") @@
  ("atm" :> "ATM") @@ ("av" :> "AV") @@ ("ccw" :> "CCW") @@ ("cw" :> "CW") @@
  ("din" :> "DIN") @@ ("dns" :> "DNS") @@ ("dvr" :> "DVR") @@ ("eta" :> "ETA") @@
  ("ev" :> "EV") @@ ("gif" :> "GIF") @@ ("gps" :> "GPS") @@ ("hd" :> "HD") @@
  ("hdmi" :> "HDMI") @@ ("hdr" :> "HDR") @@ ("http" :> "HTTP") @@ ("https" :> "HTTPS") @@
  ("iphone" :> "IPhone") @@ ("iso" :> "ISO") @@ ("jpeg" :> "JPEG") @@ ("markunread" :> "MarkUnread") @@
  ("mms" :> "MMS") @@ ("nfc" :> "NFC") @@ ("ondemand" :> "OnDemand") @@ ("pdf" :> "PDF") @@
  ("phonelink" :> "PhoneLink") @@ ("png" :> "PNG") @@ ("rss" :> "RSS") @@ ("rv" :> "RV") @@
  ("sd" :> "SD") @@ ("sim" :> "SIM") @@ ("sip" :> "SIP") @@ ("sms" :> "SMS") @@
  ("streetview" :> "StreetView") @@ ("svideo" :> "SVideo") @@ ("textdirection" :> "TextDirection") @@ ("textsms" :> "TextSMS") @@
  ("timelapse" :> "TimeLapse") @@ ("toc" :> "TOC") @@ ("tv" :> "TV") @@ ("usb" :> "USB") @@
  ("vpn" :> "VPN") @@ ("wb" :> "WB") @@ ("wc" :> "WC") @@ ("whatshot" :> "WhatsHot") @@
  ("wifi" :> "WiFi")

UpperMap == ("a" :> "A") @@ ("b" :> "B") @@ ("c" :> "C") @@ ("d" :> "D") @@ ("e" :> "E") @@ ("f" :> "F") @@ ("g" :> "G") @@ ("h" :> "H") @@ ("i" :> "I") @@ ("j" :> "J") @@ ("k" :> "K") @@ ("l" :> "L") @@ ("m" :> "M") @@ ("n" :> "N") @@ ("o" :> "O") @@ ("p" :> "P") @@ ("q" :> "Q") @@ ("r" :> "R") @@ ("s" :> "S") @@ ("t" :> "T") @@ ("u" :> "U") @@ ("v" :> "V") @@ ("w" :> "W") @@ ("x" :> "X") @@ ("y" :> "Y") @@ ("z" :> "Z")

Upper(k) ==
  IF Str(k) \in DOMAIN Acronyms THEN Acronyms[Str(k)]
  ELSE IF k.h \in DOMAIN UpperMap THEN UpperMap[k.h] \o k.t
  ELSE Str(k)

RECURSIVE JoinFrom(_, _), UpperFrom(_, _)
JoinFrom(ks, i) == IF i > Len(ks) THEN "" ELSE "_" \o Str(ks[i]) \o JoinFrom(ks, i + 1)
BaseName(ks) == Str(ks[1]) \o JoinFrom(ks, 2)               \* Len(ks) >= 1
UpperFrom(ks, i) == IF i > Len(ks) THEN "" ELSE Upper(ks[i]) \o UpperFrom(ks, i + 1)
VarName(cat, ks) == Upper(cat) \o UpperFrom(ks, 1)

-----------------------------------------------------------------------------
(* A directory entry of svg/production:                                    *)
(*   [pre, base, suf, len, bad, id]   name = pre ++ BaseName(base) ++ suf  *)
(* base is a sequence of parts; len the file's size in bytes; bad: the     *)
(* content does not convert; id identifies the content.                    *)
SizeOf(suf) == CASE suf = "_12px.svg" -> 12 [] suf = "_18px.svg" -> 18 [] suf = "_24px.svg" -> 24
                 [] suf = "_36px.svg" -> 36 [] suf = "_48px.svg" -> 48 [] OTHER -> 0
EName(e) == e.pre \o BaseName(e.base) \o e.suf
Skipped(cat, e) == Str(cat) = "av" /\ EName(e) = "ic_play_circle_filled_white_48px.svg"
Eligible(cat, e) == e.pre = "ic_" /\ SizeOf(e.suf) > 0 /\ ~Skipped(cat, e)

(* Declarative selection: per base name the eligible entry of largest size *)
Chosen(cat, entries) ==
  LET el == {e \in entries : Eligible(cat, e)}
      bases == {e.base : e \in el}
  IN [b \in bases |-> CHOOSE e \in el : e.base = b /\ \A o \in el : o.base = b => SizeOf(o.suf) <= SizeOf(e.suf)]

-----------------------------------------------------------------------------
(* The scan as the code performs it: one Readdir entry at a time.          *)
ScanInit(entries) == [pending |-> entries, fileOf |-> << >>, seen |-> << >>]
ScanVisit(cat, s, e) ==
  IF ~Eligible(cat, e) THEN [s EXCEPT !.pending = @ \ {e}]
  ELSE IF e.base \in DOMAIN s.fileOf
    THEN [s EXCEPT !.pending = @ \ {e},
                   !.fileOf = IF SizeOf(e.suf) > SizeOf(s.fileOf[e.base].suf)
                                THEN [s.fileOf EXCEPT ![e.base] = e] ELSE s.fileOf]
    ELSE [pending |-> s.pending \ {e}, fileOf |-> (e.base :> e) @@ s.fileOf, seen |-> Append(s.seen, e.base)]

-----------------------------------------------------------------------------
(* PNG statistics *)
PngName(ks, dp) == "ic_" \o BaseName(ks) \o "_black_" \o ToString(dp) \o "dp.png"
(* pngs: set of [base, dp, len] *)
PngPick(pngs, ks, target) ==
  LET cand == {p \in pngs : p.base = ks /\ p.dp <= target /\ p.dp \in {48, 24, 18}}
  IN IF cand = {} THEN [ok |-> FALSE, len |-> 0]
     ELSE LET best == CHOOSE p \in cand : \A o \in cand : o.dp <= p.dp IN [ok |-> TRUE, len |-> best.len]
PngFail(cat, ks) == "no PNG found for " \o Str(cat) \o "/1x_web/ic_" \o BaseName(ks) \o "_black_{48,24,18}dp.png"

(***************************************************************************)
(* Output of one category.  order: the category's base names in bytewise   *)
(* order (the model's base pool is listed in that order; the binding       *)
(* re-checks it with the real sort).                                       *)
(***************************************************************************)
ZeroStats == [decls |-> << >>, vars |-> << >>, files |-> 0, svg |-> 0, png24 |-> 0, png48 |-> 0, fails |-> << >>]
AddStats(a, b) == [decls |-> a.decls \o b.decls, vars |-> a.vars \o b.vars, files |-> a.files + b.files,
                   svg |-> a.svg + b.svg, png24 |-> a.png24 + b.png24, png48 |-> a.png48 + b.png48,
                   fails |-> a.fails \o b.fails]

RECURSIVE EmitFrom(_, _, _, _, _)
EmitFrom(cat, fileOf, pngs, order, i) ==
  IF i > Len(order) THEN ZeroStats
  ELSE LET ks == order[i]
           rest == EmitFrom(cat, fileOf, pngs, order, i + 1) IN
       IF ks \notin DOMAIN fileOf THEN rest
       ELSE LET e == fileOf[ks]
                v == VarName(cat, ks) IN
            IF e.bad
              THEN AddStats([ZeroStats EXCEPT !.decls = << [var |-> v, id |-> -1] >>], rest)   \* DroppedFailure
              ELSE LET p24 == PngPick(pngs, ks, 24)
                       p48 == PngPick(pngs, ks, 48)
                   IN AddStats([decls |-> << [var |-> v, id |-> e.id] >>, vars |-> << v >>, files |-> 1, svg |-> e.len,
                                png24 |-> p24.len, png48 |-> p48.len,
                                fails |-> (IF p24.ok THEN << >> ELSE << PngFail(cat, ks) >>) \o
                                          (IF p48.ok THEN << >> ELSE << PngFail(cat, ks) >>)], rest)

(* A top-level entry: [name (part), isDir, hasSvg, entries, pngs]; order: all top-level names bytewise *)
RECURSIVE ParseFrom(_, _, _)
ParseFrom(tops, baseOrder, i) ==
  IF i > Len(tops) THEN ZeroStats
  ELSE LET d == tops[i]
           rest == ParseFrom(tops, baseOrder, i + 1) IN
       IF ~d.isDir \/ d.name.h = "." \/ ~d.hasSvg THEN rest
       ELSE AddStats(EmitFrom(d.name, Chosen(d.name, d.entries), d.pngs, baseOrder, 1), rest)
=============================================================================
