------------------------------ MODULE Generator ------------------------------
(***************************************************************************)
(* generate.Generator's gradient helpers (property C19, used by C07).      *)
(* The contract is stated on the register machine of Renderer.tla, not as  *)
(* a fixed call sequence:                                                  *)
(*   Rejected(sel0, n)   which error the helper must return, decided from  *)
(*                       the selector state before the call and the number *)
(*                       of stops, before anything is written;             *)
(*   GradPost(r0, r1, a) after an accepted call: CREG[CSEL0] holds a       *)
(*                       gradient value whose own fields name the shape,   *)
(*                       spread and number of stops given; the stop        *)
(*                       colours and offsets sit in the contiguous         *)
(*                       registers it names, the matrix in the six number  *)
(*                       registers below its number base; CSEL and NSEL    *)
(*                       are what they were;                               *)
(*   Linear/Circular/EllipticalGeom   the matrix realises the geometry.    *)
(* GenCalls is the documented algorithm (bases 10), used by MC_Generator   *)
(* to show that the contract is satisfiable from every selector state      *)
(* given faithful selector read-backs.                                     *)
(* args: [shape, spread, stops (seq of [c |-> rgba, o |-> F32]), m (6 F32)]*)
(***************************************************************************)
EXTENDS Renderer

ErrTooMany == "ivg: too many gradient stops"
ErrOverlap == "ivg: CSEL used as both gradient and stop"
StopBase == 10                                   \* documented CBASE = NBASE

(* the colour selector would be overwritten by a stop colour *)
Overlaps(cSel, n) == \E i \in 0..n - 1 : (StopBase + i) % 64 = cSel % 64

Rejected(cSel, n) ==
  IF n > 58 THEN ErrTooMany
  ELSE IF Overlaps(cSel, n) THEN ErrOverlap
  ELSE ""

GradPost(r0, r1, a) ==
  LET q == r1.cReg[Reg(r0.cSel)]
      n == Len(a.stops) IN
  /\ IsGradient(q)
  /\ GradNStops(q) = n /\ GradShape(q) = a.shape /\ GradSpread(q) = a.spread
  /\ \A i \in 1..n : /\ r1.cReg[Reg(GradCBase(q) + i - 1)] = a.stops[i].c
                     /\ Same(r1.nReg[Reg(GradNBase(q) + i - 1)], a.stops[i].o)
  /\ \A i \in 1..6 : Same(r1.nReg[Reg(GradNBase(q) - 7 + i + 64)], a.m[i])
  /\ r1.cSel = r0.cSel /\ r1.nSel = r0.nSel
  \* registers outside the gradient's own are untouched
  /\ \A j \in 0..63 :
       (j # r0.cSel /\ ~(\E i \in 0..n - 1 : (GradCBase(q) + i) % 64 = j)) => r1.cReg[j + 1] = r0.cReg[j + 1]

(* the documented algorithm as a call list, given the selectors it reads back *)
MkC(op, adj, incr, sel) == [op |-> op, adj |-> adj, incr |-> incr, sel |-> sel, f |-> << >>,
                            c |-> << >>, fl |-> << >>, pal |-> << >>]
RECURSIVE StopCalls(_, _)
StopCalls(stops, i) ==
  IF i > Len(stops) THEN << >>
  ELSE << [MkC("SetCReg", 0, 1, 0) EXCEPT !.c = << 0 >> \o stops[i].c],
          [MkC("SetNReg", 0, 1, 0) EXCEPT !.f = << stops[i].o >>] >> \o StopCalls(stops, i + 1)
GenCalls(cSel, nSel, a) ==
  << [MkC("SetCReg", 0, 0, 0) EXCEPT !.c = << 0 >> \o MkGradient(StopBase, StopBase, a.shape, a.spread, Len(a.stops))],
     MkC("SetCSel", 0, 0, StopBase), MkC("SetNSel", 0, 0, StopBase) >>
  \o [i \in 1..6 |-> [MkC("SetNReg", 7 - i, 0, 0) EXCEPT !.f = << a.m[i] >>]]
  \o StopCalls(a.stops, 1)
  \o << MkC("SetCSel", 0, 0, cSel), MkC("SetNSel", 0, 0, nSel) >>

RECURSIVE RunCalls(_, _, _)
RunCalls(r, cs, i) == IF i > Len(cs) THEN r ELSE RunCalls(RStep(r, cs[i]).r, cs, i + 1)

-----------------------------------------------------------------------------
(* Geometry of the written matrix (viewBox -> gradient space), decided in    *)
(* 2^-20 fixed point.  Coordinates are given as multiples of 1/64.  A matrix  *)
(* entry m must be k * 2^-20 exactly (dyadic geometry) for the exact form;    *)
(* otherwise FloorScaled and a tolerance of 2^-12.                            *)
MK(f) == FloorScaled(f, 20)
(* value of row (a,b,c) at the point (x64, y64)/64, in units of 2^-20: [ok, v, exact] *)
RowAt(a, b, c, x64, y64) ==
  LET A == MK(a)  Bb == MK(b)  C == MK(c)
      fits(k, x) == x = 0 \/ Abs(k) <= 536870912 \div Abs(x)
      small == /\ A.ok /\ Bb.ok /\ C.ok /\ Abs(C.k) <= 536870912
               /\ Abs(x64) <= 8192 /\ Abs(y64) <= 8192
               /\ fits(A.k, x64) /\ fits(Bb.k, y64) IN
  IF ~small THEN [ok |-> FALSE, v |-> 0, exact |-> FALSE]
  ELSE [ok |-> TRUE, exact |-> A.exact /\ Bb.exact /\ C.exact,
        \* (A x64 + B y64)/64 + C ; products < 2^29
        v |-> (A.k * x64 + Bb.k * y64) \div 64 + C.k]
Unit == 1048576                                   \* 1.0 in 2^-20
Near(v, want) == Abs(v - want) <= 256 + 8         \* 2^-12 plus fixed-point slack

(* linear: offset 0 at p1, 1 at p2, constant along the perpendicular through p1 *)
LinearGeom(m, p1, p2) ==
  LET at(x, y) == RowAt(m[1], m[2], m[3], x, y)
      e1 == at(p1[1], p1[2])
      e2 == at(p2[1], p2[2])
      e3 == at(p1[1] - (p2[2] - p1[2]), p1[2] + (p2[1] - p1[1])) IN
  e1.ok /\ e2.ok /\ e3.ok => Near(e1.v, 0) /\ Near(e2.v, Unit) /\ Near(e3.v, 0)

(* radial: the centre maps to the origin, the given points to norm 1 *)
NormOne(gx, gy) ==    \* gx, gy in 2^-20; compare gx^2 + gy^2 with 1 in 2^-20 after scaling down to 2^-14
  LET x == gx \div 64  y == gy \div 64 IN Abs(x * x + y * y - 268435456) <= 268435456 \div 1024
CircularGeom(m, c, rv) ==
  LET gx(x, y) == RowAt(m[1], m[2], m[3], x, y)
      gy(x, y) == RowAt(m[4], m[5], m[6], x, y)
      ox == gx(c[1], c[2])  oy == gy(c[1], c[2])
      px == gx(c[1] + rv[1], c[2] + rv[2])  py == gy(c[1] + rv[1], c[2] + rv[2]) IN
  ox.ok /\ oy.ok /\ px.ok /\ py.ok /\ Abs(px.v) < 2097152 /\ Abs(py.v) < 2097152
     => Near(ox.v, 0) /\ Near(oy.v, 0) /\ NormOne(px.v, py.v)
EllipticalGeom(m, c, rv, sv) == CircularGeom(m, c, rv) /\ CircularGeom(m, c, sv)
=============================================================================
