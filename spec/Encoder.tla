------------------------------- MODULE Encoder -------------------------------
(***************************************************************************)
(* Implementation-shaped model of encode.Encoder's control state: what the *)
(* verif-tagged VerifState() hook projects.  One action per public call    *)
(* (EStep).  The byte buffer is not modelled here: what the bytes must     *)
(* *mean* is specified by running Decoder.tla over them (TV_RoundTrip).    *)
(*                                                                         *)
(* State record:                                                           *)
(*   mode   "initial" | "styling" | "drawing"   (initial = zero value,     *)
(*          default metadata not yet written)                              *)
(*   err    "" or the sticky error text                                    *)
(*   cSel, nSel   the selector values the decoding machine will hold at    *)
(*          this point of the stream (6 bit; incrementing writes advance   *)
(*          them)                                                          *)
(*   hiRes  the exported HighResolutionCoordinates field                   *)
(*   hiResL its copy latched by StartPath                                  *)
(*   drawOp, nPend   the pending (unflushed) run: mnemonic and number of   *)
(*          buffered float arguments                                       *)
(*   lod    <<lod0, lod1>>                                                 *)
(***************************************************************************)
EXTENDS Protocol, F32

EZero  == [mode |-> "initial", err |-> "", cSel |-> 0, nSel |-> 0, hiRes |-> FALSE, hiResL |-> FALSE,
           drawOp |-> "", nPend |-> 0, lod |-> << Zero, PosInf >>]
EFresh == [EZero EXCEPT !.mode = "styling"]

Mnemonic(op) ==
  CASE op = "AbsLineTo" -> "L" [] op = "RelLineTo" -> "l"
    [] op = "AbsSmoothQuadTo" -> "T" [] op = "RelSmoothQuadTo" -> "t"
    [] op = "AbsQuadTo" -> "Q" [] op = "RelQuadTo" -> "q"
    [] op = "AbsSmoothCubeTo" -> "S" [] op = "RelSmoothCubeTo" -> "s"
    [] op = "AbsCubeTo" -> "C" [] op = "RelCubeTo" -> "c"
    [] op = "AbsArcTo" -> "A" [] op = "RelArcTo" -> "a"
    [] op = "ClosePathEndPath" -> "Z"
    [] op = "ClosePathAbsMoveTo" -> "Y" [] op = "ClosePathRelMoveTo" -> "y"
    [] op = "AbsHLineTo" -> "H" [] op = "RelHLineTo" -> "h"
    [] op = "AbsVLineTo" -> "V" [] op = "RelVLineTo" -> "v"
    [] OTHER -> "?"
NArgs(m) == CASE m \in {"L", "l", "T", "t", "Y", "y"} -> 2
              [] m \in {"Q", "q", "S", "s"} -> 4
              [] m \in {"C", "c", "A", "a"} -> 6
              [] m \in {"H", "h", "V", "v"} -> 1
              [] OTHER -> 0

(* entering styling mode from the zero value (lazy default metadata) *)
Wake(e) == IF e.mode = "initial" THEN [e EXCEPT !.mode = "styling"] ELSE e

(* the common prologue of styling calls: returns the state and whether to go on *)
CheckStyling(e) ==
  IF e.mode = "drawing" THEN [e EXCEPT !.err = RStyleInDrawing] ELSE Wake(e)

EStep(e, call) ==
  LET op == call.op IN
  CASE op = "Reset" -> EFresh
    [] op \in {"CSel", "NSel", "LOD"} -> Wake(e)
    [] op = "Bytes" -> IF e.err # "" THEN e            \* Bytes flushes the pending run into the stream
                       ELSE [Wake(e) EXCEPT !.drawOp = "", !.nPend = 0]
    [] op = "SetHiRes" -> [e EXCEPT !.hiRes = (call.sel = 1)]
    [] op = "SetCSel" -> LET c == CheckStyling(e) IN
                         IF c.err # "" THEN c ELSE [c EXCEPT !.cSel = call.sel % 64]
    [] op = "SetNSel" -> LET c == CheckStyling(e) IN
                         IF c.err # "" THEN c ELSE [c EXCEPT !.nSel = call.sel % 64]
    [] op = "SetLOD"  -> LET c == CheckStyling(e) IN
                         IF c.err # "" THEN c ELSE [c EXCEPT !.lod = << call.f[1], call.f[2] >>]
    [] op \in {"SetCReg", "SetNReg"} ->
         LET c == CheckStyling(e) IN
         IF c.err # "" THEN c
         ELSE IF call.adj > 6 THEN [c EXCEPT !.err = RBadAdj]
         ELSE IF call.incr = 1 /\ call.adj # 0 THEN [c EXCEPT !.err = RBadIncr]
         ELSE IF call.incr = 1 THEN
              IF op = "SetCReg" THEN [c EXCEPT !.cSel = (@ + 1) % 64] ELSE [c EXCEPT !.nSel = (@ + 1) % 64]
         ELSE c
    [] op = "StartPath" ->
         LET c == CheckStyling(e) IN
         IF c.err # "" THEN c
         ELSE IF call.adj > 6 THEN [c EXCEPT !.err = RBadAdj]
         ELSE [c EXCEPT !.mode = "drawing", !.hiResL = c.hiRes]
    [] OTHER ->                                     \* drawing operations
         IF e.err # "" THEN e
         ELSE IF e.mode # "drawing" THEN [e EXCEPT !.err = RDrawInStyling]
         ELSE LET m == Mnemonic(op)
                  n == IF e.drawOp = m THEN e.nPend + NArgs(m) ELSE NArgs(m) IN
              IF m = "Z" THEN [e EXCEPT !.mode = "styling", !.drawOp = "", !.nPend = 0]
              ELSE IF m \in {"Y", "y"} THEN [e EXCEPT !.drawOp = "", !.nPend = 0]
              ELSE [e EXCEPT !.drawOp = m, !.nPend = n]

(* what an observer may compare; the zero value counts as styling mode *)
Proj(e) == [mode |-> IF e.mode = "initial" THEN "styling" ELSE e.mode, err |-> e.err,
            cSel |-> e.cSel, nSel |-> e.nSel, hiResL |-> e.hiResL, drawOp |-> e.drawOp,
            nPend |-> e.nPend, lod |-> e.lod]
=============================================================================
