--------------------------- MODULE GradientProofs ---------------------------
(***************************************************************************)
(* Unbounded facts about the spread rules of Spread.tla (property   *)
(* C15), proved with TLAPS for ALL integer offsets: the reflect rule is a  *)
(* triangle wave of period 2 (this is what lets TV_Gradient decide offsets *)
(* astronomically far outside [0,1] modulo the far translation), even, and *)
(* stays within [0,1]; repeat has period 1; inside [0,1] every spread is   *)
(* the identity; pad clamps; none has no colour outside.                   *)
(***************************************************************************)
EXTENDS Spread, TLAPS

THEOREM ReflectPeriod == \A t \in Int : Reflect(t + 2 * T12) = Reflect(t)
  BY DEF Reflect, Mod, T12
THEOREM ReflectRange == \A t \in Int : Reflect(t) \in 0..T12
  BY DEF Reflect, Mod, T12
THEOREM ReflectEven == \A t \in Int : Reflect(-t) = Reflect(t)
  <1> TAKE t \in Int
  <1>0. t % 8192 \in 0..8191
        OBVIOUS
  <1>1. CASE t % 8192 = 0
        <2>1. (-t) % 8192 = 0
              BY <1>1, Z3
        <2> QED BY <1>1, <2>1 DEF Reflect, Mod, T12
  <1>2. CASE t % 8192 # 0
        <2>1. (-t) % 8192 = 8192 - (t % 8192)
              BY <1>2, <1>0, Z3
        <2> QED BY <1>2, <1>0, <2>1 DEF Reflect, Mod, T12
  <1> QED BY <1>1, <1>2
THEOREM ReflectRamp == \A t \in 0..T12 : Reflect(t) = t /\ Reflect(T12 + t) = T12 - t
  BY DEF Reflect, Mod, T12
THEOREM RepeatPeriod == \A t \in Int : Repeat(t + T12) = Repeat(t)
  <1> TAKE t \in Int
  <1>1. (t + 4096) % 4096 = t % 4096
        BY Z3
  <1> QED BY <1>1 DEF Repeat, Mod, T12
THEOREM RepeatRange == \A t \in Int : Repeat(t) \in 0..(T12 - 1)
  BY DEF Repeat, Mod, T12
THEOREM InsideIdentity == \A s \in 0..3 : \A t \in 0..T12 : Clamp(s, t) = t
  BY DEF Clamp, T12
THEOREM PadClamps == \A t \in Int : (t < 0 => Clamp(1, t) = 0) /\ (t > T12 => Clamp(1, t) = T12)
  BY DEF Clamp, T12
THEOREM NoneOutside == \A t \in Int : (t < 0 \/ t > T12) => Clamp(0, t) = -1
  BY DEF Clamp, T12
THEOREM ClampRange == \A s \in 0..3 : \A t \in Int : Clamp(s, t) \in (-1)..T12
  BY DEF Clamp, Reflect, Repeat, Mod, T12
=============================================================================
