----------------------------- MODULE GEN_MdFile -----------------------------
(***************************************************************************)
(* File-level behaviour of the Material Design converter (C20, second      *)
(* part): a path opacity becomes a blend of transparent (0x7f) with the    *)
(* first palette colour (0x80) stored once per distinct opacity in         *)
(* CREG[CSEL-adj], adj numbering the opacities in order of first           *)
(* appearance; circles become two half-turn relative arcs appended (after  *)
(* a close-and-move) to the first path that is not skipped, or a path of   *)
(* their own when there is none; the two known-bad paths are skipped.      *)
(* Every file of up to MaxPaths paths over five path templates x circle    *)
(* lists x three (size, outSize, viewBox) set-ups is printed with its      *)
(* expected calls; the replayer writes the SVG, runs mdicons.ParseFile and *)
(* decodes the bytes it produced.                                          *)
(***************************************************************************)
EXTENDS PathData, TLC, Json

CONSTANTS MaxPaths

(* path templates: cmds + salt + opacity attribute; skip templates are literal *)
C1 == << [v |-> "M", g |-> 1, z |-> FALSE], [v |-> "h", g |-> 1, z |-> FALSE], [v |-> "v", g |-> 2, z |-> FALSE] >>
C2 == << [v |-> "M", g |-> 1, z |-> FALSE], [v |-> "L", g |-> 2, z |-> FALSE], [v |-> "M", g |-> 1, z |-> TRUE],
         [v |-> "c", g |-> 1, z |-> FALSE] >>
Templates == <<
  [kind |-> "p", cmds |-> C1, salt |-> 1, attr |-> "", val |-> "", o |-> << 1, 0 >>],
  [kind |-> "p", cmds |-> C2, salt |-> 4, attr |-> "opacity", val |-> "0.5", o |-> << 1, 1 >>],
  [kind |-> "p", cmds |-> C1, salt |-> 7, attr |-> "fill-opacity", val |-> ".25", o |-> << 1, 2 >>],
  [kind |-> "p", cmds |-> C1, salt |-> 3, attr |-> "fill-opacity", val |-> "0.5", o |-> << 1, 1 >>],
  [kind |-> "skip", cmds |-> << >>, salt |-> 0, attr |-> "", val |-> "", o |-> << 1, 0 >>] >>
CircleLists == << << >>, << [cx |-> << 24, 0 >>, cy |-> << 24, 0 >>, r |-> << 4, 0 >>] >>,
                  << [cx |-> << 10, 0 >>, cy |-> << 12, 0 >>, r |-> << 5, 1 >>],
                     [cx |-> << 61, 1 >>, cy |-> << 8, 0 >>, r |-> << 3, 0 >>] >> >>
Setups == << [size |-> 48, out |-> 48, vb |-> "0 0 48 48", scale |-> << 1, 0 >>, half |-> << 24, 0 >>, ox |-> << 0, 0 >>, oy |-> << 0, 0 >>],
             [size |-> 24, out |-> 48, vb |-> "0 0 24 24", scale |-> << 2, 0 >>, half |-> << 24, 0 >>, ox |-> << 0, 0 >>, oy |-> << 0, 0 >>],
             [size |-> 48, out |-> 48, vb |-> "-4 2 48 48", scale |-> << 1, 0 >>, half |-> << 24, 0 >>, ox |-> << -4, 0 >>, oy |-> << 2, 0 >>] >>

VARIABLES paths, ci, si, done
vars == << paths, ci, si, done >>
Init == paths = << >> /\ ci \in 1..3 /\ si \in 1..3 /\ done = FALSE
Next == /\ ~done
        /\ \/ Len(paths) < MaxPaths /\ \E t \in 1..5 : paths' = Append(paths, t) /\ UNCHANGED << ci, si, done >>
           \/ done' = TRUE /\ UNCHANGED << paths, ci, si >>
Spec == Init /\ [][Next]_vars

S == Setups[si]
T == MdTransform(S.scale, S.half, S.ox, S.oy)
Circles == CircleLists[ci]

(* adj of template t given the opacities seen before (sequence of dyadics) *)
IndexOf(seen, o) == IF \E j \in 1..Len(seen) : seen[j] = o THEN CHOOSE j \in 1..Len(seen) : seen[j] = o ELSE 0
BlendT(o) == (255 * o[1]) \div Pow2(o[2])                 \* floor(255 * opacity)

CircleCalls(first, adj) ==
  LET one(c, start) ==
        LET cx == DAdd(DMul(c.cx, S.scale), << -(S.half[1] * Pow2(S.ox[2]) + S.ox[1]), S.ox[2] >>)
            cy == DAdd(DMul(c.cy, S.scale), << -(S.half[1] * Pow2(S.oy[2]) + S.oy[1]), S.oy[2] >>)
            r  == DMul(c.r, S.scale)
            mv == << DF32(DAdd(cx, << -r[1], r[2] >>)), DF32(cy) >> IN
        << IF start THEN MkCall("StartPath", adj, mv, << >>) ELSE MkCall("ClosePathAbsMoveTo", 0, mv, << >>),
           MkCall("RelArcTo", 0, << DF32(r), DF32(r), Zero, DF32(DMul(r, << 2, 0 >>)), Zero >>, << 0, 1 >>),
           MkCall("RelArcTo", 0, << DF32(r), DF32(r), Zero, DF32(DMul(r, << -2, 0 >>)), Zero >>, << 0, 1 >>) >>
      RECURSIVE all(_)
      all(j) == IF j > Len(Circles) THEN << >> ELSE one(Circles[j], first /\ j = 1) \o all(j + 1)
  IN all(1)

RECURSIVE FileCalls(_, _, _)
(* i: next path, seen: opacities so far, circlesLeft: circles not yet attached *)
FileCalls(i, seen, circlesLeft) ==
  IF i > Len(paths) THEN
     IF circlesLeft /\ Len(Circles) > 0
       THEN CircleCalls(TRUE, 0) \o << MkCall("ClosePathEndPath", 0, << >>, << >>) >>
       ELSE << >>
  ELSE LET t == Templates[paths[i]] IN
     IF t.kind = "skip" THEN FileCalls(i + 1, seen, circlesLeft)
     ELSE LET opaque == t.o = << 1, 0 >>
              known  == IndexOf(seen, t.o)
              adj    == IF opaque THEN 0 ELSE IF known # 0 THEN known ELSE Len(seen) + 1
              seen2  == IF opaque \/ known # 0 THEN seen ELSE Append(seen, t.o)
              setc   == IF opaque \/ known # 0 THEN << >>
                        ELSE << [op |-> "SetCReg", adj |-> adj, f |-> << >>, fl |-> << >>,
                                 c |-> << 3, BlendT(t.o), 127, 128, 0 >>] >>
              body   == Meaning(t.cmds, t.salt, T, adj)                 \* ends with ClosePathEndPath
              withC  == IF circlesLeft THEN SubSeq(body, 1, Len(body) - 1) \o CircleCalls(FALSE, adj)
                                            \o << body[Len(body)] >> ELSE body
          IN setc \o withC \o FileCalls(i + 1, seen2, FALSE)

SkipD == << "M20.36 18", "M16 34h22v4H16z" >>
PathJ(i) == LET t == Templates[paths[i]] IN
  IF t.kind = "skip" THEN [d |-> SkipD[(i % 2) + 1], fill |-> IF i % 2 = 1 THEN "#fff" ELSE "", attr |-> "", val |-> ""]
  ELSE [d |-> Spell(t.cmds, t.salt, IF t.salt % 2 = 0 THEN 1 ELSE 3, "md", t.salt % 3 = 0), fill |-> "", attr |-> t.attr, val |-> t.val]
DTxt(d) == IF d[2] = 0 THEN ToString(d[1]) ELSE IF d = << 5, 1 >> THEN "2.5" ELSE IF d = << 61, 1 >> THEN "30.5" ELSE "?"

Emit == done => PrintT(ToJson([diag |-> "mdfile", size |-> S.size, out |-> S.out, vb |-> S.vb,
                               paths |-> [i \in 1..Len(paths) |-> PathJ(i)],
                               circles |-> [j \in 1..Len(Circles) |-> [cx |-> DTxt(Circles[j].cx), cy |-> DTxt(Circles[j].cy), r |-> DTxt(Circles[j].r)]],
                               calls |-> FileCalls(1, << >>, TRUE)]))
=============================================================================
