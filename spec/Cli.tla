--------------------------------- MODULE Cli ---------------------------------
(***************************************************************************)
(* The disassembler command (cmd/disivg) as a machine over a small file    *)
(* system, beyond the listed properties: a run reads one input file and    *)
(* either prints the listing on standard output or *replaces* the named    *)
(* output file by it.  The output file after a run depends only on that    *)
(* run -- never on what the file held before (a shorter listing written    *)
(* over a longer one leaves no tail behind); a failing run (missing or     *)
(* ill-formed input, wrong number of arguments) writes nothing anywhere    *)
(* and exits non-zero.                                                     *)
(*                                                                         *)
(* Contents are abstract: absent, junk (whatever was there before), or the  *)
(* listing of i = the complete disassembly of input i, which the           *)
(* binding obtains from decode.Disassemble (the subject of C11).           *)
(***************************************************************************)
EXTENDS Integers, Sequences, FiniteSets, TLC

CONSTANTS Inputs,        \* input names
          Kind,          \* [Inputs -> {"valid", "illformed", "missing"}]
          Outs           \* output file names (besides "stdout")

Listing(i) == [k |-> "listing", of |-> i]
Absent == [k |-> "absent", of |-> ""]
Junk == [k |-> "junk", of |-> ""]
Nothing == [k |-> "nothing", of |-> ""]

Init0 == [fs |-> [o \in Outs |-> IF o = "f2" THEN Junk ELSE Absent], stdout |-> Nothing, rc |-> 0]

(* one run:  disivg [-o out] in      (out = "stdout" is the flag's default) *)
Run(s, in, out) ==
  IF Kind[in] # "valid" THEN [s EXCEPT !.stdout = Nothing, !.rc = 1]
  ELSE IF out = "stdout" THEN [s EXCEPT !.stdout = Listing(in), !.rc = 0]
  ELSE [s EXCEPT !.fs[out] = Listing(in), !.stdout = Nothing, !.rc = 0]

(* disivg with no file argument, or two *)
Usage(s) == [s EXCEPT !.stdout = Nothing, !.rc = 2]
=============================================================================
