---------------------------- MODULE EncoderBytes ----------------------------
(***************************************************************************)
(* The byte stream of encode.Encoder, exactly (beyond the listed           *)
(* properties, which only constrain what the bytes denote).                *)
(*                                                                         *)
(* State: the control record of Encoder.tla (ctl) + the bytes written so   *)
(* far (buf) + the pending run of one drawing verb (op, args).  One action *)
(* per public call (EBStep), shaped like the code:                         *)
(*   - a never-Reset Encoder writes the default header (magic, zero        *)
(*     chunks) the first time a call needs the stream;                     *)
(*   - Reset writes magic, the number of metadata chunks and, only when    *)
(*     they differ from the defaults, the viewBox chunk and the suggested  *)
(*     palette chunk (entries up to the last non-black one, in the         *)
(*     shortest of the four colour formats that holds every entry);        *)
(*   - styling calls append at once; numbers and colours take the          *)
(*     shortest form that is exact (Numbers.tla / Colors.tla tables),      *)
(*     SetNReg the shortest of its three number kinds (real first, then    *)
(*     coordinate, then zero-to-one on equal length);                      *)
(*   - drawing calls are buffered while the verb repeats and flushed when  *)
(*     it changes, at a close-and-move / end of path, and by Bytes, in     *)
(*     batches of at most 32 (lines) / 16 (curves, arcs) / 1 (H, V, moves) *)
(*     repetitions per opcode; coordinates are quantised to 1/64 at the    *)
(*     resolution latched by StartPath.                                    *)
(* A failed Encoder (sticky error) writes nothing more.                    *)
(*                                                                         *)
(* MC_EncoderBytes closes the loop inside the specification: for every     *)
(* history of the bound, Decoder.tla run over these bytes delivers the     *)
(* history (up to quantisation) -- C01 at design level.  TV_EncoderBytes   *)
(* compares the bytes of real Encoders with these, byte for byte.          *)
(***************************************************************************)
EXTENDS Encoder, Numbers, Colors

EMagic  == << 137, 73, 86, 71 >>
Magic00 == EMagic \o << 0 >>

-----------------------------------------------------------------------------
(* numbers *)
LE2(v) == << v % 256, v \div 256 >>
EncNat(u) ==                                   \* u < 2^29
  IF u < 128 THEN << 2 * u >>
  ELSE IF u < 16384 THEN LE2(4 * u + 1)
  ELSE LET v == 4 * u + 3 IN << v % 256, (v \div 256) % 256, (v \div 65536) % 256, v \div 16777216 >>

(* four bytes: mantissa rounded to a multiple of 4 (half up, never carrying *)
(* out of the mantissa), low two bits set                                   *)
Enc4(f) ==
  LET m  == Man(f)
      m2 == IF m < 8388606 THEN m + 2 ELSE m
      lo == m2 % 65536
      l3 == (lo - (lo % 4)) + 3
      hi == (f[1] - (f[1] % 128)) + (m2 \div 65536)
  IN << l3 % 256, l3 \div 256, hi % 256, hi \div 256 >>

EncReal(f) ==
  LET a == AsScaled(f, 0) IN
  IF a.ok /\ a.k >= 0 /\ a.k < 16384 THEN EncNat(a.k) ELSE Enc4(f)

EncCoord(f) ==
  LET a == AsScaled(f, 0)   b == AsScaled(f, 6) IN
  IF a.ok /\ a.k >= -64 /\ a.k < 64 THEN << 2 * (a.k + 64) >>
  ELSE IF b.ok /\ b.k >= -8192 /\ b.k < 8192 THEN LE2(4 * (b.k + 8192) + 1)
  ELSE Enc4(f)

(* f * 15120 rounded to float32 (nearest even), for finite f > 0, as << q, x >> = q * 2^x, q < 2^24 *)
Mul15120(f) ==
  LET M  == Sig(f)   e == Ex(f)
      Mh == M \div 4096   Ml == M % 4096
      T  == Ml * 15120
      hi == Mh * 15120 + (T \div 4096)          \* P = hi * 4096 + lo
      lo == T % 4096
      nb == IF hi > 0 THEN Log2(hi) + 13 ELSE Log2(lo) + 1
      s  == IF nb > 24 THEN nb - 24 ELSE 0
      q0 == IF s = 0 THEN hi * 4096 + lo
            ELSE IF s <= 12 THEN hi * Pow2(12 - s) + (lo \div Pow2(s))
            ELSE hi \div Pow2(s - 12)
      rem == IF s = 0 THEN 0
             ELSE IF s <= 12 THEN lo % Pow2(s)
             ELSE (hi % Pow2(s - 12)) * 4096 + lo
      half == IF s = 0 THEN 1 ELSE Pow2(s - 1)
      up == s > 0 /\ (rem > half \/ (rem = half /\ q0 % 2 = 1))
      q1 == IF up THEN q0 + 1 ELSE q0
  IN IF q1 = 16777216 THEN << 8388608, e + s + 1 >> ELSE << q1, e + s >>

(* the natural u < 15120 with float32(u) = float32(f * 15120), or -1 *)
ZtoU(f) ==
  IF ~IsFinite(f) THEN -1
  ELSE IF IsZero(f) THEN 0
  ELSE IF Sign(f) = 1 THEN -1
  ELSE LET p == Mul15120(f)  q == p[1]  x == p[2] IN
       IF x >= 0 THEN (IF x <= 14 /\ q <= 15119 \div Pow2(x) THEN q * Pow2(x) ELSE -1)
       ELSE IF -x > 24 THEN -1
       ELSE IF q % Pow2(-x) = 0 /\ q \div Pow2(-x) < 15120 THEN q \div Pow2(-x) ELSE -1

EncZto(f) ==
  LET u == ZtoU(f) IN
  IF u < 0 THEN Enc4(f)
  ELSE IF u % 126 = 0 THEN << 2 * (u \div 126) >>
  ELSE LE2(4 * u + 1)

(* angle: g = f - floor(f), exact in the code's float64 whenever it matters, then rounded to float32.   *)
(* f >= 0: g is a sub-set of f's own bits.  f < 0: g = 1 - frac(|f|); for |f| < 1/2 this needs rounding *)
(* to the 2^-24 grid of [1/2, 1] (nearest, ties to the even mantissa; it may reach 1.0 itself).         *)
AngleFrac(f) ==
  LET M == Sig(f)   e == Ex(f) IN
  IF ~IsFinite(f) THEN [ok |-> FALSE, v |-> Zero]
  ELSE [ok |-> TRUE, v |->
    IF IsZero(f) \/ e >= 0 THEN Zero                                   \* integers (and zeros): no fraction
    ELSE IF Sign(f) = 0 THEN
       (IF Lt(f, One) THEN f ELSE OfScaled(M % Pow2(-e), -e))
    ELSE IF -e <= 23 /\ M >= Pow2(-e) THEN                              \* f <= -1
       (IF M % Pow2(-e) = 0 THEN Zero ELSE OfScaled(Pow2(-e) - (M % Pow2(-e)), -e))
    ELSE LET sh == -(e + 24) IN                                         \* -1 < f < 0: x = |f| = M 2^e, X = x 2^24
       IF sh <= 0 THEN OfScaled(16777216 - M * Pow2(-sh), 24)
       ELSE IF sh > 24 THEN One
       ELSE LET Xi == M \div Pow2(sh)   rem == M % Pow2(sh)   half == Pow2(sh - 1)
                N  == IF rem < half THEN 16777216 - Xi
                      ELSE IF rem > half THEN 16777216 - Xi - 1
                      ELSE (IF (16777216 - Xi) % 2 = 0 THEN 16777216 - Xi ELSE 16777216 - Xi - 1)
            IN OfScaled(N, 24)]
EncAngleOK(f) == AngleFrac(f).ok
EncAngle(f) == EncZto(AngleFrac(f).v)

(* low-resolution quantisation: floor(64 f + 1/2) / 64 for -128 <= f < 128 *)
Quant(hi, f) ==
  IF hi \/ ~InLowResRange(f) \/ IsNaN(f) THEN f
  ELSE LET n == FloorScaled(f, 7).k               \* floor(128 f)
           k == (n + 1) \div 2 IN                  \* floor(64 f + 1/2)
       OfScaled(k, 6)

-----------------------------------------------------------------------------
(* colours: the shortest form with a payload that decodes to exactly this operand *)
Enc1Set(c) == {x \in 0..255 : Dec1(x) = c}
Is2C(c) == c[1] = 0 /\ \A i \in 2..5 : c[i] % 17 = 0
ColorForm(c) ==
  IF Enc1Set(c) # {} THEN 0
  ELSE IF Is2C(c) THEN 1
  ELSE IF c[1] = 0 /\ c[5] = 255 THEN 2
  ELSE IF c[1] = 0 THEN 3
  ELSE 4
ColorPayload(c, form) ==
  CASE form = 0 -> << CHOOSE x \in Enc1Set(c) : TRUE >>
    [] form = 1 -> << (c[2] \div 17) * 16 + (c[3] \div 17), (c[4] \div 17) * 16 + (c[5] \div 17) >>
    [] form = 2 -> << c[2], c[3], c[4] >>
    [] form = 3 -> << c[2], c[3], c[4], c[5] >>
    [] form = 4 -> << c[2], c[3], c[4] >>

-----------------------------------------------------------------------------
(* metadata written by Reset(viewBox, palette) *)
RECURSIVE LastNonBlack(_, _)
LastNonBlack(pal, n) == IF n = 0 \/ pal[n] # Black THEN n ELSE LastNonBlack(pal, n - 1)    \* 0: all black

RECURSIVE CatMap(_, _, _)
CatMap(Op(_), s, i) == IF i > Len(s) THEN << >> ELSE Op(s[i]) \o CatMap(Op, s, i + 1)

PalForm(pal, n) ==
  LET D(i) == << 0 >> \o pal[i] IN
  IF \A i \in 1..n : Enc1Set(D(i)) # {} THEN 0
  ELSE IF \A i \in 1..n : Is2C(D(i)) THEN 1
  ELSE IF \A i \in 1..n : pal[i][4] = 255 THEN 2
  ELSE 3

RECURSIVE PalBytes(_, _, _, _)
PalBytes(pal, n, form, i) ==
  IF i > n THEN << >> ELSE ColorPayload(<< 0 >> \o pal[i], form) \o PalBytes(pal, n, form, i + 1)

ResetBytes(vb, pal) ==
  LET hasVB  == vb # DefaultViewBox
      hasPal == pal # DefaultPalette
      vbBody == << 0 >> \o EncCoord(vb[1]) \o EncCoord(vb[2]) \o EncCoord(vb[3]) \o EncCoord(vb[4])
      n      == LET k == LastNonBlack(pal, 64) IN IF k = 0 THEN 1 ELSE k      \* at least one entry is written
      form   == PalForm(pal, n)
      palBody == << 2, (n - 1) + 64 * form >> \o PalBytes(pal, n, form, 1)
  IN EMagic \o EncNat((IF hasVB THEN 1 ELSE 0) + (IF hasPal THEN 1 ELSE 0))
     \o (IF hasVB THEN EncNat(Len(vbBody)) \o vbBody ELSE << >>)
     \o (IF hasPal THEN EncNat(Len(palBody)) \o palBody ELSE << >>)

-----------------------------------------------------------------------------
(* drawing runs *)
OpBase(m) == CASE m = "L" -> 0 [] m = "l" -> 32 [] m = "T" -> 64 [] m = "t" -> 80 [] m = "Q" -> 96 [] m = "q" -> 112
               [] m = "S" -> 128 [] m = "s" -> 144 [] m = "C" -> 160 [] m = "c" -> 176 [] m = "A" -> 192 [] m = "a" -> 208
               [] m = "Z" -> 225 [] m = "Y" -> 226 [] m = "y" -> 227 [] m = "H" -> 230 [] m = "h" -> 231
               [] m = "V" -> 232 [] m = "v" -> 233
MaxRep(m) == IF m \in {"L", "l"} THEN 32 ELSE IF m \in {"Z", "Y", "y", "H", "h", "V", "v"} THEN 1 ELSE 16
IsArc(m) == m \in {"A", "a"}
PerRep(m) == IF IsArc(m) THEN 6 ELSE NArgs(m)      \* buffered items per repetition (arcs: rx ry angle flags x y)

(* a buffered item: [t |-> "c" coordinate | "a" angle | "n" natural, f, n] *)
ItemBytes(it, hi) ==
  CASE it.t = "c" -> EncCoord(Quant(hi, it.f))
    [] it.t = "a" -> EncAngle(it.f)
    [] it.t = "n" -> EncNat(it.n)

RECURSIVE ItemsBytes(_, _, _, _)
ItemsBytes(args, from, to, hi) ==
  IF from > to THEN << >> ELSE ItemBytes(args[from], hi) \o ItemsBytes(args, from + 1, to, hi)

RECURSIVE Batches(_, _, _, _, _)
Batches(m, args, i, n, hi) ==                 \* i: first unwritten item, n: repetitions left
  IF n = 0 THEN << >>
  ELSE LET r == IF n > MaxRep(m) THEN MaxRep(m) ELSE n IN
       << OpBase(m) + r - 1 >> \o ItemsBytes(args, i, i + r * PerRep(m) - 1, hi)
       \o Batches(m, args, i + r * PerRep(m), n - r, hi)

FlushBytes(m, args, hi) ==
  IF m = "" THEN << >>
  ELSE IF NArgs(m) = 0 THEN << OpBase(m) >>
  ELSE Batches(m, args, 1, Len(args) \div PerRep(m), hi)

ItemsOf(call) ==
  LET co(f) == [t |-> "c", f |-> f, n |-> 0] IN
  IF call.op \in {"AbsArcTo", "RelArcTo"}
    THEN << co(call.f[1]), co(call.f[2]), [t |-> "a", f |-> call.f[3], n |-> 0],
            [t |-> "n", f |-> Zero, n |-> call.fl[1] + 2 * call.fl[2]], co(call.f[4]), co(call.f[5]) >>
    ELSE [i \in 1..Len(call.f) |-> co(call.f[i])]

(* is every number of the call inside the model's domain? (only non-finite arc angles are not) *)
CallExact(call) == call.op \in {"AbsArcTo", "RelArcTo"} => EncAngleOK(call.f[3])

-----------------------------------------------------------------------------
EBZero == [ctl |-> EZero, buf |-> << >>, op |-> "", args |-> << >>]

EBStep(s, call) ==
  LET c2   == EStep(s.ctl, call)
      base == IF s.ctl.mode = "initial" /\ c2.mode # "initial" THEN Magic00 ELSE s.buf      \* lazy default header
      hi   == s.ctl.hiResL
      flushed == base \o FlushBytes(s.op, s.args, hi)
      keep(b) == [s EXCEPT !.ctl = c2, !.buf = b]
      adjB == IF call.incr = 1 THEN 7 ELSE call.adj
  IN
  IF call.op = "Reset" THEN [ctl |-> c2, buf |-> ResetBytes(call.f, call.pal), op |-> "", args |-> << >>]
  ELSE IF s.ctl.err # "" THEN s
  ELSE IF c2.err # "" THEN keep(base)                          \* the failing call writes nothing (but may wake the header)
  ELSE CASE call.op \in {"CSel", "NSel", "LOD", "SetHiRes"} -> keep(base)
         [] call.op = "Bytes" -> [ctl |-> c2, buf |-> flushed, op |-> "", args |-> << >>]
         [] call.op = "SetCSel" -> keep(base \o << call.sel % 64 >>)
         [] call.op = "SetNSel" -> keep(base \o << (call.sel % 64) + 64 >>)
         [] call.op = "SetCReg" ->
              LET c == NormC(call.c)  form == ColorForm(c) IN keep(base \o << 128 + 8 * form + adjB >> \o ColorPayload(c, form))
         [] call.op = "SetNReg" ->
              LET r == EncReal(call.f[1])  c == EncCoord(call.f[1])  z == EncZto(call.f[1])
                  pick == IF Len(c) < Len(r)
                            THEN (IF Len(z) < Len(c) THEN << 184, z >> ELSE << 176, c >>)
                            ELSE (IF Len(z) < Len(r) THEN << 184, z >> ELSE << 168, r >>)
              IN keep(base \o << pick[1] + adjB >> \o pick[2])
         [] call.op = "SetLOD" -> keep(base \o << 199 >> \o EncReal(call.f[1]) \o EncReal(call.f[2]))
         [] call.op = "StartPath" ->
              keep(base \o << 192 + call.adj >> \o EncCoord(Quant(c2.hiResL, call.f[1])) \o EncCoord(Quant(c2.hiResL, call.f[2])))
         [] OTHER ->
              LET m == Mnemonic(call.op)
                  b1 == IF s.op # m THEN flushed ELSE base
                  a1 == IF s.op # m THEN ItemsOf(call) ELSE s.args \o ItemsOf(call) IN
              IF m \in {"Z", "Y", "y"}
                THEN [ctl |-> c2, buf |-> b1 \o FlushBytes(m, a1, hi), op |-> "", args |-> << >>]
                ELSE [ctl |-> c2, buf |-> b1, op |-> m, args |-> a1]

(* what Bytes() returns in state s (without changing it): the buffer with the pending run flushed *)
BytesOf(s) ==
  LET base == IF s.ctl.mode = "initial" THEN Magic00 ELSE s.buf IN
  base \o FlushBytes(s.op, s.args, s.ctl.hiResL)
=============================================================================
