--------------------------- MODULE GEN_PathGolden ---------------------------
(***************************************************************************)
(* Path data whose operands are LONG decimals (17 and more significant     *)
(* digits) next to the midpoint of two neighbouring float32 values: the    *)
(* operand emitted is the float32 NEAREST to the number that was spelled   *)
(* (ties to even), not the result of rounding twice.  PathData.tla spells  *)
(* its numbers from small dyadic values; these cases are given as data,    *)
(* and for each of them TLC proves with the multi-limb naturals of Big.tla *)
(* that the expected float32  sig * 2^ex  is the nearest one:              *)
(*      (2 sig - 1) * 2^ex  <  2 * N / 10^k  <  (2 sig + 1) * 2^ex         *)
(* (or equality on the side of the even significand for an exact tie).     *)
(* Converter dialect, relative operands, size = outSize: the operands pass *)
(* through the transform unchanged.  Printed like GEN_PathData's cases.    *)
(***************************************************************************)
EXTENDS Integers, Sequences, TLC, Json, Big

RECURSIVE BDigits(_, _)
BDigits(ds, acc) == IF ds = << >> THEN acc ELSE BDigits(Tail(ds), BMulAdd(acc, 10, Head(ds)))
RECURSIVE BTimes10(_, _)
BTimes10(a, k) == IF k = 0 THEN a ELSE BTimes10(BMul(a, 10), k - 1)

(* digits: all decimal digits of |v| without the point; k: how many of them follow the point *)
(* sig, ex: the expected float32 |f| = sig * 2^ex (sig < 2^24); tie: "no" | "even"          *)
Cases == <<
  [s |-> "16777217.000000001", digits |-> << 1,6,7,7,7,2,1,7,0,0,0,0,0,0,0,0,1 >>, k |-> 9, neg |-> FALSE, sig |-> 8388609, ex |-> 1, tie |-> "no", f |-> << 19328, 1 >>],
  [s |-> "16777216.999999999", digits |-> << 1,6,7,7,7,2,1,6,9,9,9,9,9,9,9,9,9 >>, k |-> 9, neg |-> FALSE, sig |-> 8388608, ex |-> 1, tie |-> "no", f |-> << 19328, 0 >>],
  [s |-> "16777217", digits |-> << 1,6,7,7,7,2,1,7 >>, k |-> 0, neg |-> FALSE, sig |-> 8388608, ex |-> 1, tie |-> "even", f |-> << 19328, 0 >>],
  [s |-> "1.00000005960464478", digits |-> << 1,0,0,0,0,0,0,0,5,9,6,0,4,6,4,4,7,8 >>, k |-> 17, neg |-> FALSE, sig |-> 8388609, ex |-> -23, tie |-> "no", f |-> << 16256, 1 >>],
  [s |-> "-1.00000005960464477", digits |-> << 1,0,0,0,0,0,0,0,5,9,6,0,4,6,4,4,7,7 >>, k |-> 17, neg |-> TRUE, sig |-> 8388608, ex |-> -23, tie |-> "no", f |-> << 49024, 0 >>],
  [s |-> "-33554434.0000000000000001", digits |-> << 3,3,5,5,4,4,3,4,0,0,0,0,0,0,0,0,0,0,0,0,0,0,0,1 >>, k |-> 16, neg |-> TRUE, sig |-> 8388609, ex |-> 2, tie |-> "no", f |-> << 52224, 1 >>],
  [s |-> "0.50000002980232239", digits |-> << 0,5,0,0,0,0,0,0,2,9,8,0,2,3,2,2,3,9 >>, k |-> 17, neg |-> FALSE, sig |-> 8388609, ex |-> -24, tie |-> "no", f |-> << 16128, 1 >> ] >>

(* 2 * N, and (2 sig + d) * 10^k, brought to a common power of two *)
Lhs(c)    == LET n2 == BMul(BDigits(c.digits, << >>), 2) IN IF c.ex < 0 THEN BShl(n2, -c.ex) ELSE n2
Rhs(c, d) == LET m == BTimes10(BOf((2 * c.sig) + d), c.k) IN IF c.ex > 0 THEN BShl(m, c.ex) ELSE m
Nearest(c) ==
  /\ c.sig >= 8388608 /\ c.sig < 16777216
  /\ IF c.tie = "no" THEN BCmp(Rhs(c, -1), Lhs(c)) < 0 /\ BCmp(Lhs(c), Rhs(c, 1)) < 0
     ELSE c.sig % 2 = 0 /\ (BCmp(Lhs(c), Rhs(c, 1)) = 0 \/ BCmp(Lhs(c), Rhs(c, -1)) = 0)
  /\ Sig(c.f) = c.sig /\ Ex(c.f) = c.ex /\ (Sign(c.f) = 1) = c.neg

ASSUME AllNearest == \A i \in 1..Len(Cases) : Nearest(Cases[i])

VARIABLE i
Init == i = 1
Next == i < Len(Cases) /\ i' = i + 1
Spec == Init /\ [][Next]_i

Start == [op |-> "StartPath", adj |-> 3, f |-> << << 49600, 0 >>, << 49600, 0 >> >>, fl |-> << >>]      \* M0 0 at size 48: (-24, -24)
End   == [op |-> "ClosePathEndPath", adj |-> 0, f |-> << >>, fl |-> << >>]
Eight == << 16640, 0 >>
Emit ==
  LET c == Cases[i] IN
  PrintT(ToJson([diag |-> "path", dialect |-> "md", s |-> "M0 0l" \o c.s \o " 8h" \o c.s \o "z",
                 adj |-> 3, tlist |-> << >>, hasT |-> FALSE,
                 md |-> [size |-> 48, out |-> 48, ox |-> << 0, 0 >>, oy |-> << 0, 0 >>],
                 calls |-> << Start, [op |-> "RelLineTo", adj |-> 0, f |-> << c.f, Eight >>, fl |-> << >>],
                              [op |-> "RelHLineTo", adj |-> 0, f |-> << c.f >>, fl |-> << >>], End >>]))
=============================================================================
