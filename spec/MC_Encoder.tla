----------------------------- MODULE MC_Encoder -----------------------------
(***************************************************************************)
(* Product of the implementation-shaped Encoder model, a second copy that  *)
(* was Reset first, and the 3-state Protocol automaton, driven by the same *)
(* call from a concrete alphabet.  MC (history hidden by the VIEW):        *)
(*   Agree     the Encoder model reports an error exactly when the         *)
(*             Protocol automaton is in "failed", with one of the reasons  *)
(*             of the first violating call, and the modes correspond;      *)
(*   Sticky    an error never changes or disappears except by Reset;       *)
(*   ZeroIsReset  the zero value and a freshly reset Encoder project the   *)
(*             same after every history;                                   *)
(*   ResetFresh   Reset lands in the fresh state whatever came before.     *)
(* GEN (cfg GEN_Encoder): every history of length Depth is printed once as *)
(* JSON with the expected projection after every call; the Go replayer     *)
(* steps a real Encoder through it.                                        *)
(***************************************************************************)
EXTENDS Encoder, TLC, Json

CONSTANTS Depth, Gen

Mk(op, adj, incr, sel) == [op |-> op, adj |-> adj, incr |-> incr, sel |-> sel,
                           f |-> << >>, c |-> << >>, fl |-> << >>]
Fs(call, fs) == [call EXCEPT !.f = fs]
F1  == << 16256, 0 >>       \* 1.0
F2  == << 16384, 0 >>       \* 2.0
Fh  == << 16128, 0 >>       \* 0.5

Alphabet == {
  Mk("Reset", 0, 0, 0), Mk("CSel", 0, 0, 0), Mk("LOD", 0, 0, 0), Mk("Bytes", 0, 0, 0),
  Mk("SetHiRes", 0, 0, 1),
  Mk("SetCSel", 0, 0, 5), Mk("SetNSel", 0, 0, 63),
  [Mk("SetCReg", 1, 0, 0) EXCEPT !.c = << 0, 48, 102, 7, 255 >>],
  [Mk("SetCReg", 0, 1, 0) EXCEPT !.c = << 1, 3, 0, 0, 0 >>],
  [Mk("SetCReg", 7, 0, 0) EXCEPT !.c = << 0, 0, 0, 0, 255 >>],
  Fs(Mk("SetNReg", 2, 1, 0), << Fh >>), Fs(Mk("SetNReg", 0, 1, 0), << Fh >>),
  Fs(Mk("SetLOD", 0, 0, 0), << F1, F2 >>),
  Fs(Mk("StartPath", 0, 0, 0), << F1, F2 >>), Fs(Mk("StartPath", 7, 0, 0), << F1, F2 >>),
  Fs(Mk("AbsLineTo", 0, 0, 0), << F1, F1 >>), Fs(Mk("RelCubeTo", 0, 0, 0), << F1, F2, F1, F2, F1, F2 >>),
  Fs(Mk("ClosePathAbsMoveTo", 0, 0, 0), << F2, F1 >>), Mk("ClosePathEndPath", 0, 0, 0) }

VARIABLES e, eR, p, hist
vars == << e, eR, p, hist >>

Init == e = EZero /\ eR = EFresh /\ p = PInit /\ hist = << >>

Next ==
  /\ Len(hist) < Depth
  /\ \E call \in Alphabet :
       /\ e'  = EStep(e, call)
       /\ eR' = EStep(eR, call)
       /\ p'  = PStep(p, ClassOf(call))
       /\ hist' = Append(hist, [call |-> call, want |-> Proj(EStep(e, call)),
                                 ps |-> PStep(p, ClassOf(call)).s,
                                 why |-> PStep(p, ClassOf(call)).why])

Spec == Init /\ [][Next]_vars
View == << e, eR, p, Len(hist) >>

Agree ==
  /\ (e.err # "") <=> (p.s = "failed")
  /\ (p.s = "failed" => e.err \in p.why)
  /\ (p.s # "failed" => Proj(e).mode = p.s)
ZeroIsReset == Proj(e) = Proj(eR)
Sticky == [][e.err # "" /\ e'.err # e.err => e' = EFresh]_vars
ResetFresh == [][(\E i \in {Len(hist')} : i > 0 /\ hist'[i].call.op = "Reset") => e' = EFresh]_vars

(* GEN: print each complete history once *)
Emit == (Gen /\ Len(hist) = Depth) => PrintT(ToJson([diag |-> "hist", h |-> hist]))
=============================================================================
