----------------------------- MODULE GEN_Pixels -----------------------------
(***************************************************************************)
(* When must two renderings be the same picture (property C16)?            *)
(* The anti-aliasing accumulator of golang.org/x/image/vector is trusted   *)
(* third-party code and is not modelled.  What the specification defines   *)
(* is which *inputs to the rasteriser* must coincide, from Renderer.tla:   *)
(*  (a) Translate: same program, rectangle at another origin: identical    *)
(*      rasteriser calls except the rectangle of Draw;                     *)
(*  (b) Scale2(k): viewBox, every coordinate and radius times 2^k, the     *)
(*      linear part of gradient matrices times 2^-k: identical calls and   *)
(*      paints (a power of two commutes with every float operation);       *)
(*  (c) Indirect: colours routed through the palette, a register, or a     *)
(*      blend that resolves to the same colour: identical paints.          *)
(* These are checked here *at log level* on every generated program (MC    *)
(* part: invariants ScaleSame, IndirectSame), and every program is printed *)
(* with its variants; the Go replayer renders them with the real           *)
(* vec.Rasterizer and compares pixel buffers.  VecRasterizer: the          *)
(* configured compositing operator is used by the first Draw only; a       *)
(* target rectangle that is empty (no width or height, or Min beyond Max)  *)
(* contains no pixel, so nothing may change.                               *)
(***************************************************************************)
EXTENDS Renderer, TLC, Json, FiniteSets

CONSTANTS MaxPaths

Mk(op, adj, incr, sel) == [op |-> op, adj |-> adj, incr |-> incr, sel |-> sel, f |-> << >>, c |-> << >>,
                           fl |-> << >>, pal |-> << >>, role |-> "none"]
K(k) == OfScaled(k, 6)                                  \* k/64
Co(op, ks) == [Mk(op, 0, 0, 0) EXCEPT !.f = [i \in 1..Len(ks) |-> K(ks[i])], !.role = "coord"]

Paints == {"opaque", "translucent", "linear", "radial", "transparent"}
Shapes == {"tri", "curves", "disc", "smooth", "ring"}

(* styling calls that put the paint into CREG[0] (CSEL = 0) *)
PaintCalls(p) ==
  LET flat(c) == << [Mk("SetCReg", 0, 0, 0) EXCEPT !.c = << 0 >> \o c, !.role = "flat"] >>
      grad(shape) ==
        << Mk("SetCSel", 0, 0, 10), Mk("SetNSel", 0, 0, 10),
           [Mk("SetNReg", 6, 0, 0) EXCEPT !.f = << OfScaled(1, 5) >>, !.role = "ma"],      \* a = 1/32
           [Mk("SetNReg", 5, 0, 0) EXCEPT !.f = << OfScaled(1, 6) >>, !.role = "ma"],      \* b = 1/64
           [Mk("SetNReg", 4, 0, 0) EXCEPT !.f = << OfScaled(1, 1) >>, !.role = "mc"],      \* c = 1/2
           [Mk("SetNReg", 3, 0, 0) EXCEPT !.f = << OfScaled(-1, 6) >>, !.role = "ma"],
           [Mk("SetNReg", 2, 0, 0) EXCEPT !.f = << OfScaled(1, 5) >>, !.role = "ma"],
           [Mk("SetNReg", 1, 0, 0) EXCEPT !.f = << OfScaled(1, 2) >>, !.role = "mc"],
           [Mk("SetCReg", 0, 1, 0) EXCEPT !.c = << 0, 255, 64, 0, 255 >>], [Mk("SetNReg", 0, 1, 0) EXCEPT !.f = << Zero >>],
           [Mk("SetCReg", 0, 1, 0) EXCEPT !.c = << 0, 0, 64, 128, 128 >>], [Mk("SetNReg", 0, 1, 0) EXCEPT !.f = << OfScaled(1, 1) >>],
           [Mk("SetCReg", 0, 1, 0) EXCEPT !.c = << 0, 0, 0, 255, 255 >>], [Mk("SetNReg", 0, 1, 0) EXCEPT !.f = << One >>],
           Mk("SetCSel", 0, 0, 0),
           [Mk("SetCReg", 0, 0, 0) EXCEPT !.c = << 0 >> \o MkGradient(10, 10, shape, 1 + shape, 3)] >>
  IN CASE p = "opaque" -> flat(<< 200, 30, 60, 255 >>)
       [] p = "translucent" -> flat(<< 20, 40, 60, 128 >>)
       [] p = "transparent" -> flat(<< 0, 0, 0, 0 >>)
       [] p = "linear" -> grad(0)
       [] p = "radial" -> grad(1)

(* drawing calls; o shifts the shape (1/64 units) *)
ShapeCalls(s, o) ==
  LET sp(x, y) == [Mk("StartPath", 0, 0, 0) EXCEPT !.f = << K(x + o), K(y) >>, !.role = "coord"]
      arc(op, r, x, y, fl) == [Mk(op, 0, 0, 0) EXCEPT !.f = << K(r), K(r), Zero, K(x), K(y) >>, !.fl = fl, !.role = "arc"] IN
  CASE s = "tri" -> << sp(-1280, -1024), Co("AbsLineTo", << 1152 + o, -896 >>), Co("RelLineTo", << -960, 1792 >>),
                       Mk("ClosePathEndPath", 0, 0, 0) >>
    [] s = "curves" -> << sp(-1024, 0), Co("AbsCubeTo", << -1024 + o, -1408, 896 + o, -1408, 896 + o, 64 >>),
                          Co("RelSmoothCubeTo", << 0, 1280, -960, 1344 >>), Co("AbsHLineTo", << -1536 + o >>),
                          Co("ClosePathRelMoveTo", << 512, -512 >>), Co("RelQuadTo", << 256, -512, 512, 0 >>),
                          Co("RelVLineTo", << 384 >>), Mk("ClosePathEndPath", 0, 0, 0) >>
    [] s = "disc" -> << sp(-1536, 128), arc("RelArcTo", 1536, 3072, 0, << 0, 1 >>), arc("RelArcTo", 1536, -3072, 0, << 0, 1 >>),
                        Mk("ClosePathEndPath", 0, 0, 0) >>
    \* almost a full circle drawn by one arc: the end point is two lattice steps (1/32) from the start
    [] s = "ring" -> << sp(-64, -896), arc("RelArcTo", 1024, 2, 0, << 1, 1 >>), Mk("ClosePathEndPath", 0, 0, 0) >>
    [] s = "smooth" -> << sp(-1408, 512), Co("RelQuadTo", << 448, -1280, 896, 0 >>), Co("RelSmoothQuadTo", << 896, 0 >>),
                          Co("AbsSmoothQuadTo", << 1408 + o, 768 >>), Co("AbsVLineTo", << 1280 >>),
                          Mk("ClosePathEndPath", 0, 0, 0) >>

PathProg(spec) == PaintCalls(spec.p) \o ShapeCalls(spec.s, spec.o)
ResetCall(pal) == [Mk("Reset", 0, 0, 0) EXCEPT !.f = DefaultViewBox, !.pal = pal, !.role = "coord"]

VARIABLES specs, done
vars == << specs, done >>
Init == specs = << >> /\ done = FALSE
Next == /\ ~done
        /\ \/ /\ Len(specs) < MaxPaths
              /\ \E p \in Paints, s \in Shapes, o \in {0, 192} :
                   /\ (Len(specs) >= 1 => o = 192 * (Len(specs) % 2))          \* bound the fan-out beyond the first path
                   /\ specs' = Append(specs, [p |-> p, s |-> s, o |-> o])
              /\ UNCHANGED done
           \/ Len(specs) >= 1 /\ done' = TRUE /\ UNCHANGED specs
Spec == Init /\ [][Next]_vars

RECURSIVE Flat(_, _)
Flat(ss, i) == IF i > Len(ss) THEN << >> ELSE PathProg(ss[i]) \o Flat(ss, i + 1)
Prog == << ResetCall(DefaultPalette) >> \o Flat(specs, 1)

(* ---- (b) scaling by 2^k ---- *)
Mul2(f, k) == IF IsZero(f) \/ ~IsFinite(f) THEN f ELSE Bits(Sign(f), Exp(f) + k, Man(f))
ScaleCall(c, k) ==
  CASE c.role = "coord" -> [c EXCEPT !.f = [i \in 1..Len(c.f) |-> Mul2(c.f[i], k)]]
    [] c.role = "arc"   -> [c EXCEPT !.f = << Mul2(c.f[1], k), Mul2(c.f[2], k), c.f[3], Mul2(c.f[4], k), Mul2(c.f[5], k) >>]
    [] c.role = "ma"    -> [c EXCEPT !.f = << Mul2(c.f[1], -k) >>]
    [] OTHER -> c
ScaleProg(P, k) == [i \in 1..Len(P) |-> ScaleCall(P[i], k)]

(* ---- (c) indirect colours ---- *)
IndirectCall(c, way) ==
  IF c.role # "flat" THEN << c >>
  ELSE CASE way = 1 -> << [c EXCEPT !.c = << 1, 3, 0, 0, 0 >>] >>                           \* palette entry 3 (set by Reset)
         [] way = 2 -> << Mk("SetCSel", 0, 0, 40), [c EXCEPT !.role = "none"], Mk("SetCSel", 0, 0, 0),
                          [c EXCEPT !.c = << 2, 40, 0, 0, 0 >>] >>                          \* via register 40
         [] way = 3 -> << Mk("SetCSel", 0, 0, 41), [c EXCEPT !.role = "none"], Mk("SetCSel", 0, 0, 0),
                          [c EXCEPT !.c = << 3, 255, 127, 192 + 41, 0 >>] >>                \* blend t = 255 of (transparent, CREG[41])
         \* blend t = 1 of (CREG[41], transparent): each channel is floor((254 x + 128) / 255), which is x again for
         \* x <= 127 and for x = 128 exactly at a multiple of 255 (the rounding boundary); used only where it is the identity
         [] way = 4 -> << Mk("SetCSel", 0, 0, 41), [c EXCEPT !.role = "none"], Mk("SetCSel", 0, 0, 0),
                          [c EXCEPT !.c = << 3, 1, 192 + 41, 127, 0 >>] >>
         \* palette entry 3 after register 3 was overwritten with another colour (round 10): an index into the palette
         \* means the palette of this graphic, whatever the registers hold by now
         [] way = 5 -> << Mk("SetCSel", 0, 0, 3), [c EXCEPT !.role = "none", !.c = << 0, 9, 8, 7, 255 >>], Mk("SetCSel", 0, 0, 0),
                          [c EXCEPT !.c = << 1, 3, 0, 0, 0 >>] >>
         \* register 3 as Reset left it (round 10): the palette entry, read through a register reference without any write before
         [] way = 6 -> << [c EXCEPT !.c = << 2, 3, 0, 0, 0 >>] >>
RECURSIVE IndirectProg(_, _, _)
IndirectProg(P, i, way) == IF i > Len(P) THEN << >> ELSE IndirectCall(P[i], way) \o IndirectProg(P, i + 1, way)
(* way 1 needs the colour in the palette: only when the program has a single flat colour *)
FlatC == { SubSeq(Prog[i].c, 2, 5) : i \in { j \in 1..Len(Prog) : Prog[j].role = "flat" } }
Blend1Id(c) == \A ch \in 1..4 : BlendCh(1, c[ch], 0) = c[ch]
IndirectVariant(way) ==
  IF way = 4 THEN
     (IF \A c \in FlatC : Blend1Id(c) THEN << Prog[1] >> \o IndirectProg(Prog, 2, 4) ELSE Prog)
  ELSE IF way \in {1, 5, 6} THEN
     (IF Cardinality(FlatC) = 1
        THEN << ResetCall([DefaultPalette EXCEPT ![4] = CHOOSE c \in FlatC : TRUE]) >> \o IndirectProg(Prog, 2, way)
        ELSE Prog)
  ELSE << Prog[1] >> \o IndirectProg(Prog, 2, way)

(* ---- rasteriser log of a program under Renderer.tla ---- *)
RECURSIVE LogOf(_, _, _, _)
LogOf(P, i, r, acc) ==
  IF i > Len(P) THEN acc
  ELSE LET res == RStep(r, P[i]) IN
       LogOf(P, i + 1, res.r,
             acc \o [j \in 1..Len(res.rz) |-> [k |-> res.rz[j].k, p |-> res.rz[j].p,
                                              paint |-> IF res.rz[j].k = "Draw" THEN r.paint ELSE [k |-> "none"]]])
Log(P, rect) == LogOf(P, 1, RInit(rect), << >>)

Rect0 == << 0, 0, 128, 128 >>
ScaleSame == done => \A k \in {-1, 1, 2} :
               \* the paint's matrix registers differ by construction; geometry and stop data must not
               LET a == Log(Prog, Rect0)  b == Log(ScaleProg(Prog, k), Rect0) IN
               /\ Len(a) = Len(b)
               /\ \A j \in 1..Len(a) : a[j].k = b[j].k /\ a[j].p = b[j].p
IndirectSame == done => \A way \in 1..6 : Log(IndirectVariant(way), Rect0) = Log(Prog, Rect0)
TranslateSame == done => LET a == Log(Prog, Rect0)  b == Log(Prog, << 7, 5, 135, 133 >>) IN
                         Len(a) = Len(b) /\ \A j \in 1..Len(a) : a[j].k = b[j].k /\ a[j].p = b[j].p
NDraws == Cardinality({ j \in 1..Len(Log(Prog, Rect0)) : Log(Prog, Rect0)[j].k = "Draw" })

Strip(P) == [i \in 1..Len(P) |-> [op |-> P[i].op, adj |-> P[i].adj, incr |-> P[i].incr, sel |-> P[i].sel,
                                  f |-> P[i].f, c |-> P[i].c, fl |-> P[i].fl, pal |-> P[i].pal]]
Emit == done => PrintT(ToJson([diag |-> "pixels", prog |-> Strip(Prog), ndraws |-> NDraws,
                               \* -15, +14: far off the model's 1/64 lattice (not covered by ScaleSame), same exactness argument
                               scaled |-> [k \in {-15, -1, 1, 2, 14} |-> Strip(ScaleProg(Prog, k))],
                               indirect |-> [w \in 1..6 |-> Strip(IndirectVariant(w))]]))
=============================================================================
