------------------------------ MODULE Renderer ------------------------------
(***************************************************************************)
(* The FFV0 virtual machine as a painter (format document: Registers,      *)
(* Level of Detail, Colors and Gradients, Opcodes) on top of an abstract   *)
(* rasteriser with the pen semantics of golang.org/x/image/vector, shaped  *)
(* like render.Renderer so that traces bind to it: one action (RStep) per  *)
(* Destination call, returning the rasteriser calls the call must cause.   *)
(*                                                                         *)
(* Registers: 64 colour registers (RGBA), 64 number registers (float32     *)
(* bits), selectors modulo 64, LOD bounds, custom palette.                 *)
(*                                                                         *)
(* Geometry is exact fixed point (no reals in TLA+): a viewBox coordinate  *)
(* is k/64; a pixel coordinate is P * 2^-16.  On this lattice every IEEE   *)
(* operation of the affine map is exact (an operation whose exact result   *)
(* is representable returns it), so expected and observed rasteriser       *)
(* coordinates are compared for equality.  When an input leaves the        *)
(* lattice (non-dyadic scale, coordinate not a multiple of 1/64, > 24      *)
(* significant bits) the state is marked g.ok = FALSE and geometry is not  *)
(* judged until the next Reset; after an elliptical arc the pen is the     *)
(* observed end point and is marked inexact until the next absolute move.  *)
(***************************************************************************)
EXTENDS Numbers, Colors

QPix == 65536                              \* pixel fixed-point denominator 2^16

Fits24(P) == P = 0 \/ LET a == Abs(P) IN a < 16777216 \/ a % Pow2(Log2(a) - 23) = 0

ZeroRegs == [i \in 1..64 |-> Zero]

(* geometry set-up from viewBox (float32 bits) and target rectangle <<x0,y0,x1,y1>>.        *)
(* Exact mode (approx = FALSE): the scale is dyadic, sx / sy hold it in units of 2^-10.     *)
(* Approximate mode (approx = TRUE): any other positive scale dx/wx; coordinates are then   *)
(* computed by staged integer division (error < 2^-15 px) and compared within the           *)
(* tolerance, never for equality.                                                            *)
Geo(vb, rect) ==
  LET a  == [i \in 1..4 |-> AsScaled(vb[i], 6)]
      dx == rect[3] - rect[1]
      dy == rect[4] - rect[2]
      wx == a[3].k - a[1].k
      wy == a[4].k - a[2].k
      sane == /\ \A i \in 1..4 : a[i].ok /\ Abs(a[i].k) <= 65536
              /\ wx > 0 /\ wy > 0 /\ dx > 0 /\ dy > 0 /\ dx <= 8192 /\ dy <= 8192
              /\ wx <= 65536 /\ wy <= 65536
      dyadic == /\ sane
                /\ (dx * 65536) % wx = 0 /\ (dy * 65536) % wy = 0
                /\ (dx * 65536) \div wx < 16777216 /\ (dy * 65536) \div wy < 16777216
  IN [ok |-> sane, approx |-> sane /\ ~dyadic,
      sx |-> IF dyadic THEN (dx * 65536) \div wx ELSE 0,        \* x scale in units of 2^-10
      sy |-> IF dyadic THEN (dy * 65536) \div wy ELSE 0,
      dx |-> dx, dy |-> dy, wx |-> wx, wy |-> wy,
      mx |-> a[1].k, my |-> a[2].k]

(* floor(k * d * 2^16 / w) for |k| <= 2^17, 0 < d <= 2^13, 0 < w <= 2^16, result magnitude < 2^30 *)
ScaleApprox(k, d, w) ==
  LET n == k * d                              \* |n| < 2^30
      q == n \div w   rem == n % w IN          \* n = q w + rem, 0 <= rem < w
  q * 65536 + ((rem * 32768) \div w) * 2      \* rem * 2^15 < 2^31
ApproxFits(k, d, w) == Abs(k) <= 131072 /\ Abs((k * d) \div w) < 16000

RInit(rect) ==
  [vb |-> DefaultViewBox, pal |-> DefaultPalette, cReg |-> DefaultPalette, nReg |-> ZeroRegs,
   cSel |-> 0, nSel |-> 0, lod |-> << Zero, PosInf >>, rect |-> rect,
   g |-> Geo(DefaultViewBox, rect),
   inPath |-> FALSE, en |-> FALSE, unspec |-> FALSE, paint |-> [k |-> "none"],
   pen |-> << 0, 0 >>, first |-> << 0, 0 >>, exact |-> TRUE, sm |-> << 0, 0, 0 >>]

RReset(r, vb, pal) ==
  [RInit(r.rect) EXCEPT !.vb = vb, !.pal = pal, !.cReg = pal, !.g = Geo(vb, r.rect),
                        !.en = r.en, !.unspec = r.unspec]

-----------------------------------------------------------------------------
(* Paint selection when a path starts *)

Reg(i) == (i % 64) + 1                    \* register index -> sequence position

RECURSIVE StopsOK(_, _, _, _, _)
(* stops i..n-1 valid: premultiplied colour, offset in [0,1], strictly increasing *)
StopsOK(r, q, i, n, prev) ==
  IF i = n THEN TRUE
  ELSE LET c == r.cReg[Reg(GradCBase(q) + i)]
           o == r.nReg[Reg(GradNBase(q) + i)] IN
       /\ ValidPremul(c)
       /\ Le(Zero, o) /\ Le(o, One) /\ Gt(o, prev)
       /\ StopsOK(r, q, i + 1, n, o)

GradStops(r, q) == [i \in 1..GradNStops(q) |->
                      [c |-> r.cReg[Reg(GradCBase(q) + i - 1)], o |-> r.nReg[Reg(GradNBase(q) + i - 1)]]]
GradMatrix(r, q) == [i \in 1..6 |-> r.nReg[Reg(GradNBase(q) - 7 + i + 64)]]

(* [en, unspec, paint] for the colour register value q and raster height H *)
PaintOf(r, q) ==
  LET H     == OfScaled(r.rect[4] - r.rect[2], 0)
      lodOK == Le(r.lod[1], H) /\ Lt(H, r.lod[2])
  IN IF ValidPremul(q) THEN
       [en |-> q[4] # 0 /\ lodOK, unspec |-> FALSE, paint |-> [k |-> "flat", c |-> q]]
     ELSE IF IsGradient(q) THEN
       \* fewer than two stops: the format document and the property are silent
       [en |-> GradNStops(q) >= 2 /\ StopsOK(r, q, 0, GradNStops(q), NegInf) /\ lodOK,
        unspec |-> GradNStops(q) < 2 /\ lodOK,
        paint |-> [k |-> "grad", shape |-> GradShape(q), spread |-> GradSpread(q),
                   stops |-> GradStops(r, q), m |-> GradMatrix(r, q)]]
     ELSE [en |-> FALSE, unspec |-> FALSE, paint |-> [k |-> "none"]]

-----------------------------------------------------------------------------
(* Affine map, fixed point.  A point is <<X, Y>> in units of 2^-16 pixel.    *)
(* Each function returns [ok, v].                                            *)
K64(f) == AsScaled(f, 6)
AbsX(r, f) == LET a == K64(f) IN
              IF ~a.ok \/ Abs(a.k) > 32768 \/ Abs(a.k - r.g.mx) > 65536 THEN [ok |-> FALSE, v |-> 0]
              ELSE IF r.g.approx THEN [ok |-> ApproxFits(a.k - r.g.mx, r.g.dx, r.g.wx), v |-> ScaleApprox(a.k - r.g.mx, r.g.dx, r.g.wx)]
              ELSE LET P == (a.k - r.g.mx) * r.g.sx IN [ok |-> Fits24(P), v |-> P]
AbsY(r, f) == LET a == K64(f) IN
              IF ~a.ok \/ Abs(a.k) > 32768 \/ Abs(a.k - r.g.my) > 65536 THEN [ok |-> FALSE, v |-> 0]
              ELSE IF r.g.approx THEN [ok |-> ApproxFits(a.k - r.g.my, r.g.dy, r.g.wy), v |-> ScaleApprox(a.k - r.g.my, r.g.dy, r.g.wy)]
              ELSE LET P == (a.k - r.g.my) * r.g.sy IN [ok |-> Fits24(P), v |-> P]
RelX(r, f) == LET a == K64(f) IN
              IF ~a.ok \/ Abs(a.k) > 65536 THEN [ok |-> FALSE, v |-> 0]
              ELSE IF r.g.approx THEN [ok |-> ApproxFits(a.k, r.g.dx, r.g.wx) /\ Abs(r.pen[1]) < 536870912,
                                       v |-> r.pen[1] + ScaleApprox(a.k, r.g.dx, r.g.wx)]
              ELSE LET P == a.k * r.g.sx IN
                   [ok |-> Fits24(P) /\ Fits24(r.pen[1] + P) /\ Abs(r.pen[1] + P) < 1073741824, v |-> r.pen[1] + P]
RelY(r, f) == LET a == K64(f) IN
              IF ~a.ok \/ Abs(a.k) > 65536 THEN [ok |-> FALSE, v |-> 0]
              ELSE IF r.g.approx THEN [ok |-> ApproxFits(a.k, r.g.dy, r.g.wy) /\ Abs(r.pen[2]) < 536870912,
                                       v |-> r.pen[2] + ScaleApprox(a.k, r.g.dy, r.g.wy)]
              ELSE LET P == a.k * r.g.sy IN
                   [ok |-> Fits24(P) /\ Fits24(r.pen[2] + P) /\ Abs(r.pen[2] + P) < 1073741824, v |-> r.pen[2] + P]
Pt(px, py) == [ok |-> px.ok /\ py.ok, v |-> << px.v, py.v >>]
AbsPt(r, fx, fy) == Pt(AbsX(r, fx), AbsY(r, fy))
RelPt(r, fx, fy) == Pt(RelX(r, fx), RelY(r, fy))
(* reflection of the previous control point about the pen, or the pen *)
Smooth(r, typ) ==
  IF r.sm[1] # typ THEN [ok |-> TRUE, v |-> r.pen]
  ELSE LET x == 2 * r.pen[1] - r.sm[2]  y == 2 * r.pen[2] - r.sm[3] IN
       [ok |-> (r.g.approx \/ (Fits24(x) /\ Fits24(y))) /\ Abs(x) < 1073741824 /\ Abs(y) < 1073741824, v |-> << x, y >>]

(* expected rasteriser calls: [k, p (sequence of fixed-point numbers), i (integers)] *)
RZ(k, p) == [k |-> k, p |-> p, i |-> << >>]

-----------------------------------------------------------------------------
(* One Destination call.  Result:                                           *)
(*   r     next state                                                       *)
(*   rz    the rasteriser calls this call must cause (meaningful when       *)
(*         judge = "exact")                                                 *)
(*   judge "exact"  compare rz with the observation, coordinates equal      *)
(*         "tol"    same, coordinates within tolerance (pen inexact)        *)
(*         "arc"    elliptical arc: relational check by the trace spec      *)
(*         "none"   not judged (off-lattice / unspecified enabling)         *)
(*         "quiet"  no rasteriser activity allowed (path disabled, styling) *)
(*   wc, wn  the register write of this call, if any: <<index, value>>      *)
(***************************************************************************)
NoWrite == << >>
Res(r, rz, judge) == [r |-> r, rz |-> rz, judge |-> judge, wc |-> NoWrite, wn |-> NoWrite]

Quiet(r)  == Res(r, << >>, "quiet")
OffLattice(r) == Res([r EXCEPT !.g.ok = FALSE], << >>, "none")

(* after a segment ending at point e with new smooth memory s *)
Seg(r, rz, e, s) ==
  Res([r EXCEPT !.pen = e, !.sm = s], rz, IF r.exact /\ ~r.g.approx THEN "exact" ELSE "tol")

DrawStep(r, call) ==
  LET op == call.op  f == call.f IN
  IF ~r.en THEN (IF r.unspec THEN Res(r, << >>, "none") ELSE Quiet(r))
  ELSE IF ~r.g.ok THEN Res(r, << >>, "none")
  ELSE
  CASE op = "AbsLineTo" -> LET e == AbsPt(r, f[1], f[2]) IN
         IF ~e.ok THEN OffLattice(r) ELSE Seg(r, << RZ("LineTo", e.v) >>, e.v, << 0, 0, 0 >>)
    [] op = "RelLineTo" -> LET e == RelPt(r, f[1], f[2]) IN
         IF ~e.ok THEN OffLattice(r) ELSE Seg(r, << RZ("LineTo", e.v) >>, e.v, << 0, 0, 0 >>)
    [] op = "AbsHLineTo" -> LET x == AbsX(r, f[1]) IN
         IF ~x.ok THEN OffLattice(r)
         ELSE Seg(r, << RZ("LineTo", << x.v, r.pen[2] >>) >>, << x.v, r.pen[2] >>, << 0, 0, 0 >>)
    [] op = "RelHLineTo" -> LET x == RelX(r, f[1]) IN
         IF ~x.ok THEN OffLattice(r)
         ELSE Seg(r, << RZ("LineTo", << x.v, r.pen[2] >>) >>, << x.v, r.pen[2] >>, << 0, 0, 0 >>)
    [] op = "AbsVLineTo" -> LET y == AbsY(r, f[1]) IN
         IF ~y.ok THEN OffLattice(r)
         ELSE Seg(r, << RZ("LineTo", << r.pen[1], y.v >>) >>, << r.pen[1], y.v >>, << 0, 0, 0 >>)
    [] op = "RelVLineTo" -> LET y == RelY(r, f[1]) IN
         IF ~y.ok THEN OffLattice(r)
         ELSE Seg(r, << RZ("LineTo", << r.pen[1], y.v >>) >>, << r.pen[1], y.v >>, << 0, 0, 0 >>)
    [] op \in {"AbsSmoothQuadTo", "RelSmoothQuadTo"} ->
         LET c == Smooth(r, 1)
             e == IF op = "AbsSmoothQuadTo" THEN AbsPt(r, f[1], f[2]) ELSE RelPt(r, f[1], f[2]) IN
         IF ~c.ok \/ ~e.ok THEN OffLattice(r)
         ELSE Seg(r, << RZ("QuadTo", c.v \o e.v) >>, e.v, << 1, c.v[1], c.v[2] >>)
    [] op \in {"AbsQuadTo", "RelQuadTo"} ->
         LET c == IF op = "AbsQuadTo" THEN AbsPt(r, f[1], f[2]) ELSE RelPt(r, f[1], f[2])
             e == IF op = "AbsQuadTo" THEN AbsPt(r, f[3], f[4]) ELSE RelPt(r, f[3], f[4]) IN
         IF ~c.ok \/ ~e.ok THEN OffLattice(r)
         ELSE Seg(r, << RZ("QuadTo", c.v \o e.v) >>, e.v, << 1, c.v[1], c.v[2] >>)
    [] op \in {"AbsSmoothCubeTo", "RelSmoothCubeTo"} ->
         LET c1 == Smooth(r, 2)
             c2 == IF op = "AbsSmoothCubeTo" THEN AbsPt(r, f[1], f[2]) ELSE RelPt(r, f[1], f[2])
             e  == IF op = "AbsSmoothCubeTo" THEN AbsPt(r, f[3], f[4]) ELSE RelPt(r, f[3], f[4]) IN
         IF ~c1.ok \/ ~c2.ok \/ ~e.ok THEN OffLattice(r)
         ELSE Seg(r, << RZ("CubeTo", c1.v \o c2.v \o e.v) >>, e.v, << 2, c2.v[1], c2.v[2] >>)
    [] op \in {"AbsCubeTo", "RelCubeTo"} ->
         LET ab == op = "AbsCubeTo"
             c1 == IF ab THEN AbsPt(r, f[1], f[2]) ELSE RelPt(r, f[1], f[2])
             c2 == IF ab THEN AbsPt(r, f[3], f[4]) ELSE RelPt(r, f[3], f[4])
             e  == IF ab THEN AbsPt(r, f[5], f[6]) ELSE RelPt(r, f[5], f[6]) IN
         IF ~c1.ok \/ ~c2.ok \/ ~e.ok THEN OffLattice(r)
         ELSE Seg(r, << RZ("CubeTo", c1.v \o c2.v \o e.v) >>, e.v, << 2, c2.v[1], c2.v[2] >>)
    [] op \in {"AbsArcTo", "RelArcTo"} ->
         \* the end point in pixels.  A zero radius is a straight line to the mapped end point;
         \* otherwise the curve itself is judged relationally (C06) and the pen becomes inexact.
         \* Not judged: NaN radii, coincident start and end points (outside the property).
         LET e == IF op = "AbsArcTo" THEN AbsPt(r, f[4], f[5]) ELSE RelPt(r, f[4], f[5]) IN
         IF ~e.ok THEN OffLattice(r)
         ELSE IF IsNaN(f[1]) \/ IsNaN(f[2]) \/ ~IsFinite(f[3]) THEN OffLattice(r)
         ELSE IF IsZero(f[1]) \/ IsZero(f[2]) THEN Seg(r, << RZ("LineTo", e.v) >>, e.v, << 0, 0, 0 >>)
         ELSE IF e.v = r.pen THEN OffLattice(r)
         ELSE Res([r EXCEPT !.pen = e.v, !.sm = << 0, 0, 0 >>, !.exact = FALSE], << RZ("ArcEnd", e.v) >>, "arc")
    [] op = "ClosePathAbsMoveTo" ->
         LET e == AbsPt(r, f[1], f[2]) IN
         IF ~e.ok THEN OffLattice(r)
         ELSE Res([r EXCEPT !.pen = e.v, !.first = e.v, !.sm = << 0, 0, 0 >>, !.exact = TRUE],
                  << RZ("ClosePath", << >>), RZ("MoveTo", e.v) >>, IF r.g.approx THEN "tol" ELSE "exact")
    [] op = "ClosePathRelMoveTo" ->
         \* closing returns the pen to the sub-path start; the move is relative to it
         LET r1 == [r EXCEPT !.pen = r.first]
             e  == RelPt(r1, f[1], f[2]) IN
         IF ~e.ok THEN OffLattice(r)
         ELSE Res([r EXCEPT !.pen = e.v, !.first = e.v, !.sm = << 0, 0, 0 >>],
                  << RZ("ClosePath", << >>), RZ("MoveTo", e.v) >>, IF r.exact /\ ~r.g.approx THEN "exact" ELSE "tol")
    [] OTHER -> Res(r, << >>, "none")

RStep(r, call) ==
  LET op == call.op IN
  CASE op = "Reset" -> Quiet(RReset(r, call.f, call.pal))
    [] op \in {"CSel", "NSel"} -> Quiet(r)
    [] op = "SetCSel" -> Quiet([r EXCEPT !.cSel = call.sel % 64])
    [] op = "SetNSel" -> Quiet([r EXCEPT !.nSel = call.sel % 64])
    [] op = "SetCReg" ->
         LET i == Reg(r.cSel - call.adj + 64)
             v == Resolve(call.c, r.pal, r.cReg) IN
         [Quiet([r EXCEPT !.cReg[i] = v, !.cSel = IF call.incr = 1 THEN (@ + 1) % 64 ELSE @])
            EXCEPT !.wc = << i, v >>]
    [] op = "SetNReg" ->
         LET i == Reg(r.nSel - call.adj + 64) IN
         [Quiet([r EXCEPT !.nReg[i] = call.f[1], !.nSel = IF call.incr = 1 THEN (@ + 1) % 64 ELSE @])
            EXCEPT !.wn = << i, call.f[1] >>]
    [] op = "SetLOD" -> Quiet([r EXCEPT !.lod = << call.f[1], call.f[2] >>])
    [] op = "StartPath" ->
         LET p  == PaintOf(r, r.cReg[Reg(r.cSel - call.adj + 64)])
             e  == AbsPt(r, call.f[1], call.f[2])
             r1 == [r EXCEPT !.inPath = TRUE, !.en = p.en, !.unspec = p.unspec, !.paint = p.paint] IN
         IF ~p.en THEN (IF p.unspec THEN Res(r1, << >>, "none") ELSE Quiet(r1))
         ELSE IF ~r.g.ok \/ ~e.ok THEN Res([r1 EXCEPT !.g.ok = FALSE], << >>, "none")
         ELSE Res([r1 EXCEPT !.pen = e.v, !.first = e.v, !.exact = TRUE, !.sm = << 0, 0, 0 >>],
                  << [k |-> "Reset", p |-> << >>, i |-> << r.rect[3] - r.rect[1], r.rect[4] - r.rect[2] >>],
                     RZ("MoveTo", e.v) >>, IF r.g.approx THEN "tol" ELSE "exact")
    [] op = "ClosePathEndPath" ->
         \* the path is closed and drawn exactly once, over the target rectangle, source point (0,0)
         IF ~r.en THEN (IF r.unspec THEN Res([r EXCEPT !.inPath = FALSE], << >>, "none")
                        ELSE Quiet([r EXCEPT !.inPath = FALSE]))
         ELSE Res([r EXCEPT !.inPath = FALSE, !.pen = r.first],
                  << RZ("ClosePath", << >>),
                     [k |-> "Draw", p |-> << >>, i |-> r.rect \o << 0, 0 >>] >>,
                  "draw")
    [] OTHER -> DrawStep(r, call)
=============================================================================
