------------------------------- MODULE Decoder -------------------------------
(***************************************************************************)
(* The IconVG FFV0 decoding machine, written from spec/iconvg-spec-v0.md   *)
(* and the Destination contract (destination.go), structured like the      *)
(* implementation so that traces can be bound to it: one Step = one        *)
(* delivered Destination call (or the end of input, or the error).         *)
(*                                                                         *)
(*   DInit                 initial machine state                           *)
(*   Step(b, st, opts)     -> [st, out, segs]                              *)
(*       out.k = "call"    out.call is the call delivered by this step     *)
(*       out.k = "end"     input exhausted at an instruction boundary      *)
(*       out.k = "err"     the input is rejected (out.msg: which rule)     *)
(*       segs              the byte-segment lengths of the disassembly     *)
(*                         lines this step prints (0 = an "implicit" line) *)
(*                                                                         *)
(* The first step consumes the magic and the whole metadata section and    *)
(* delivers Reset(viewBox, palette): nothing can be delivered before every *)
(* chunk was validated.  A step that delivers a call consumes >= 1 byte.   *)
(*                                                                         *)
(* A call is the record [op, adj, incr, sel, f, c, fl, pal]: name, ADJ,    *)
(* increment flag, selector value, float32 operands (<<hi,lo>> each) in    *)
(* declaration order, colour operand, arc flags <<largeArc, sweep>>,       *)
(* palette (Reset only).                                                   *)
(***************************************************************************)
EXTENDS Numbers, Colors

Magic == << 137, 73, 86, 71 >>

Call(op) == [op |-> op, adj |-> 0, incr |-> 0, sel |-> 0, f |-> << >>, c |-> << >>,
             fl |-> << >>, pal |-> << >>]

DInit == [pos |-> 1, mode |-> "start", op |-> "", reps |-> 0, loose |-> FALSE]

OutCall(c)  == [k |-> "call", call |-> c, msg |-> ""]
OutEnd      == [k |-> "end",  call |-> Call(""), msg |-> ""]
OutErr(m)   == [k |-> "err",  call |-> Call(""), msg |-> m]
ErrState(st) == [st EXCEPT !.mode = "err"]
Fail(st, m) == [st |-> ErrState(st), out |-> OutErr(m), segs |-> << >>]

-----------------------------------------------------------------------------
(* n coordinates starting at p: [ok, vals, pos, segs] *)
RECURSIVE Coords(_, _, _)
Coords(b, p, n) ==
  IF n = 0 THEN [ok |-> TRUE, vals |-> << >>, pos |-> p, segs |-> << >>]
  ELSE LET r == DecCoord(b, p) IN
       IF r.n = 0 THEN [ok |-> FALSE, vals |-> << >>, pos |-> p, segs |-> << >>]
       ELSE LET rest == Coords(b, p + r.n, n - 1) IN
            [ok |-> rest.ok, vals |-> << r.v >> \o rest.vals, pos |-> rest.pos,
             segs |-> << r.n >> \o rest.segs]

(* two reals *)
Reals2(b, p) ==
  LET r0 == DecReal(b, p) IN
  IF r0.n = 0 THEN [ok |-> FALSE, vals |-> << >>, pos |-> p, segs |-> << >>]
  ELSE LET r1 == DecReal(b, p + r0.n) IN
       IF r1.n = 0 THEN [ok |-> FALSE, vals |-> << >>, pos |-> p, segs |-> << >>]
       ELSE [ok |-> TRUE, vals |-> << r0.v, r1.v >>, pos |-> p + r0.n + r1.n,
             segs |-> << r0.n, r1.n >>]

(* one arc operand group: rx ry (coordinates), rotation (zero-to-one),       *)
(* flags (natural: bit 0 large-arc, bit 1 sweep), x y (coordinates)          *)
ArcGroup(b, p) ==
  LET c1 == Coords(b, p, 2) IN
  IF ~c1.ok THEN [ok |-> FALSE, vals |-> << >>, fl |-> << >>, pos |-> p, segs |-> << >>]
  ELSE LET a == DecZeroToOne(b, c1.pos) IN
  IF a.n = 0 THEN [ok |-> FALSE, vals |-> << >>, fl |-> << >>, pos |-> p, segs |-> << >>]
  ELSE LET g == DecNatural(b, c1.pos + a.n) IN
  IF g.n = 0 THEN [ok |-> FALSE, vals |-> << >>, fl |-> << >>, pos |-> p, segs |-> << >>]
  ELSE LET c2 == Coords(b, c1.pos + a.n + g.n, 2) IN
  IF ~c2.ok THEN [ok |-> FALSE, vals |-> << >>, fl |-> << >>, pos |-> p, segs |-> << >>]
  ELSE [ok |-> TRUE, vals |-> c1.vals \o << a.v >> \o c2.vals,
        fl |-> << g.u % 2, (g.u \div 2) % 2 >>, pos |-> c2.pos,
        segs |-> c1.segs \o << a.n, g.n >> \o c2.segs]

-----------------------------------------------------------------------------
(* Metadata *)

ViewBoxValid(vb) ==
  /\ \A i \in 1..4 : IsFinite(vb[i])
  /\ ~Gt(vb[1], vb[3]) /\ ~Gt(vb[2], vb[4])

RECURSIVE PalEntries(_, _, _, _, _, _)
(* read k more entries of the given format into pal starting at index i (0-based) *)
PalEntries(b, p, form, i, k, acc) ==
  IF k = 0 THEN [ok |-> TRUE, pal |-> acc.pal, pos |-> p, segs |-> acc.segs]
  ELSE LET r == DecColor(form, b, p) IN
       IF r.n = 0 THEN [ok |-> FALSE, pal |-> acc.pal, pos |-> p, segs |-> acc.segs]
       ELSE PalEntries(b, p + r.n, form, i + 1, k - 1,
                       [pal |-> [acc.pal EXCEPT ![i + 1] = Sanitize(r.c)],
                        segs |-> Append(acc.segs, r.n)])

(* One chunk at p, given the metadata so far.  [ok, msg, m, pos, segs] *)
Chunk(b, p, m) ==
  LET ln == DecNatural(b, p) IN
  IF ln.n = 0 THEN [ok |-> FALSE, msg |-> "invalid metadata chunk length", m |-> m, pos |-> p, segs |-> << >>]
  ELSE LET q   == p + ln.n                        \* first byte of the chunk body
           mid == DecNatural(b, q) IN
  IF mid.n = 0 THEN [ok |-> FALSE, msg |-> "invalid metadata identifier", m |-> m, pos |-> p, segs |-> << >>]
  ELSE IF mid.u >= 2 THEN [ok |-> FALSE, msg |-> "unsupported metadata identifier", m |-> m, pos |-> p, segs |-> << >>]
  ELSE LET d == q + mid.n                         \* first data byte
           \* the chunk must end exactly ln.u bytes after q (compared without overflow)
           EndsRight(e) == e - q = ln.u
       IN
    IF mid.u = 0 THEN
      LET c == Coords(b, d, 4) IN
      IF ~c.ok \/ ~ViewBoxValid(c.vals)
        THEN [ok |-> FALSE, msg |-> "invalid view box", m |-> m, pos |-> p, segs |-> << >>]
      ELSE IF ~EndsRight(c.pos)
        THEN [ok |-> FALSE, msg |-> "inconsistent metadata chunk length", m |-> m, pos |-> p, segs |-> << >>]
      ELSE [ok |-> TRUE, msg |-> "", m |-> [m EXCEPT !.vb = c.vals, !.seen = Append(@, 0)], pos |-> c.pos,
            segs |-> << ln.n, mid.n >> \o c.segs]
    ELSE
      IF d > Len(b) THEN [ok |-> FALSE, msg |-> "invalid suggested palette", m |-> m, pos |-> p, segs |-> << >>]
      ELSE LET cnt  == 1 + (b[d] % 64)
               form == b[d] \div 64
               e    == PalEntries(b, d + 1, form, 0, cnt, [pal |-> m.pal, segs |-> << >>]) IN
      IF ~e.ok THEN [ok |-> FALSE, msg |-> "invalid suggested palette", m |-> m, pos |-> p, segs |-> << >>]
      ELSE IF ~EndsRight(e.pos)
        THEN [ok |-> FALSE, msg |-> "inconsistent metadata chunk length", m |-> m, pos |-> p, segs |-> << >>]
      ELSE [ok |-> TRUE, msg |-> "", m |-> [m EXCEPT !.pal = e.pal, !.seen = Append(@, 1)], pos |-> e.pos,
            segs |-> << ln.n, mid.n, 1 >> \o e.segs]

RECURSIVE Chunks(_, _, _, _, _)
Chunks(b, p, n, m, segs) ==
  IF n = 0 THEN [ok |-> TRUE, msg |-> "", m |-> m, pos |-> p, segs |-> segs]
  ELSE LET c == Chunk(b, p, m) IN
       IF ~c.ok THEN [ok |-> FALSE, msg |-> c.msg, m |-> m, pos |-> p, segs |-> segs]
       ELSE Chunks(b, c.pos, n - 1, c.m, segs \o c.segs)

(* The format document asks for chunks in increasing MID order without        *)
(* repetition but assigns no meaning to a violation; the library accepts them  *)
(* (later chunks override).  Such inputs are marked "loose": accepted either   *)
(* way by the checks.                                                          *)
StrictOrder(seen) == \A i \in 1..Len(seen) - 1 : seen[i] < seen[i + 1]

Meta0 == [vb |-> DefaultViewBox, pal |-> DefaultPalette, seen |-> << >>]

ParseMeta(b) ==
  IF Len(b) < 4 \/ SubSeq(b, 1, 4) # Magic
    THEN [ok |-> FALSE, msg |-> "invalid magic identifier", m |-> Meta0, pos |-> 1, segs |-> << >>]
  ELSE LET nc == DecNatural(b, 5) IN
  IF nc.n = 0 THEN [ok |-> FALSE, msg |-> "invalid number of metadata chunks", m |-> Meta0, pos |-> 1, segs |-> << >>]
  ELSE Chunks(b, 5 + nc.n, nc.u, Meta0, << 4, nc.n >>)

(* Palette options (decode.WithPalette / decode.WithColorAt), applied in order *)
(* on top of the suggested palette.  An option is [k |-> "pal", pal |-> p] or   *)
(* [k |-> "at", i |-> index, c |-> rgba].  User-supplied entries that are not   *)
(* valid premultiplied colours act as opaque black (format document,           *)
(* "Palettes").                                                                *)
RECURSIVE ApplyOpts(_, _, _)
ApplyOpts(pal, opts, i) ==
  IF i > Len(opts) THEN pal
  ELSE LET o == opts[i] IN
       IF o.k = "pal" THEN ApplyOpts([j \in 1..64 |-> SanitizeRGBA(o.pal[j])], opts, i + 1)
       ELSE ApplyOpts([pal EXCEPT ![o.i + 1] = SanitizeRGBA(o.c)], opts, i + 1)

-----------------------------------------------------------------------------
(* Styling mode: one instruction at st.pos *)
StylingStep(b, st) ==
  LET p == st.pos  op == b[p]
      Go(c, p2, mode2, sg) == [st |-> [st EXCEPT !.pos = p2, !.mode = mode2],
                               out |-> OutCall(c), segs |-> sg]
  IN
  IF op < 64 THEN Go([Call("SetCSel") EXCEPT !.sel = op], p + 1, "styling", << 1 >>)
  ELSE IF op < 128 THEN Go([Call("SetNSel") EXCEPT !.sel = op - 64], p + 1, "styling", << 1 >>)
  ELSE IF op < 168 THEN
    LET adj == op % 8
        r   == DecColor((op - 128) \div 8, b, p + 1) IN
    IF r.n = 0 THEN Fail(st, "invalid color")
    ELSE Go([Call("SetCReg") EXCEPT !.adj = IF adj = 7 THEN 0 ELSE adj,
                                    !.incr = IF adj = 7 THEN 1 ELSE 0, !.c = r.c],
            p + 1 + r.n, "styling", << 1, r.n >>)
  ELSE IF op < 192 THEN
    LET adj == op % 8
        g   == (op - 168) \div 8
        r   == IF g = 0 THEN DecReal(b, p + 1)
               ELSE IF g = 1 THEN DecCoord(b, p + 1) ELSE DecZeroToOne(b, p + 1) IN
    IF r.n = 0 THEN Fail(st, "invalid number")
    ELSE Go([Call("SetNReg") EXCEPT !.adj = IF adj = 7 THEN 0 ELSE adj,
                                    !.incr = IF adj = 7 THEN 1 ELSE 0, !.f = << r.v >>],
            p + 1 + r.n, "styling", << 1, r.n >>)
  ELSE IF op < 199 THEN
    LET c == Coords(b, p + 1, 2) IN
    IF ~c.ok THEN Fail(st, "invalid number")
    ELSE Go([Call("StartPath") EXCEPT !.adj = op - 192, !.f = c.vals], c.pos, "drawing",
            << 1 >> \o c.segs)
  ELSE IF op = 199 THEN
    LET r == Reals2(b, p + 1) IN
    IF ~r.ok THEN Fail(st, "invalid number")
    ELSE Go([Call("SetLOD") EXCEPT !.f = r.vals], r.pos, "styling", << 1 >> \o r.segs)
  ELSE Fail(st, "unsupported styling opcode")

(* Drawing opcodes below 0xe0: [name, number of coordinates (0 = arc), repeat count] *)
RepOp(op) ==
  LET hi == op \div 16 IN
  CASE hi \in {0, 1}   -> [name |-> "AbsLineTo",       nc |-> 2, rc |-> 1 + (op % 32)]
    [] hi \in {2, 3}   -> [name |-> "RelLineTo",       nc |-> 2, rc |-> 1 + (op % 32)]
    [] hi = 4  -> [name |-> "AbsSmoothQuadTo", nc |-> 2, rc |-> 1 + (op % 16)]
    [] hi = 5  -> [name |-> "RelSmoothQuadTo", nc |-> 2, rc |-> 1 + (op % 16)]
    [] hi = 6  -> [name |-> "AbsQuadTo",       nc |-> 4, rc |-> 1 + (op % 16)]
    [] hi = 7  -> [name |-> "RelQuadTo",       nc |-> 4, rc |-> 1 + (op % 16)]
    [] hi = 8  -> [name |-> "AbsSmoothCubeTo", nc |-> 4, rc |-> 1 + (op % 16)]
    [] hi = 9  -> [name |-> "RelSmoothCubeTo", nc |-> 4, rc |-> 1 + (op % 16)]
    [] hi = 10 -> [name |-> "AbsCubeTo",       nc |-> 6, rc |-> 1 + (op % 16)]
    [] hi = 11 -> [name |-> "RelCubeTo",       nc |-> 6, rc |-> 1 + (op % 16)]
    [] hi = 12 -> [name |-> "AbsArcTo",        nc |-> 0, rc |-> 1 + (op % 16)]
    [] hi = 13 -> [name |-> "RelArcTo",        nc |-> 0, rc |-> 1 + (op % 16)]

NCoordsOf(name) ==
  CASE name \in {"AbsLineTo", "RelLineTo", "AbsSmoothQuadTo", "RelSmoothQuadTo"} -> 2
    [] name \in {"AbsQuadTo", "RelQuadTo", "AbsSmoothCubeTo", "RelSmoothCubeTo"} -> 4
    [] name \in {"AbsCubeTo", "RelCubeTo"} -> 6
    [] OTHER -> 0

(* one repetition of the repeated op `name` with operands at p; `lead` are the *)
(* listing segments printed before the operands (opcode byte or implicit line) *)
RepStep(b, st, name, p, repsLeft, lead) ==
  IF NCoordsOf(name) > 0 THEN
    LET c == Coords(b, p, NCoordsOf(name)) IN
    IF ~c.ok THEN Fail(st, "invalid number")
    ELSE [st |-> [st EXCEPT !.pos = c.pos, !.op = name, !.reps = repsLeft],
          out |-> OutCall([Call(name) EXCEPT !.f = c.vals]), segs |-> lead \o c.segs]
  ELSE
    LET a == ArcGroup(b, p) IN
    IF ~a.ok THEN Fail(st, "invalid number")
    ELSE [st |-> [st EXCEPT !.pos = a.pos, !.op = name, !.reps = repsLeft],
          out |-> OutCall([Call(name) EXCEPT !.f = a.vals, !.fl = a.fl]), segs |-> lead \o a.segs]

DrawingStep(b, st) ==
  IF st.reps > 0 THEN RepStep(b, st, st.op, st.pos, st.reps - 1, << 0 >>)
  ELSE
  LET p == st.pos  op == b[p]
      Single(name, n, mode2) ==
        LET c == Coords(b, p + 1, n) IN
        IF ~c.ok THEN Fail(st, "invalid number")
        ELSE [st |-> [st EXCEPT !.pos = c.pos, !.mode = mode2, !.op = "", !.reps = 0],
              out |-> OutCall([Call(name) EXCEPT !.f = c.vals]), segs |-> << 1 >> \o c.segs]
  IN
  IF op < 224 THEN LET r == RepOp(op) IN RepStep(b, st, r.name, p + 1, r.rc - 1, << 1 >>)
  ELSE IF op = 225 THEN Single("ClosePathEndPath", 0, "styling")
  ELSE IF op = 226 THEN Single("ClosePathAbsMoveTo", 2, "drawing")
  ELSE IF op = 227 THEN Single("ClosePathRelMoveTo", 2, "drawing")
  ELSE IF op = 230 THEN Single("AbsHLineTo", 1, "drawing")
  ELSE IF op = 231 THEN Single("RelHLineTo", 1, "drawing")
  ELSE IF op = 232 THEN Single("AbsVLineTo", 1, "drawing")
  ELSE IF op = 233 THEN Single("RelVLineTo", 1, "drawing")
  ELSE Fail(st, "unsupported drawing opcode")

Step(b, st, opts) ==
  CASE st.mode = "start" ->
         LET m == ParseMeta(b) IN
         IF ~m.ok THEN Fail(st, m.msg)
         ELSE [st |-> [st EXCEPT !.pos = m.pos, !.mode = "styling",
                                 !.loose = ~StrictOrder(m.m.seen)],
               out |-> OutCall([Call("Reset") EXCEPT !.f = m.m.vb,
                                                     !.pal = ApplyOpts(m.m.pal, opts, 1)]),
               segs |-> m.segs]
    [] st.mode \in {"styling", "drawing"} /\ st.pos > Len(b) ->
         \* input exhausted.  Inside a repeat group the operands are incomplete.
         IF st.reps > 0 THEN Fail(st, "invalid number")
         ELSE [st |-> [st EXCEPT !.mode = "done"], out |-> OutEnd, segs |-> << >>]
    [] st.mode = "styling" -> StylingStep(b, st)
    [] st.mode = "drawing" -> DrawingStep(b, st)
    [] OTHER -> [st |-> st, out |-> OutEnd, segs |-> << >>]

(***************************************************************************)
(* Equality of an expected call and an observed one (JSON record with the  *)
(* same fields; floats compared as observations: same bits or both NaN).   *)
(***************************************************************************)
CallEq(x, o) ==
  /\ x.op = o.op /\ x.adj = o.adj /\ x.incr = o.incr /\ x.sel = o.sel
  /\ Len(x.f) = Len(o.f) /\ \A i \in 1..Len(x.f) : Same(x.f[i], o.f[i])
  /\ x.c = o.c /\ x.fl = o.fl
  /\ (x.op = "Reset" => x.pal = o.pal)
=============================================================================
