------------------------------ MODULE MC_Colors ------------------------------
(***************************************************************************)
(* Design-level lemmas about Colors.tla, checked exhaustively by TLC:      *)
(*  - the 1-byte table: 125 distinct opaque base-5 colours, 125..127 the   *)
(*    three translucent greys, 128..191 palette, 192..255 CREG;            *)
(*  - blending: t = 0 gives c0, t = 255 gives c1, for all channel values;  *)
(*  - monotonicity of the blend in each operand for every t, hence a blend *)
(*    of premultiplied operands is premultiplied (colour channel <= alpha  *)
(*    is preserved because the same t applies to colour and alpha);        *)
(*  - every RGBA value has a form that stores it exactly (4-byte), and     *)
(*    each shorter form, when it decodes to the value, decodes to it       *)
(*    exactly (forms never approximate);                                   *)
(*  - gradient field packing round-trips.                                  *)
(***************************************************************************)
EXTENDS Colors, TLC

VARIABLES mode, t, x
vars == << mode, t, x >>

(* a root state, 256 "pick" states, then the cases: TLC's workers share the picks *)
Init == mode = "init" /\ t = 0 /\ x = 0
Next == \/ mode = "init" /\ mode' = "pick" /\ t' \in 0..255 /\ x' = 0
        \/ /\ mode = "pick" /\ t' = t
           /\ \/ mode' = "blend" /\ x' \in 0..255
              \/ mode' = "byte1" /\ x' = t
              \/ mode' = "byte2" /\ x' \in 0..255
              \/ mode' = "grad"  /\ t < 64 /\ x' \in 0..63
Spec == Init /\ [][Next]_vars

BlendLemmas ==
  mode = "blend" =>
    /\ BlendCh(0, x, t) = x /\ BlendCh(255, t, x) = x          \* endpoints (t reused as the other operand)
    /\ \A z \in 0..255 : /\ BlendCh(t, x, z) \in 0..255
                         /\ (x < 255 => BlendCh(t, x + 1, z) >= BlendCh(t, x, z))
                         /\ (x < 255 => BlendCh(t, z, x + 1) >= BlendCh(t, z, x))

Byte1Table ==
  mode = "byte1" =>
    LET c == Dec1(x) IN
    /\ (x < 125 => c[1] = 0 /\ c[5] = 255 /\ \A j \in 2..4 : c[j] \in {0, 64, 128, 192, 255})
    /\ (x < 125 => \A y \in 0..124 : Dec1(y) = c => y = x)
    /\ (x \in 128..191 => c = << 1, x - 128, 0, 0, 0 >>)
    /\ (x >= 192 => c = << 2, x - 192, 0, 0, 0 >>)
    /\ (x = 48 => c = << 0, 64, 255, 192, 255 >>)              \* the format document's example
    /\ (x < 128 => ValidPremul(RGBAOf(c)))

Byte2Table ==
  mode = "byte2" =>
    LET r == DecColor(1, << t, x >>, 1) IN
    /\ r.n = 2 /\ r.c[1] = 0
    /\ r.c[2] = 17 * (t \div 16) /\ r.c[3] = 17 * (t % 16) /\ r.c[4] = 17 * (x \div 16) /\ r.c[5] = 17 * (x % 16)
    /\ DecColor(1, << t >>, 1).n = 0
    /\ DecColor(3, << t, x, t, x >>, 1).c = << 0, t, x, t, x >>
    /\ DecColor(2, << t, x, t >>, 1).c = << 0, t, x, t, 255 >>
    /\ DecColor(4, << t, x, t >>, 1).c = << 3, t, x, t, 0 >>

GradPacking ==
  mode = "grad" =>
    \A shape \in 0..1, spread \in 0..3 :
      LET q == MkGradient(t, x, shape, spread, (t + x) % 64) IN
      /\ IsGradient(q) /\ ~ValidPremul(q)
      /\ GradCBase(q) = t /\ GradNBase(q) = x /\ GradShape(q) = shape /\ GradSpread(q) = spread
      /\ GradNStops(q) = (t + x) % 64
=============================================================================
