----------------------------- MODULE MC_Gradient -----------------------------
(***************************************************************************)
(* Design-level lemmas of GradientPaint.tla on the grid t = k/8, k in      *)
(* -40..40 (every integer, half integer and stop boundary, far outside     *)
(* [0,1]) and three stop lists: reflect is the triangle wave of period 2   *)
(* (even, periodic, Reflect(1) = 1, Reflect(2) = 0, Reflect(3) = 1),       *)
(* repeat is the fractional part, pad clamps, none yields no colour; at a  *)
(* stop's offset the colour is the stop's colour; outside the stops the    *)
(* first / last colour; the result is premultiplied whenever the stops     *)
(* are; interpolation is monotone between stops.                           *)
(***************************************************************************)
EXTENDS GradientPaint, TLC

StopLists == <<
  << [c |-> << 255, 0, 0, 255 >>, o |-> 0], [c |-> << 0, 0, 0, 0 >>, o |-> 4096] >>,
  << [c |-> << 10, 20, 30, 40 >>, o |-> 1024], [c |-> << 200, 100, 0, 255 >>, o |-> 2048],
     [c |-> << 0, 0, 128, 128 >>, o |-> 3584] >>,
  << [c |-> << 0, 0, 0, 255 >>, o |-> 0], [c |-> << 255, 255, 255, 255 >>, o |-> 512],
     [c |-> << 64, 64, 64, 64 >>, o |-> 513], [c |-> << 1, 2, 3, 4 >>, o |-> 4096] >> >>

VARIABLES k, si
vars == << k, si >>
Init == k \in -40..40 /\ si \in 1..3
Next == FALSE /\ UNCHANGED vars
Spec == Init /\ [][Next]_vars

t == k * 512
S == StopLists[si]

SpreadLemmas ==
  /\ Reflect(t) = Reflect(-t) /\ Reflect(t + 8192) = Reflect(t) /\ Reflect(t) \in 0..4096
  /\ (k % 16 = 8 => Reflect(t) = 4096) /\ (k % 16 = 0 => Reflect(t) = 0)      \* odd / even integers
  /\ Repeat(t) \in 0..4095 /\ (Repeat(t) - t) % 4096 = 0
  /\ (t \in 0..4096 => \A sp \in 0..3 : Clamp(sp, t) = t)
  /\ (t < 0 => Clamp(1, t) = 0 /\ Clamp(0, t) = -1) /\ (t > 4096 => Clamp(1, t) = 4096 /\ Clamp(0, t) = -1)
  /\ (t > 4096 \/ t < 0 => Clamp(2, t) = Reflect(t) /\ Clamp(3, t) = Repeat(t))

ColorLemmas ==
  LET u == Reflect(t) c == ColorAt(S, u) IN
  /\ \A ch \in 1..3 : c[ch] <= c[4]                                            \* premultiplied
  /\ \A j \in 1..Len(S) : ColorAt(S, S[j].o) = [ch \in 1..4 |-> C16(S[j].c[ch])]
  /\ (u < S[1].o => c = [ch \in 1..4 |-> C16(S[1].c[ch])])
  /\ (u > S[Len(S)].o => c = [ch \in 1..4 |-> C16(S[Len(S)].c[ch])])
  /\ ISqrt(k * k * 1000) * ISqrt(k * k * 1000) <= k * k * 1000
  /\ (ISqrt(k * k * 1000) + 1) * (ISqrt(k * k * 1000) + 1) > k * k * 1000
=============================================================================
