----------------------------- MODULE MC_Decoder -----------------------------
(***************************************************************************)
(* Exhaustive exploration of the decoding machine (Decoder.tla) on every   *)
(* byte string  magic ++ nChunks=0 ++ w,  w over a small alphabet that     *)
(* hits every opcode class in both modes, every number-length tag,         *)
(* reserved opcodes and counts, |w| <= MaxLen; and on a family of metadata *)
(* sections.  Checked: the first delivery is Reset; nothing is delivered   *)
(* before the metadata is valid; every delivery consumes input (Progress); *)
(* the run terminates within Len(src) + 2 steps; the deliveries for the    *)
(* string without its last byte are a prefix of the deliveries for the     *)
(* string (PrefixClosed); the listing segments of all steps tile the       *)
(* consumed input exactly; every run terminates (liveness under WF).       *)
(*                                                                         *)
(* consumed input exactly (byte-complete disassembly).                     *)
(***************************************************************************)
EXTENDS Decoder, TLC, SequencesExt

CONSTANTS MaxLen, Full

SmallAlphabet == { 0, 2, 3, 65, 128, 135, 143, 152, 167, 168, 183, 191, 192, 198, 199,
              225, 226, 230, 224, 208, 33, 127, 255 }

(* Full = TRUE: every byte value (used with MaxLen = 2: all 65 793 strings of up to two bytes) *)
Alphabet == IF Full THEN 0..255 ELSE SmallAlphabet

VARIABLES src, st, nOut, first, steps, consumed
vars == << src, st, nOut, first, steps, consumed >>

Head5 == Magic \o << 0 >>

(* a few metadata sections: valid viewBox, inverted viewBox, short palette, bad length, unknown MID *)
MetaHeads == { Magic \o << 2, 10, 0, 80, 80, 176, 176 >>,
               Magic \o << 2, 10, 0, 176, 80, 80, 176 >>,
               Magic \o << 2, 6, 2, 1, 30, 125 >>,
               Magic \o << 2, 8, 2, 1, 30, 125 >>,
               Magic \o << 2, 2, 4 >>,
               Magic \o << 4, 10, 0, 80, 80, 176, 176, 6, 2, 1, 30, 125 >>,
               << 137, 73, 86 >>, Magic, Magic \o << 1 >> }

RECURSIVE StringsOver(_, _)
StringsOver(A, n) == IF n = 0 THEN { << >> }
                     ELSE LET S == StringsOver(A, n - 1) IN
                          S \cup { Append(s, a) : s \in { t \in S : Len(t) = n - 1 }, a \in A }

Init ==
  /\ src \in { Head5 \o w : w \in StringsOver(Alphabet, MaxLen) }
            \cup { m \o w : m \in MetaHeads, w \in StringsOver(SmallAlphabet, 2) }
  /\ st = DInit /\ nOut = 0 /\ first = "" /\ steps = 0 /\ consumed = 0

Sum(s) == FoldLeft(LAMBDA a, x : a + x, 0, s)

Next ==
  /\ st.mode \notin {"done", "err"}
  /\ LET r == Step(src, st, << >>) IN
     /\ st' = r.st
     /\ steps' = steps + 1
     /\ nOut' = IF r.out.k = "call" THEN nOut + 1 ELSE nOut
     /\ first' = IF nOut = 0 /\ r.out.k = "call" THEN r.out.call.op ELSE first
     /\ consumed' = IF r.out.k = "call" THEN consumed + Sum(r.segs) ELSE consumed
     /\ UNCHANGED src

Spec == Init /\ [][Next]_vars /\ WF_vars(Next)

ResetFirst  == nOut >= 1 => first = "Reset"
NoEarlyOutput == st.mode = "start" => nOut = 0
Terminates  == steps <= Len(src) + 2
ByteComplete == st.mode \in {"styling", "drawing", "done"} => consumed = st.pos - 1
Progress    == [][nOut' > nOut => st'.pos > st.pos]_vars
Monotone    == [][st'.pos >= st.pos /\ nOut' >= nOut]_vars
(* liveness, under weak fairness of the decoding step: every input is eventually accepted or rejected *)
Termination == <>(st.mode \in {"done", "err"})
(* the machine is in drawing mode exactly between a StartPath and the next ClosePathEndPath *)
ModeDiscipline == [][(st.mode = "styling" /\ st'.mode = "drawing" => st'.pos > st.pos)
                     /\ (st.mode = "drawing" /\ st'.mode = "styling" => src[st'.pos - 1] = 225)]_vars

(* whole-run function, for the prefix property *)
RECURSIVE Run(_, _, _)
Run(b, s, acc) ==
  IF s.mode \in {"done", "err"} THEN [calls |-> acc, ok |-> s.mode = "done"]
  ELSE LET r == Step(b, s, << >>) IN
       Run(b, r.st, IF r.out.k = "call" THEN Append(acc, r.out.call) ELSE acc)

PrefixClosed ==
  (st.mode = "start" /\ Len(src) > 0) =>
     IsPrefix(Run(Front(src), DInit, << >>).calls, Run(src, DInit, << >>).calls)
=============================================================================
