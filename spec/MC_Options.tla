----------------------------- MODULE MC_Options -----------------------------
(***************************************************************************)
(* Palette options (Decoder.tla: ApplyOpts) on every option list of length *)
(* <= 3 over {full replacement A, full replacement B, override at 0, 5,    *)
(* 63} x colour classes {opaque, translucent, gradient-looking, invalid},  *)
(* over two suggested palettes: last writer wins per index; indices never  *)
(* written keep the suggested colour; a full replacement discards the      *)
(* suggested palette; no entry that is not a valid premultiplied colour    *)
(* survives (it acts as opaque black, never as a gradient).                *)
(***************************************************************************)
EXTENDS Decoder, TLC

Cols == { << 48, 102, 7, 255 >>, << 32, 64, 16, 128 >>, << 2, 74, 138, 0 >>, << 0, 153, 0, 136 >> }
PalA == [i \in 1..64 |-> << i, 2 * i, 3 * i, 255 >>]
PalB == [i \in 1..64 |-> IF i % 3 = 0 THEN << 2, 74, 138, 0 >> ELSE << 0, 0, i, i >>]
Sugg == { DefaultPalette, [DefaultPalette EXCEPT ![1] = << 16, 32, 48, 255 >>, ![6] = << 64, 0, 0, 128 >>] }
Atoms == { [k |-> "pal", pal |-> PalA, i |-> 0, c |-> << >>], [k |-> "pal", pal |-> PalB, i |-> 0, c |-> << >>] }
         \cup { [k |-> "at", pal |-> << >>, i |-> i, c |-> c] : i \in {0, 5, 63}, c \in Cols }

VARIABLES sugg, opts
vars == << sugg, opts >>
Init == sugg \in Sugg /\ opts = << >>
Next == Len(opts) < 3 /\ \E a \in Atoms : opts' = Append(opts, a) /\ UNCHANGED sugg
Spec == Init /\ [][Next]_vars

Result == ApplyOpts(sugg, opts, 1)

(* the last option that determines index i (0-based), 0 if none *)
LastWriter(i) ==
  LET W == { j \in 1..Len(opts) : opts[j].k = "pal" \/ opts[j].i = i } IN
  IF W = {} THEN 0 ELSE CHOOSE j \in W : \A m \in W : m <= j

Overrides ==
  \A i \in 0..63 :
    LET j == LastWriter(i) IN
    Result[i + 1] = IF j = 0 THEN sugg[i + 1]
                    ELSE IF opts[j].k = "pal" THEN SanitizeRGBA(opts[j].pal[i + 1])
                    ELSE SanitizeRGBA(opts[j].c)
Sanitised == \A i \in 1..64 : ValidPremul(Result[i])
=============================================================================
