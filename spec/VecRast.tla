------------------------------ MODULE VecRast ------------------------------
(***************************************************************************)
(* raster/vec.Rasterizer (beyond the listed properties): the wrapper       *)
(* around golang.org/x/image/vector that every pixel-level check draws     *)
(* through.  What is its own: the destination image is a field, and the    *)
(* compositing operator DrawOp is ONE-SHOT - Draw uses the current value   *)
(* and leaves draw.Over behind.                                            *)
(*                                                                         *)
(* State: op (the DrawOp field) and three pixels of an RGBA destination,   *)
(* one for each way a pixel can relate to a Draw(r, src, sp) of a uniform  *)
(* source after a path was added:                                          *)
(*   in    inside r and fully covered by the path  (mask 0xffff)           *)
(*   ring  inside r, not touched by the path       (mask 0)                *)
(*   out   outside r                                                       *)
(* Over: dst = src*mask + dst*(1 - alpha(src)*mask); Src: dst = src*mask - *)
(* so Src clears the ring, Over leaves it alone.  Arithmetic is the 16-bit *)
(* arithmetic of the uniform-source fast paths of x/image/vector, exact:   *)
(*   over, full mask:  ((d*257*(65535 - sa) + s*65535) / 65535) >> 8       *)
(* (d*257*(65535 - sa) does not fit TLC's integers: Big.tla).              *)
(*                                                                         *)
(* Actions: SetOp(o); ResetOnly (Reset of the embedded rasteriser, nothing *)
(* drawn); Fill(c) = Reset, rectangle path, Draw of the uniform colour c;  *)
(* FillEmpty(c) = the same into an empty rectangle.                        *)
(*                                                                         *)
(* Named deviation ResetKeepsOp: raster.Rasterizer documents that Reset    *)
(* "includes setting z.DrawOp to draw.Over"; the Reset a vec.Rasterizer    *)
(* has is the embedded vector.Rasterizer's, which resets the INNER         *)
(* operator - the field Draw actually copies from survives.  The model     *)
(* says what the code does (op unchanged by ResetOnly); the replayer       *)
(* confirms it.                                                            *)
(***************************************************************************)
EXTENDS Integers, Sequences, Big

Over == "over"
Src  == "src"

RECURSIVE BValR(_)
BValR(a) == IF a = << >> THEN 0 ELSE a[1] + (4096 * BValR(Tail(a)))
Div65535(x) == BValR(BDiv(BDiv(x, 255), 257))        \* floor(x / 65535) for x < 2^32, nested floor division

(* one channel: destination d, source s, source alpha sa (all 0..255); full = mask 0xffff, else mask 0 *)
Chan(op, d, s, sa, full) ==
  IF op = Src THEN (IF full THEN s ELSE 0)
  ELSE IF ~full THEN d
  ELSE ((s * 257) + Div65535(BMul(BOf(d * 257), 65535 - (sa * 257)))) \div 256

Px(op, d, c, full) == [i \in 1..4 |-> Chan(op, d[i], c[i], c[4], full)]

VZero(bg) == [op |-> Over, in |-> bg, ring |-> bg, out |-> bg]
VSetOp(st, o) == [st EXCEPT !.op = o]
VResetOnly(st) == st                                   \* ResetKeepsOp
VFill(st, c) == [op |-> Over, in |-> Px(st.op, st.in, c, TRUE), ring |-> Px(st.op, st.ring, c, FALSE), out |-> st.out]
(* the same with an empty rectangle (a widget that has no size yet): no pixel changes, the operator is consumed all the same *)
VFillEmpty(st, c) == [st EXCEPT !.op = Over]

Premul(c) == c[1] <= c[4] /\ c[2] <= c[4] /\ c[3] <= c[4]
=============================================================================
