------------------------------ MODULE Pipelines ------------------------------
(***************************************************************************)
(* N independent pipelines over shared read-only inputs (property C18).    *)
(* Each instance is a decoding machine (Decoder.tla) with private state,   *)
(* reading one of the shared byte strings; Next interleaves one step (one  *)
(* delivered Destination call) of any instance.  MC, all interleavings:    *)
(*   SharedUnchanged  the shared inputs are never written;                 *)
(*   SerialResult     when an instance finishes, what it delivered is what *)
(*                    it delivers when run alone (Run), whatever the       *)
(*                    interleaving;                                        *)
(*   Isolation        a step of instance i changes nothing of instance j.  *)
(* GEN: every complete interleaving (schedule: the sequence of instance    *)
(* numbers in the order their steps were taken) is printed; the Go         *)
(* replayer imposes it on real goroutines through a gate in the wrapping   *)
(* Destination and compares every pipeline's output with its output when   *)
(* run alone in a fresh process.                                           *)
(***************************************************************************)
EXTENDS Decoder, TLC, Json

CONSTANTS N, Gen

Srcs == << Magic \o << 0, 192, 128, 128, 225 >>,                      \* Reset StartPath End
           Magic \o << 0, 5, 135, 48, 192, 130, 130, 225 >>,         \* Reset SetCSel SetCReg StartPath End
           Magic \o << 0, 192, 128, 128, 1, 130 >> >>                \* Reset StartPath, then a cut operand: error

VARIABLES st, out, sched, shared
vars == << st, out, sched, shared >>

SrcOf(i) == shared[((i - 1) % Len(Srcs)) + 1]

Init == /\ st = [i \in 1..N |-> DInit] /\ out = [i \in 1..N |-> << >>]
        /\ sched = << >> /\ shared = Srcs

Finished(i) == st[i].mode \in {"done", "err"}

StepOf(i) ==
  /\ ~Finished(i)
  /\ LET r == Step(SrcOf(i), st[i], << >>) IN
     /\ st' = [st EXCEPT ![i] = r.st]
     /\ out' = [out EXCEPT ![i] = IF r.out.k = "call" THEN Append(@, r.out.call.op) ELSE @]
  /\ sched' = Append(sched, i)
  /\ UNCHANGED shared

Next == \E i \in 1..N : StepOf(i)
Spec == Init /\ [][Next]_vars

RECURSIVE Run(_, _, _)
Run(b, s, acc) ==
  IF s.mode \in {"done", "err"} THEN acc
  ELSE LET r == Step(b, s, << >>) IN Run(b, r.st, IF r.out.k = "call" THEN Append(acc, r.out.call.op) ELSE acc)

SharedUnchanged == shared = Srcs
SerialResult == \A i \in 1..N : Finished(i) => out[i] = Run(Srcs[((i - 1) % Len(Srcs)) + 1], DInit, << >>)
Isolation == [][\A i \in 1..N : (sched' # sched /\ sched'[Len(sched')] # i) => st'[i] = st[i] /\ out'[i] = out[i]]_vars

AllDone == \A i \in 1..N : Finished(i)
Emit == (Gen /\ AllDone) => PrintT(ToJson([diag |-> "sched", s |-> sched]))
View == << st, out, shared >>
=============================================================================
