------------------------------ MODULE RoundTrip ------------------------------
(***************************************************************************)
(* What "the bytes decode to the history" means (property C01): a decoded  *)
(* operation dc matches the history call hc it must come from, up to the   *)
(* format's quantisation (Numbers.tla: CoordMatch, RealMatch, AngleMatch). *)
(* Pure operators, shared by the trace specification TV_RoundTrip (bytes   *)
(* of real Encoders) and by MC_EncoderBytes (bytes of the Encoder model).  *)
(***************************************************************************)
EXTENDS Decoder, Encoder

Pseudo == {"SetHiRes", "CSel", "NSel", "LOD", "Bytes"}

PalKept(hp, dp) == \A i \in 1..64 : ValidPremul(hp[i]) => dp[i] = hp[i]

(* hc: history call, dc: decoded call, hi: resolution in effect *)
HMatch(hc, dc, hi) ==
  /\ hc.op = dc.op /\ Len(hc.f) = Len(dc.f)
  /\ CASE hc.op = "Reset" ->
            /\ \A i \in 1..4 : CoordMatch(TRUE, hc.f[i], dc.f[i])
            /\ PalKept(hc.pal, dc.pal)
       [] hc.op \in {"SetCSel", "SetNSel"} -> dc.sel = hc.sel % 64
       [] hc.op = "SetCReg" -> dc.adj = hc.adj /\ dc.incr = hc.incr /\ dc.c = NormC(hc.c)
       [] hc.op = "SetNReg" ->
            /\ dc.adj = hc.adj /\ dc.incr = hc.incr
            /\ (IF IsNaN(hc.f[1]) THEN ~IsFinite(dc.f[1])
                ELSE NumEq(dc.f[1], hc.f[1]) \/ Within4(dc.f[1], hc.f[1]))
            /\ ((RepReal(1, hc.f[1]) \/ RepReal(2, hc.f[1]) \/ RepCoord(1, hc.f[1]) \/ RepCoord(2, hc.f[1]))
                   => NumEq(dc.f[1], hc.f[1]))
       [] hc.op = "SetLOD" -> RealMatch(hc.f[1], dc.f[1]) /\ RealMatch(hc.f[2], dc.f[2])
       [] hc.op = "StartPath" ->
            dc.adj = hc.adj /\ \A i \in 1..2 : CoordMatch(hi, hc.f[i], dc.f[i])
       [] hc.op \in {"AbsArcTo", "RelArcTo"} ->
            /\ dc.fl = hc.fl
            /\ \A i \in {1, 2, 4, 5} : CoordMatch(hi, hc.f[i], dc.f[i])
            /\ AngleMatch(hc.f[3], dc.f[3])
       [] OTHER -> \A i \in 1..Len(hc.f) : CoordMatch(hi, hc.f[i], dc.f[i])

(* B: bytes; st: decoder state; hs: history; i: next history call; e: Encoder control state;   *)
(* from: index of the first history call that the stream must reproduce                        *)
RECURSIVE Reproduces(_, _, _, _, _, _)
Reproduces(B, st, hs, i, e, from) ==
  IF i > Len(hs) THEN Step(B, st, << >>).out.k = "end"
  ELSE LET hc == hs[i]  e2 == EStep(e, hc) IN
       IF i < from \/ hc.op \in Pseudo THEN Reproduces(B, st, hs, i + 1, e2, from)
       ELSE LET r == Step(B, st, << >>) IN
            /\ r.out.k = "call"
            /\ HMatch(hc, r.out.call, e2.hiResL)
            /\ Reproduces(B, r.st, hs, i + 1, e2, from)
=============================================================================
