---------------------------- MODULE GradientPaint ----------------------------
(***************************************************************************)
(* Gradient paint (format document "Colors and Gradients", property C15),  *)
(* exact on a dyadic lattice.  Offsets and gradient-space coordinates are  *)
(* integers in units of 2^-12 (T12 = 4096 is offset 1.0); colours are      *)
(* premultiplied 16-bit channels (8-bit c expands to c * 257).             *)
(*                                                                         *)
(*   Clamp(spread, t)     spread 0 none, 1 pad, 2 reflect, 3 repeat;       *)
(*                        returns -1 for "no colour" (transparent black)   *)
(*   ColorAt(stops, t)    piece-wise linear interpolation in premultiplied *)
(*                        space; first / last colour outside the stops;    *)
(*                        returns <<lo, hi>> bounds per channel: the exact *)
(*                        rational value lies in [lo, lo + 1)              *)
(*   stops: sequence of [c |-> <<r,g,b,a>> (8 bit), o |-> offset (2^-12)]  *)
(***************************************************************************)
EXTENDS Integers, Sequences, Spread

C16(c) == c * 257

(* index of the first range [o_i, o_{i+1}] containing t, 0 if none *)
RECURSIVE FindRange(_, _, _)
FindRange(stops, t, i) ==
  IF i >= Len(stops) THEN 0
  ELSE IF stops[i].o <= t /\ t <= stops[i + 1].o THEN i ELSE FindRange(stops, t, i + 1)

(* floor of the exact interpolated 16-bit value of channel ch at t in range i *)
Interp(stops, i, t, ch) ==
  LET o0 == stops[i].o  o1 == stops[i + 1].o
      c0 == C16(stops[i].c[ch])  c1 == C16(stops[i + 1].c[ch]) IN
  ((o1 - t) * c0 + (t - o0) * c1) \div (o1 - o0)

ColorAt(stops, t) ==
  IF t < 0 THEN << 0, 0, 0, 0 >>
  ELSE IF t < stops[1].o THEN [ch \in 1..4 |-> C16(stops[1].c[ch])]
  ELSE LET i == FindRange(stops, t, 1) IN
       IF i = 0 THEN [ch \in 1..4 |-> C16(stops[Len(stops)].c[ch])]
       ELSE [ch \in 1..4 |-> Interp(stops, i, t, ch)]

(* integer square root (floor) of n >= 0, n < 2^31 *)
RECURSIVE SqrtBin(_, _, _)
SqrtBin(n, lo, hi) ==      \* invariant lo^2 <= n < (hi+1)^2
  IF lo = hi THEN lo
  ELSE LET mid == (lo + hi + 1) \div 2 IN
       IF mid <= 46340 /\ mid * mid <= n THEN SqrtBin(n, mid, hi) ELSE SqrtBin(n, lo, mid - 1)
ISqrt(n) == SqrtBin(n, 0, 46340)
=============================================================================
