----------------------------- MODULE TV_DestLog -----------------------------
(***************************************************************************)
(* Trace validation of the two loggers against DestLog.tla.  One event per *)
(* logger object and call sequence, each judged on its own:                *)
(*   {k:"dl", id, alt, wrapped, calls:[...], lines:[...], fwd:[...],       *)
(*    reads:[[got, inner]...]}      ivg.DestinationLogger: the lines it    *)
(*                                  printed, the calls that reached the    *)
(*                                  wrapped Destination, selector reads    *)
(*                                  through it next to reads of the        *)
(*                                  wrapped object ("panic" = panicked)    *)
(*   {k:"rl", id, calls:[{op,f,i}], lines, fwd, reads}                     *)
(*                                  raster.RasterizerLogger                *)
(* The model is run over the calls (LogRun / RLogRun, the same step        *)
(* operators that MC_DestLog explores) and must print the same lines and   *)
(* hand on the same calls.  Lines outside the model (a viewBox number      *)
(* whose shortest decimal is not modelled) are counted, not compared.      *)
(***************************************************************************)
EXTENDS DestLog, Json, IOUtils

Trace == ndJsonDeserialize(IOEnv.VERIF_TRACE)

VARIABLE l
Init == l \in 1..Len(Trace)
Next == FALSE /\ l' = l
Spec == Init /\ [][Next]_l

LinesOK(want, got) == Len(want) = Len(got) /\ \A i \in 1..Len(want) : want[i] = Outside \/ want[i] = got[i]
FirstBad(want, got) == IF Len(want) # Len(got) THEN 0
                       ELSE CHOOSE i \in 1..Len(want) : want[i] # Outside /\ want[i] # got[i]
ReadsOK(ev) == \A i \in 1..Len(ev.reads) :
                 ev.reads[i][1] = (IF ev.k = "dl" THEN ReadThrough(ev.wrapped, ev.reads[i][2]) ELSE ev.reads[i][2])

Model(ev) == IF ev.k = "dl" THEN LogRun(LZero, ev.alt, ev.wrapped, ev.calls) ELSE RLogRun(LZero, ev.calls)

Judge(ev) ==
  LET m == Model(ev) IN
  IF ~LinesOK(m.out, ev.lines) THEN
       LET i == FirstBad(m.out, ev.lines) IN
       PrintT(ToJson([diag |-> "printed lines differ from the logger model", id |-> ev.id, line |-> l, at |-> i,
                      lens |-> << Len(m.out), Len(ev.lines) >>,
                      want |-> IF i = 0 THEN "" ELSE m.out[i], got |-> IF i = 0 THEN "" ELSE ev.lines[i]]))
  ELSE IF m.fwd # ev.fwd THEN
       PrintT(ToJson([diag |-> "calls handed on differ from the calls made", id |-> ev.id, line |-> l,
                      lens |-> << Len(m.fwd), Len(ev.fwd) >>,
                      at |-> IF Len(m.fwd) # Len(ev.fwd) THEN 0 ELSE CHOOSE i \in 1..Len(m.fwd) : m.fwd[i] # ev.fwd[i]]))
  ELSE IF ~ReadsOK(ev) THEN
       PrintT(ToJson([diag |-> "a read through the logger differs from the wrapped object's answer", id |-> ev.id, line |-> l, reads |-> ev.reads]))
  ELSE LET no == Len(SelectSeq(m.out, LAMBDA s : s = Outside)) IN
       no > 0 => PrintT(ToJson([diag |-> "outside", id |-> ev.id, n |-> no]))

Checked == Judge(Trace[l])
=============================================================================
