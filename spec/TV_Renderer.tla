----------------------------- MODULE TV_Renderer -----------------------------
(***************************************************************************)
(* Trace validation of render.Renderer against Renderer.tla (properties    *)
(* C04, C05, C06 (end points), C07, C14, C17).                              *)
(*   {ev:"rsrc", id, rect:[x0,y0,x1,y1]}        a Renderer + target rect    *)
(*   {ev:"rset", rect:[x0,y0,x1,y1]}            SetRasterizer again         *)
(*   {ev:"call", call:{..}, rz:[{k,f,i,src}..], sel:[c,n], dc:[[i,r,g,b,a]], *)
(*               dn:[[i,hi,lo]], lod:[F,F], dis:0|1, creg:[64 rgba]?}        *)
(* rz: the rasteriser calls the call caused; sel, lod, dis: state read      *)
(* after the call (verif hook); dc / dn: colour / number registers whose     *)
(* value changed during the call; creg: the whole file (after Reset only).  *)
(* Diagnostics are classed: "vm" (register machine, paint, enabling),       *)
(* "raster" (geometry / call structure), "arc" (arc end point / shape).     *)
(***************************************************************************)
EXTENDS Generator, Big, TLC, Json, IOUtils

Trace == ndJsonDeserialize(IOEnv.VERIF_TRACE)

VARIABLES l, srcLine, r, skip, nbad, njudged, nskipgeo, h0
vars == << l, srcLine, r, skip, nbad, njudged, nskipgeo, h0 >>

Has(x, f) == f \in DOMAIN x
Tol == 256                                 \* 2^-8 pixel in units of 2^-16

Obs(f) == AsScaled(f, 16)
ObsNear(f, want) == LET o == FloorScaled(f, 16) IN o.ok /\ Abs(o.k - want) <= Tol

(* observed rasteriser call o against expected x; mode: "exact" | "tol" *)
RzOK(o, x, mode) ==
  /\ o.k = x.k
  /\ Len(o.f) = Len(x.p)
  /\ \A j \in 1..Len(x.p) :
        IF mode = "exact" THEN LET a == Obs(o.f[j]) IN a.ok /\ a.k = x.p[j]
        ELSE ObsNear(o.f[j], x.p[j])
  /\ (x.i # << >> => Has(o, "i") /\ o.i = x.i)

AllRzOK(rz, want, mode) ==
  /\ Len(rz) = Len(want)
  /\ \A j \in 1..Len(want) : RzOK(rz[j], want[j], mode)

(* the paint handed to Draw *)
PaintOK(o, p) ==
  CASE p.k = "flat" -> o.k = "flat" /\ o.c = p.c
    [] p.k = "grad" ->
         /\ o.k = "grad" /\ o.shape = p.shape /\ o.spread = p.spread
         /\ Len(o.colors) = Len(p.stops) /\ Len(o.offsets) = Len(p.stops) /\ o.offok = 1
         /\ \A j \in 1..Len(p.stops) : o.colors[j] = p.stops[j].c /\ Same(o.offsets[j], p.stops[j].o)
    [] OTHER -> FALSE

(* the pixel-to-gradient matrix the paint reports (o.m: six [exact, k, q] = k * 2^-q) is the register matrix p.m    *)
(* composed with the pixel-to-viewBox map; decided exactly where that map is a power of two in both axes and all    *)
(* numbers are small dyadics, accepted otherwise (TV_Gradient has the same rule for its cfg events)                  *)
RECURSIVE NormDy(_, _)
NormDy(k, q) == IF k = 0 THEN << 0, 0 >> ELSE IF k % 2 = 0 THEN NormDy(k \div 2, q - 1) ELSE << k, q >>
IsP2(n) == \E j \in 0..12 : n = Pow2(j)
MatrixOK(o, p, rr) ==
  IF p.k # "grad" \/ o.k # "grad" \/ ~Has(o, "m") \/ Len(o.m) # 6 THEN TRUE
  ELSE
  LET a  == [i \in 1..6 |-> AsScaled(p.m[i], 16)]
      v  == [i \in 1..4 |-> AsScaled(rr.vb[i], 6)]
      dx == rr.rect[3] - rr.rect[1]   dy == rr.rect[4] - rr.rect[2]
      wx == v[3].k - v[1].k           wy == v[4].k - v[2].k
      lat == /\ \A i \in 1..6 : a[i].ok /\ Abs(a[i].k) <= (IF i \in {3, 6} THEN 4194304 ELSE 65536)   \* |linear| <= 1, |translation| <= 64
             /\ \A i \in 1..4 : v[i].ok /\ Abs(v[i].k) <= 8192
             /\ wx > 0 /\ wy > 0 /\ dx > 0 /\ dy > 0
             /\ (dx * 64) % wx = 0 /\ (dy * 64) % wy = 0 /\ IsP2((dx * 64) \div wx) /\ IsP2((dy * 64) \div wy)
             /\ \A i \in 1..6 : o.m[i][1] = 1
  IN IF ~lat THEN
        \* a scale that is a float32 but not a power of two: the linear part within the float64 tolerance (Big.tla)
        IF /\ Has(o, "m64") /\ Len(o.m64) = 6 /\ \A i \in 1..6 : a[i].ok /\ Abs(a[i].k) <= 65536
           /\ \A i \in 1..4 : v[i].ok /\ Abs(v[i].k) <= 8192
           /\ wx > 0 /\ wy > 0 /\ dx > 0 /\ dy > 0 /\ dx <= 4096 /\ dy <= 4096
           /\ Dyadic(dx * 64, wx) /\ Dyadic(dy * 64, wy)
           /\ \A i \in {1, 2, 4, 5} : o.m64[i][1] \in {0, 1}
        THEN /\ LinNear(o.m64[1], a[1].k, dx * 64, wx) /\ LinNear(o.m64[4], a[4].k, dx * 64, wx)
             /\ LinNear(o.m64[2], a[2].k, dy * 64, wy) /\ LinNear(o.m64[5], a[5].k, dy * 64, wy)
        ELSE TRUE
     ELSE LET jx == Log2((dx * 64) \div wx)
              jy == Log2((dy * 64) \div wy)
              want == << NormDy(a[1].k, 16 + jx), NormDy(a[2].k, 16 + jy),
                         NormDy(a[3].k * 64 + a[1].k * v[1].k + a[2].k * v[2].k, 22),
                         NormDy(a[4].k, 16 + jx), NormDy(a[5].k, 16 + jy),
                         NormDy(a[6].k * 64 + a[4].k * v[1].k + a[5].k * v[2].k, 22) >> IN
          \A i \in 1..6 : NormDy(o.m[i][2], o.m[i][3]) = want[i]

(* elliptical arc: at most four cubic segments ending at the mapped end point *)
ArcOK(rz, endPt) ==
  /\ Len(rz) >= 1 /\ Len(rz) <= 4
  /\ \A j \in 1..Len(rz) : rz[j].k = "CubeTo" /\ Len(rz[j].f) = 6
  /\ ObsNear(rz[Len(rz)].f[5], endPt[1]) /\ ObsNear(rz[Len(rz)].f[6], endPt[2])

(***************************************************************************)
(* ArcGeom: does the emitted curve follow the requested ellipse?           *)
(* The trace supplies, with the arc call, the centre parameterisation the  *)
(* case was generated from: hint = [c |-> <<cx, cy>> (1/64 units),         *)
(* cs |-> <<a, b, d>> (cos = a/d, sin = b/d of the x-axis rotation),       *)
(* scaled |-> 0|1 (radii too small: uniformly scaled-up ellipse centred on *)
(* the chord midpoint)].  The hint is first checked against the call       *)
(* itself (start and end point on that ellipse; the large-arc flag is the  *)
(* one this centre implies for the sweep flag) -- of the two ellipses      *)
(* through both points only the SVG one passes.  Then every cubic segment  *)
(* is sampled at t = k/16 in fixed point (viewBox units x 2^-10; ellipse   *)
(* frame coordinates x 2^-11): each sample must lie on the ellipse         *)
(* (|u^2+v^2-1| <= 2^-8), consecutive samples must turn in the direction   *)
(* of the sweep flag, a small arc stays on the chord side away from the    *)
(* centre, a large arc passes behind it.                                   *)
(***************************************************************************)
ToVB10(P, s, m) == (P \div s) * 16 + ((P % s) * 16) \div s + m * 16
Div11(N, D) == IF D >= 524288 THEN ((N \div 8) \div (D \div 8)) * 2048 + (((N \div 8) % (D \div 8)) * 2048) \div (D \div 8)
               ELSE (N \div D) * 2048 + ((N % D) * 2048) \div D
BezW(k) == << (16 - k) * (16 - k) * (16 - k), 3 * (16 - k) * (16 - k) * k, 3 * (16 - k) * k * k, k * k * k >>
Bez(p0, p1, p2, p3, k) == LET w == BezW(k) IN (w[1] * p0 + w[2] * p1 + w[3] * p2 + w[4] * p3) \div 4096

(* ellipse-frame coordinates << u, v >> (x 2^-11) of the viewBox point << X, Y >> (x 2^-10) *)
Frame(X, Y, h, rx10, ry10) ==
  LET dx == X - h.c[1] * 16   dy == Y - h.c[2] * 16
      U == dx * h.cs[1] + dy * h.cs[2]
      V == dy * h.cs[1] - dx * h.cs[2] IN
  << Div11(U, rx10 * h.cs[3]), Div11(V, ry10 * h.cs[3]) >>
N2(p) == p[1] * p[1] + p[2] * p[2]
Cross(p, q) == p[1] * q[2] - p[2] * q[1]
Dot(p, q) == p[1] * q[1] + p[2] * q[2]
OnEll(n2, S) == Abs(n2 - S) <= S \div 256 + 64

(* control points of segment j in viewBox fixed point: <<x0,y0,x1,y1,x2,y2,x3,y3>> *)
SegPts(rz, j, g, pen) ==
  LET px(f) == ToVB10(FloorScaled(f, 16).k, g.sx, g.mx)
      py(f) == ToVB10(FloorScaled(f, 16).k, g.sy, g.my)
      x0 == IF j = 1 THEN ToVB10(pen[1], g.sx, g.mx) ELSE px(rz[j - 1].f[5])
      y0 == IF j = 1 THEN ToVB10(pen[2], g.sy, g.my) ELSE py(rz[j - 1].f[6]) IN
  << x0, y0, px(rz[j].f[1]), py(rz[j].f[2]), px(rz[j].f[3]), py(rz[j].f[4]), px(rz[j].f[5]), py(rz[j].f[6]) >>

RECURSIVE Samples(_, _, _, _, _, _, _)
Samples(rz, j, k, g, pen, h, rr) ==
  IF j > Len(rz) THEN << >>
  ELSE LET p == SegPts(rz, j, g, pen)
           s == Frame(Bez(p[1], p[3], p[5], p[7], k), Bez(p[2], p[4], p[6], p[8], k), h, rr[1], rr[2]) IN
       << s >> \o (IF k = 16 THEN Samples(rz, j + 1, 1, g, pen, h, rr) ELSE Samples(rz, j, k + 1, g, pen, h, rr))

(* result: "ok" | "hint" (the generated case is inconsistent: machinery) | a reason *)
ArcGeom(rz, call, h, g, pen, endPt) ==
  LET rx10 == Abs(AsScaled(call.f[1], 6).k) * 16
      ry10 == Abs(AsScaled(call.f[2], 6).k) * 16
      rr   == << rx10, ry10 >>
      A    == Frame(ToVB10(pen[1], g.sx, g.mx), ToVB10(pen[2], g.sy, g.my), h, rx10, ry10)
      B    == Frame(ToVB10(endPt[1], g.sx, g.mx), ToVB10(endPt[2], g.sy, g.my), h, rx10, ry10)
      S    == IF h.scaled = 1 THEN N2(A) ELSE 4194304
      cab  == Cross(A, B)
      half == Abs(cab) <= S \div 64 /\ Dot(A, B) < 0   \* extent (nearly) exactly half a turn (not: nearly none / nearly all)
      sg   == IF call.fl[2] = 1 THEN 1 ELSE -1
      la   == IF call.fl[2] = 1 THEN cab < 0 ELSE cab > 0
      M    == << A[1] + B[1], A[2] + B[2] >>
      ss   == << A >> \o Samples(rz, 1, 1, g, pen, h, rr)
  IN IF ~OnEll(N2(A), S) \/ ~OnEll(N2(B), S) \/ (h.scaled = 1 /\ N2(A) <= 4194304)
          \/ (~half /\ la # (call.fl[1] = 1)) THEN "hint"
     ELSE IF \E i \in 1..Len(ss) : ~OnEll(N2(ss[i]), S) THEN "a sample point is off the ellipse"
     ELSE IF \/ \E i \in 1..Len(ss) - 1 : sg * Cross(ss[i], ss[i + 1]) < 0
             \/ \A i \in 1..Len(ss) - 1 : Cross(ss[i], ss[i + 1]) = 0    \* (a sliver may stall within the sampling resolution, never all the way)
          THEN "samples do not advance in the sweep direction"
     ELSE IF ~half /\ la /\ ~(\E i \in 1..Len(ss) : Dot(ss[i], M) < 0) THEN "large arc requested, small arc drawn"
     ELSE IF ~half /\ ~la /\ (\E i \in 1..Len(ss) : Dot(ss[i], M) < 0) THEN "small arc requested, large arc drawn"
     ELSE "ok"

(* register diffs reported by the harness against the write the model expects *)
DiffOK(diff, w, old) ==
  /\ \A j \in 1..Len(diff) : w # << >> /\ diff[j][1] + 1 = w[1] /\ SubSeq(diff[j], 2, Len(diff[j])) = w[2]
  /\ (w # << >> /\ w[2] # old[w[1]] => Len(diff) = 1)
NDiffOK(diff, w, old) ==
  /\ \A j \in 1..Len(diff) : w # << >> /\ diff[j][1] + 1 = w[1] /\ Same(<< diff[j][2], diff[j][3] >>, w[2])
  /\ (w # << >> /\ ~Same(w[2], old[w[1]]) => Len(diff) = 1)

Diag(class, what, want) ==
  PrintT(ToJson([diag |-> class, what |-> what, line |-> l, id |-> Trace[srcLine].id,
                 ev |-> Trace[l], want |-> want]))
Bad(class, what, want) ==
  /\ Diag(class, what, want)
  /\ nbad' = nbad + 1 /\ skip' = TRUE /\ UNCHANGED << srcLine, r, njudged, nskipgeo, h0 >>

Init == l = 1 /\ srcLine = 0 /\ r = RInit(<< 0, 0, 1, 1 >>) /\ skip = FALSE /\ nbad = 0
        /\ njudged = 0 /\ nskipgeo = 0 /\ h0 = RInit(<< 0, 0, 1, 1 >>)

TVSrc ==
  /\ Trace[l].ev = "rsrc"
  /\ srcLine' = l /\ r' = RInit(Trace[l].rect) /\ skip' = FALSE
  /\ UNCHANGED << nbad, njudged, nskipgeo, h0 >>

(* SetRasterizer on the same Renderer: new target rectangle, transform recomputed *)
TVSet ==
  /\ Trace[l].ev = "rset" /\ ~skip
  /\ r' = [r EXCEPT !.rect = Trace[l].rect, !.g = Geo(r.vb, Trace[l].rect)]
  /\ UNCHANGED << srcLine, skip, nbad, njudged, nskipgeo, h0 >>

(* a call made to a destination whose state is not observed (e.g. an Encoder): *)
(* only the model advances, so that helper post-conditions can be judged        *)
TVMCall ==
  /\ Trace[l].ev = "mcall" /\ ~skip
  /\ r' = RStep(r, Trace[l].call).r
  /\ UNCHANGED << srcLine, skip, nbad, njudged, nskipgeo, h0 >>

(* a selector read-back answered by the real destination *)
TVRead ==
  /\ Trace[l].ev = "read" /\ ~skip
  /\ LET ev == Trace[l]
         want == IF ev.which = "CSel" THEN r.cSel ELSE r.nSel IN
     IF ev.val % 64 # want THEN Bad("sel", "selector read-back", want)
     ELSE UNCHANGED << srcLine, r, skip, nbad, njudged, nskipgeo, h0 >>

(* two observations that must coincide (digests computed by the harness), e.g. the rasteriser *)
(* log of the direct pipeline and of the encode+decode pipeline for the same on-grid steps   *)
TVSame ==
  /\ Trace[l].ev = "same"
  /\ IF Trace[l].a = Trace[l].b THEN UNCHANGED << srcLine, r, skip, nbad, njudged, nskipgeo, h0 >>
     ELSE /\ PrintT(ToJson([diag |-> "pipe", what |-> Trace[l].what, line |-> l,
                             id |-> Trace[srcLine].id, ev |-> Trace[l], want |-> "equal"]))
          /\ nbad' = nbad + 1 /\ UNCHANGED << srcLine, r, skip, njudged, nskipgeo, h0 >>

(* Generator gradient helpers: hstart before the helper runs, helper after *)
TVHStart ==
  /\ Trace[l].ev = "hstart" /\ ~skip
  /\ h0' = r /\ UNCHANGED << srcLine, r, skip, nbad, njudged, nskipgeo >>

HelperArgs(ev, q) ==
  [shape |-> ev.shape, spread |-> ev.spread,
   stops |-> [i \in 1..Len(ev.stops) |-> [c |-> ev.stops[i].c, o |-> ev.stops[i].o]],
   m |-> IF ev.m # << >> THEN ev.m ELSE [i \in 1..6 |-> r.nReg[Reg(GradNBase(q) - 7 + i + 64)]]]
GeomOK(ev, m) ==
  CASE ev.geom.kind = "linear" -> LinearGeom(m, ev.geom.p1, ev.geom.p2)
    [] ev.geom.kind = "circular" -> CircularGeom(m, ev.geom.c, ev.geom.rv)
    [] ev.geom.kind = "elliptical" -> EllipticalGeom(m, ev.geom.c, ev.geom.rv, ev.geom.sv)
    [] OTHER -> TRUE
TVHelper ==
  /\ Trace[l].ev = "helper" /\ ~skip
  /\ LET ev  == Trace[l]
         rej == Rejected(h0.cSel, Len(ev.stops))
         q   == r.cReg[Reg(h0.cSel)]
         a   == HelperArgs(ev, q) IN
     IF ev.ret # rej THEN Bad("gen", "helper accepted/rejected wrongly", rej)
     ELSE IF rej # "" /\ (ev.ncalls # 0 \/ r # h0) THEN Bad("gen", "helper wrote before rejecting", rej)
     ELSE IF rej = "" /\ ~GradPost(h0, r, a) THEN Bad("gen", "gradient registers / selectors after the helper", [q |-> q, cSel |-> r.cSel, nSel |-> r.nSel, cSel0 |-> h0.cSel, nSel0 |-> h0.nSel])
     ELSE IF rej = "" /\ ~GeomOK(ev, a.m) THEN Bad("gen", "gradient geometry", a.m)
     ELSE UNCHANGED << srcLine, r, skip, nbad, njudged, nskipgeo, h0 >>

(* far-out absolute points (round 10): a stateless judgement for coordinates whose image lies beyond what the  *)
(* machine's 2^-16-pixel integers can hold.  Under an integer viewBox-to-pixel scale S the image of the absolute *)
(* point k/64 is (k - min) * S / 64 exactly, a float32 while below 2^24 sixty-fourths: the code must return that *)
(* very number however far outside the target rectangle it lies (C05: the mapping is affine everywhere).        *)
FarJudge(ev) ==
  LET g == Geo(ev.vb, ev.rect) IN
  IF ~(g.ok /\ ~g.approx /\ g.sx % 1024 = 0 /\ g.sy % 1024 = 0 /\ Len(ev.pin) = Len(ev.out) /\ Len(ev.args) = 2 * Len(ev.pin)) THEN "hint"
  ELSE IF \E i \in 1..Len(ev.pin) : \/ ev.args[2 * i - 1] # OfScaled(ev.pin[i][1], 6) \/ ev.args[2 * i] # OfScaled(ev.pin[i][2], 6)
                                     \/ Abs((ev.pin[i][1] - g.mx) * (g.sx \div 1024)) >= 16777216
                                     \/ Abs((ev.pin[i][2] - g.my) * (g.sy \div 1024)) >= 16777216 THEN "hint"
  ELSE IF \A i \in 1..Len(ev.pin) :
            LET wx == OfScaled((ev.pin[i][1] - g.mx) * (g.sx \div 1024), 6)
                wy == OfScaled((ev.pin[i][2] - g.my) * (g.sy \div 1024), 6) IN
            /\ (ev.out[i][1] = wx \/ (IsZero(wx) /\ IsZero(ev.out[i][1])))
            /\ (ev.out[i][2] = wy \/ (IsZero(wy) /\ IsZero(ev.out[i][2])))
       THEN "ok" ELSE "far-out absolute point is not the affine image"
TVFar ==
  /\ Trace[l].ev = "far"
  /\ LET j == FarJudge(Trace[l]) IN
     IF j = "ok" THEN /\ njudged' = njudged + 1 /\ UNCHANGED << srcLine, r, skip, nbad, nskipgeo, h0 >>
     ELSE /\ PrintT(ToJson([diag |-> IF j = "hint" THEN "hint" ELSE "raster", what |-> j, line |-> l,
                             id |-> Trace[srcLine].id, ev |-> Trace[l], want |-> "affine image"]))
          /\ nbad' = nbad + 1 /\ UNCHANGED << srcLine, r, skip, njudged, nskipgeo, h0 >>

(* a call that panicked inside the Renderer (the rasteriser behind it is a recorder): never allowed *)
TVPanic ==
  /\ Trace[l].ev = "panic" /\ ~skip
  /\ Bad(IF Trace[l].call.op \in {"StartPath", "SetCReg", "SetNReg", "SetCSel", "SetNSel", "SetLOD", "Reset"} THEN "vm" ELSE "raster",
         "panic in the Renderer", Trace[l].msg)

TVSkip == Trace[l].ev \notin {"rsrc", "same", "far"} /\ skip /\ UNCHANGED << srcLine, r, skip, nbad, njudged, nskipgeo, h0 >>

TVCall ==
  /\ Trace[l].ev = "call" /\ ~skip
  /\ LET ev  == Trace[l]
         res == RStep(r, ev.call)
         n   == res.r IN
     IF ev.sel[1] % 64 # n.cSel \/ ev.sel[2] % 64 # n.nSel THEN Bad("vm", "selectors", << n.cSel, n.nSel >>)
     ELSE IF ~Same(ev.lod[1], n.lod[1]) \/ ~Same(ev.lod[2], n.lod[2]) THEN Bad("vm", "lod", n.lod)
     ELSE IF ev.call.op = "Reset" /\ Has(ev, "creg") /\ ev.creg # n.cReg THEN Bad("vm", "registers after Reset", "palette")
     ELSE IF ev.call.op # "Reset" /\ ~DiffOK(ev.dc, res.wc, r.cReg) THEN Bad("vm", "colour register write", res.wc)
     ELSE IF ev.call.op # "Reset" /\ ~NDiffOK(ev.dn, res.wn, r.nReg) THEN Bad("vm", "number register write", res.wn)
     ELSE IF ev.call.op = "StartPath" /\ ~n.unspec /\ (ev.dis = 1) # (~n.en) THEN Bad("vm", "path enabling", [en |-> n.en, paint |-> n.paint])
     ELSE IF res.judge = "quiet" /\ ev.rz # << >> THEN Bad("vm", "rasteriser activity where none is allowed", ev.call.op)
     ELSE IF res.judge = "draw" /\ ~(/\ Len(ev.rz) = 2 /\ ev.rz[1].k = "ClosePath" /\ ev.rz[2].k = "Draw"
                                     /\ ev.rz[2].i = res.rz[2].i) THEN Bad("raster", "close and draw once over the target rectangle", res.rz)
     ELSE IF res.judge = "draw" /\ ~PaintOK(ev.rz[2].src, r.paint) THEN Bad("vm", "paint", r.paint)
     ELSE IF res.judge = "draw" /\ ~MatrixOK(ev.rz[2].src, r.paint, r) THEN Bad("vm", "paint matrix", r.paint)
     ELSE IF res.judge \in {"exact", "tol"} /\ ~AllRzOK(ev.rz, res.rz, res.judge) THEN Bad("raster", "rasteriser calls (" \o res.judge \o ")", res.rz)
     ELSE IF res.judge = "arc" /\ ~ArcOK(ev.rz, res.rz[1].p) THEN Bad("arc", "arc segments / end point", res.rz)
     ELSE IF res.judge = "arc" /\ Has(ev, "hint") /\ ArcGeom(ev.rz, ev.call, ev.hint, r.g, r.pen, res.rz[1].p) = "hint"
          THEN Bad("hint", "generated ellipse case is inconsistent (machinery)", ev.hint)
     ELSE IF res.judge = "arc" /\ Has(ev, "hint") /\ ArcGeom(ev.rz, ev.call, ev.hint, r.g, r.pen, res.rz[1].p) # "ok"
          THEN Bad("arc", ArcGeom(ev.rz, ev.call, ev.hint, r.g, r.pen, res.rz[1].p), ev.hint)
     ELSE /\ r' = n
          /\ njudged' = IF res.judge \in {"exact", "tol", "arc", "draw"} THEN njudged + 1 ELSE njudged
          /\ nskipgeo' = IF res.judge = "none" THEN nskipgeo + 1 ELSE nskipgeo
          /\ UNCHANGED << srcLine, skip, nbad, h0 >>

Next == l <= Len(Trace) /\ l' = l + 1 /\ (TVSrc \/ TVSkip \/ TVCall \/ TVSet \/ TVMCall \/ TVRead \/ TVHStart \/ TVHelper \/ TVSame \/ TVFar \/ TVPanic)
Spec == Init /\ [][Next]_vars
Done == l = Len(Trace) + 1
Report == Done => PrintT(ToJson([diag |-> "summary", lines |-> Len(Trace), nbad |-> nbad,
                                 njudged |-> njudged, nskipgeo |-> nskipgeo]))
Consumed == TLCGet("stats").diameter = Len(Trace) + 1
=============================================================================
