--------------------------------- MODULE F32 ---------------------------------
(***************************************************************************)
(* Bit-exact IEEE-754 binary32 values for a tool that has only (32-bit)    *)
(* integers.  A float32 is the pair <<hi, lo>> of the two 16-bit halves of *)
(* its bit pattern -- this is also how floats travel in JSON traces.       *)
(*                                                                         *)
(* Only operations whose IEEE result is determined without real arithmetic *)
(* are provided: classification, ordering, exact conversion from and to    *)
(* scaled integers (k * 2^-q), correctly rounded division of small         *)
(* integers, unit-in-the-last-place distance.  All intermediate integers   *)
(* stay below 2^31 (TLC integers are 32-bit and overflow is an error).     *)
(***************************************************************************)
EXTENDS Integers, Sequences

P2 == << 1, 2, 4, 8, 16, 32, 64, 128, 256, 512, 1024, 2048, 4096, 8192, 16384,
         32768, 65536, 131072, 262144, 524288, 1048576, 2097152, 4194304,
         8388608, 16777216, 33554432, 67108864, 134217728, 268435456,
         536870912, 1073741824 >>
Pow2(n) == P2[n + 1]                     \* 0 <= n <= 30

Abs(x) == IF x < 0 THEN -x ELSE x
Min2(a, b) == IF a < b THEN a ELSE b
Max2(a, b) == IF a > b THEN a ELSE b

RECURSIVE Log2R(_, _)
Log2R(n, p) == IF n < 2 THEN p ELSE Log2R(n \div 2, p + 1)
Log2(n) == Log2R(n, 0)                   \* floor(log2 n), n >= 1

-----------------------------------------------------------------------------
(* Fields *)
Sign(f) == f[1] \div 32768
Exp(f)  == (f[1] % 32768) \div 128
Man(f)  == (f[1] % 128) * 65536 + f[2]
Mag(f)  == Exp(f) * 8388608 + Man(f)                      \* <= 2^31 - 1
Bits(s, e, m) == << s * 32768 + e * 128 + (m \div 65536), m % 65536 >>

IsF32(f)   == /\ Len(f) = 2 /\ f[1] \in 0..65535 /\ f[2] \in 0..65535
IsNaN(f)    == Exp(f) = 255 /\ Man(f) # 0
IsInf(f)    == Exp(f) = 255 /\ Man(f) = 0
IsFinite(f) == Exp(f) < 255
IsZero(f)   == Mag(f) = 0

Zero    == << 0, 0 >>
NegZero == << 32768, 0 >>
One     == << 16256, 0 >>                \* 0x3f800000
PosInf  == << 32640, 0 >>                \* 0x7f800000
NegInf  == << 65408, 0 >>                \* 0xff800000

(* Numerical equality (IEEE ==): NaN equals nothing, -0 equals +0. *)
NumEq(a, b) == ~IsNaN(a) /\ ~IsNaN(b) /\ (a = b \/ (IsZero(a) /\ IsZero(b)))
(* Equality of observations: same bits, or both NaN (payloads are not       *)
(* guaranteed to survive every hardware move).                             *)
Same(a, b) == a = b \/ (IsNaN(a) /\ IsNaN(b))

Key(f) == IF Sign(f) = 0 THEN Mag(f) ELSE -Mag(f)         \* order-preserving on non-NaN
Lt(a, b) == ~IsNaN(a) /\ ~IsNaN(b) /\ Key(a) < Key(b)
Le(a, b) == ~IsNaN(a) /\ ~IsNaN(b) /\ Key(a) <= Key(b)
Gt(a, b) == Lt(b, a)
Ge(a, b) == Le(b, a)

Neg(f) == << (f[1] + 32768) % 65536, f[2] >>

-----------------------------------------------------------------------------
(* value(f) = Sig(f) * 2^Ex(f) for finite f *)
Sig(f) == IF Exp(f) = 0 THEN Man(f) ELSE 8388608 + Man(f)
Ex(f)  == IF Exp(f) = 0 THEN -149 ELSE Exp(f) - 150

(***************************************************************************)
(* AsScaled(f, q): is f = k * 2^-q for an integer k with |k| < 2^30 ?      *)
(***************************************************************************)
NoK == [ok |-> FALSE, k |-> 0]
AsScaled(f, q) ==
  LET M  == Sig(f)
      sh == Ex(f) + q
      sg == IF Sign(f) = 1 THEN -1 ELSE 1
  IN IF ~IsFinite(f) THEN NoK
     ELSE IF M = 0 THEN [ok |-> TRUE, k |-> 0]
     ELSE IF sh >= 0 THEN
            IF sh <= 30 /\ M <= 1073741823 \div Pow2(sh)
              THEN [ok |-> TRUE, k |-> sg * M * Pow2(sh)] ELSE NoK
     ELSE IF -sh > 24 THEN NoK
     ELSE IF M % Pow2(-sh) = 0 THEN [ok |-> TRUE, k |-> sg * (M \div Pow2(-sh))]
     ELSE NoK

(* Floor(f * 2^q) and whether bits were dropped, for finite f with          *)
(* |f * 2^q| < 2^30.  Returns [ok, k, exact]; ok = FALSE when out of range. *)
FloorScaled(f, q) ==
  LET M  == Sig(f)
      sh == Ex(f) + q
      neg == Sign(f) = 1
  IN IF ~IsFinite(f) THEN [ok |-> FALSE, k |-> 0, exact |-> FALSE]
     ELSE IF M = 0 THEN [ok |-> TRUE, k |-> 0, exact |-> TRUE]
     ELSE IF sh >= 0 THEN
            IF sh <= 30 /\ M <= 1073741823 \div Pow2(sh)
              THEN [ok |-> TRUE, k |-> (IF neg THEN -1 ELSE 1) * M * Pow2(sh), exact |-> TRUE]
              ELSE [ok |-> FALSE, k |-> 0, exact |-> FALSE]
     ELSE LET d == IF -sh > 30 THEN 0 ELSE M \div Pow2(-sh)
              r == IF -sh > 30 THEN M ELSE M % Pow2(-sh)
          IN IF r = 0 THEN [ok |-> TRUE, k |-> (IF neg THEN -d ELSE d), exact |-> TRUE]
             ELSE [ok |-> TRUE, k |-> (IF neg THEN -d - 1 ELSE d), exact |-> FALSE]

(***************************************************************************)
(* OfScaled(k, q): the float32 equal to k * 2^-q.  Exact when |k| < 2^24   *)
(* or the dropped low bits are zero; the result must be a normal number.   *)
(***************************************************************************)
OfScaled(k, q) ==
  IF k = 0 THEN Zero
  ELSE LET a == Abs(k)
           p == Log2(a)
           m == IF p <= 23 THEN a * Pow2(23 - p) - 8388608
                           ELSE (a \div Pow2(p - 23)) - 8388608
       IN Bits(IF k < 0 THEN 1 ELSE 0, 127 + p - q, m)
(* the same, also for results below the normal range: k * 2^-q as a subnormal float32 (exact when it  *)
(* is a multiple of 2^-149 below 2^-126); q up to 149 + 30                                              *)
OfScaledAny(k, q) ==
  IF k = 0 THEN Zero
  ELSE LET a == Abs(k)  p == Log2(a) IN
       IF 127 + p - q >= 1 THEN OfScaled(k, q)
       ELSE IF q <= 149 THEN Bits(IF k < 0 THEN 1 ELSE 0, 0, a * Pow2(149 - q))
       ELSE Bits(IF k < 0 THEN 1 ELSE 0, 0, a \div Pow2(q - 149))

(* Is k * 2^-q exactly representable (as a normal float32)? *)
ScaledExact(k, q) ==
  k = 0 \/ LET a == Abs(k)  p == Log2(a) IN
           /\ (p <= 23 \/ a % Pow2(p - 23) = 0)
           /\ 127 + p - q >= 1 /\ 127 + p - q <= 254

(***************************************************************************)
(* DivRN(u, d): float32(u) / float32(d), correctly rounded (nearest even), *)
(* for integers 0 <= u < 2^24, 1 <= d < 2^15.  Binary long division.       *)
(***************************************************************************)
RECURSIVE LongDiv(_, _, _, _)
(* S: significand bits so far, r: remainder (< D), n: bits still to produce *)
LongDiv(S, r, D, n) ==
  IF n = 0 THEN [S |-> S, r |-> r]
  ELSE IF 2 * r >= D THEN LongDiv(2 * S + 1, 2 * r - D, D, n - 1)
                     ELSE LongDiv(2 * S, 2 * r, D, n - 1)

RECURSIVE UpShift(_, _, _)
UpShift(u, d, j) == IF u * Pow2(j) >= d THEN j ELSE UpShift(u, d, j + 1)

DivRN(u, d) ==
  IF u = 0 THEN Zero
  ELSE LET p  == IF u >= d THEN Log2(u \div d) ELSE -UpShift(u, d, 1)
           N  == IF p >= 0 THEN u ELSE u * Pow2(-p)
           D  == IF p >= 0 THEN d * Pow2(p) ELSE d
           ld == LongDiv(1, N - D, D, 23)
           up == 2 * ld.r > D \/ (2 * ld.r = D /\ ld.S % 2 = 1)
           S  == IF up THEN ld.S + 1 ELSE ld.S
       IN IF S = 16777216 THEN Bits(0, 127 + p + 1, 0)
                          ELSE Bits(0, 127 + p, S - 8388608)

-----------------------------------------------------------------------------
(* Distance in units of the last place between two finite values of the     *)
(* same sign (also meaningful across exponent boundaries).                 *)
UlpDist(a, b) == Abs(Mag(a) - Mag(b))

(***************************************************************************)
(* The format's tolerance for a 4-byte (30-bit) number: sign kept, at most *)
(* 4 ulp off, finite stays finite, infinities kept, NaN stays non-finite.  *)
(***************************************************************************)
Within4(d, v) ==
  IF IsNaN(v) THEN ~IsFinite(d)
  ELSE IF IsInf(v) THEN d = v
  ELSE /\ IsFinite(d) /\ Sign(d) = Sign(v)
       /\ ( UlpDist(d, v) <= 4 )

(* d has the two low mantissa bits clear, i.e. is a 30-bit float *)
Is30(d) == d[2] % 4 = 0
=============================================================================
