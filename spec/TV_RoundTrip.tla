---------------------------- MODULE TV_RoundTrip ----------------------------
(***************************************************************************)
(* Trace validation of encode -> decode (properties C01, C10, C17, C07):   *)
(* the bytes a real Encoder produced for a recorded call history are       *)
(* decoded by the *specification's* decoder (Decoder.tla) and every        *)
(* decoded operation is matched against the history call it must come      *)
(* from, up to the format's quantisation (Numbers.tla: CoordMatch,         *)
(* RealMatch, AngleMatch).  Encoder and decoder being wrong together is    *)
(* therefore visible.  The Encoder model (Encoder.tla) runs alongside to   *)
(* know the resolution latched by each StartPath.                          *)
(*                                                                         *)
(*   {ev:"src", id, b:[bytes], from:k, implicitReset:0|1, fresh:[bytes]?}  *)
(*   {ev:"h", call:{...}}    history calls in order (pseudo-calls SetHiRes,*)
(*                           CSel, NSel, LOD, Bytes included); matching    *)
(*                           against the bytes starts at the from-th h     *)
(*   {ev:"end"}                                                            *)
(***************************************************************************)
EXTENDS RoundTrip, TLC, Json, IOUtils

Trace == ndJsonDeserialize(IOEnv.VERIF_TRACE)

VARIABLES l, srcLine, st, e, k, skip, nbad
vars == << l, srcLine, st, e, k, skip, nbad >>

Has(r, f) == f \in DOMAIN r
B == Trace[srcLine].b
Src == Trace[srcLine]

Diag(what, want) ==
  PrintT(ToJson([diag |-> what, line |-> l, src |-> srcLine, ev |-> Trace[l], want |-> want,
                 id |-> IF srcLine > 0 /\ Has(Src, "id") THEN Src.id ELSE ""]))
Bad(what, want) ==
  /\ Diag(what, want)
  /\ nbad' = nbad + 1 /\ skip' = TRUE
  /\ UNCHANGED << srcLine, st, e, k >>

Init == l = 1 /\ srcLine = 0 /\ st = DInit /\ e = EZero /\ k = 0 /\ skip = FALSE /\ nbad = 0

TVSrc ==
  /\ Trace[l].ev = "src"
  /\ srcLine' = l /\ k' = 0 /\ e' = EZero /\ UNCHANGED nbad
  /\ LET ev == Trace[l] IN
     IF Has(ev, "fresh") /\ ev.fresh # ev.b THEN
        \* C17: the reused object's bytes must be identical to a fresh object's
        /\ PrintT(ToJson([diag |-> "bytes differ from fresh object", line |-> l, id |-> ev.id,
                          b |-> ev.b, fresh |-> ev.fresh]))
        /\ skip' = TRUE /\ st' = DInit
     ELSE IF ev.implicitReset = 1 THEN
        \* zero-value Encoder: the stream must open with the default metadata
        LET r == Step(ev.b, DInit, << >>) IN
        IF r.out.k = "call" /\ r.out.call.f = DefaultViewBox /\ r.out.call.pal = DefaultPalette
          THEN st' = r.st /\ skip' = FALSE
          ELSE /\ PrintT(ToJson([diag |-> "default metadata expected", line |-> l, id |-> ev.id, want |-> r.out]))
               /\ skip' = TRUE /\ st' = DInit
     ELSE st' = DInit /\ skip' = FALSE

TVSkip ==
  /\ Trace[l].ev # "src" /\ skip
  /\ UNCHANGED << srcLine, st, e, k, skip, nbad >>

TVH ==
  /\ Trace[l].ev = "h" /\ ~skip
  /\ LET hc == Trace[l].call
         e2 == EStep(e, hc) IN
     IF k + 1 < Src.from \/ hc.op \in Pseudo THEN
        /\ e' = e2 /\ k' = k + 1 /\ UNCHANGED << srcLine, st, skip, nbad >>
     ELSE
       LET r == Step(B, st, << >>) IN
       IF r.out.k # "call" THEN Bad("stream ends or fails before this history call", r.out)
       ELSE IF ~HMatch(hc, r.out.call, e2.hiResL) THEN Bad("decoded operation does not match the history", r.out.call)
       ELSE /\ st' = r.st /\ e' = e2 /\ k' = k + 1 /\ UNCHANGED << srcLine, skip, nbad >>

TVEnd ==
  /\ Trace[l].ev = "end" /\ ~skip
  /\ LET r == Step(B, st, << >>) IN
     IF r.out.k # "end" THEN Bad("stream holds more than the history", r.out)
     ELSE UNCHANGED << srcLine, st, e, k, skip, nbad >>

Next ==
  /\ l <= Len(Trace)
  /\ l' = l + 1
  /\ (TVSrc \/ TVSkip \/ TVH \/ TVEnd)

Spec == Init /\ [][Next]_vars
Done == l = Len(Trace) + 1
Report == Done => PrintT(ToJson([diag |-> "summary", lines |-> Len(Trace), nbad |-> nbad]))
Consumed == TLCGet("stats").diameter = Len(Trace) + 1
=============================================================================
