---------------------------- MODULE GEN_PathData ----------------------------
(***************************************************************************)
(* Enumerates well-formed path strings of both dialects (every verb        *)
(* sequence up to MaxCmds commands after the initial move, 1-2 operand     *)
(* groups per verb, sub-path joins, separator styles, transforms) and      *)
(* prints each as one JSON line with the calls PathData.tla assigns to it. *)
(* The Go replayer feeds the string to the real front end and compares the *)
(* calls it makes (float bits).  Invariants (MC part): the meaning starts  *)
(* with StartPath carrying the given ADJ, ends with the only               *)
(* ClosePathEndPath, and has one call per operand group.                   *)
(***************************************************************************)
EXTENDS PathData, TLC, Json

CONSTANTS MaxCmds, Salts

GenVerbs == {"M", "m", "L", "l", "H", "h", "V", "v", "C", "c", "S", "s", "Q", "q", "T", "t", "A", "a"}
MdVerbs  == GenVerbs \ {"A", "a"}

Transforms == <<
  << >>,                                                                   \* no transform configured
  << [sx |-> << 2, 0 >>, sy |-> << 2, 0 >>, tx |-> << 0, 0 >>, ty |-> << 0, 0 >>] >>,
  << [sx |-> << 2, 0 >>, sy |-> << 1, 1 >>, tx |-> << 0, 0 >>, ty |-> << 0, 0 >>],
     [sx |-> << 1, 0 >>, sy |-> << 1, 0 >>, tx |-> << -32, 0 >>, ty |-> << 7, 0 >>] >>,
  << [sx |-> << 1, 0 >>, sy |-> << 1, 0 >>, tx |-> << 5, 1 >>, ty |-> << -3, 0 >>],
     [sx |-> << 4, 0 >>, sy |-> << 1, 2 >>, tx |-> << 0, 0 >>, ty |-> << 0, 0 >>],
     [sx |-> << 1, 1 >>, sy |-> << 2, 0 >>, tx |-> << 1, 0 >>, ty |-> << 1, 0 >>] >> >>
(* (size, offset, outSize) of the converter: scale, outSize/2, offset *)
MdParams == << [size |-> 48, out |-> 48, scale |-> << 1, 0 >>, half |-> << 24, 0 >>, ox |-> << 0, 0 >>, oy |-> << 0, 0 >>],
               [size |-> 24, out |-> 48, scale |-> << 2, 0 >>, half |-> << 24, 0 >>, ox |-> << 0, 0 >>, oy |-> << 0, 0 >>],
               [size |-> 48, out |-> 96, scale |-> << 2, 0 >>, half |-> << 48, 0 >>, ox |-> << -8, 0 >>, oy |-> << 4, 0 >>],
               [size |-> 48, out |-> 24, scale |-> << 1, 1 >>, half |-> << 12, 0 >>, ox |-> << 3, 1 >>, oy |-> << 0, 0 >>] >>

VARIABLES dialect, cmds, salt, done
vars == << dialect, cmds, salt, done >>

Cmd(v, g, z) == [v |-> v, g |-> g, z |-> z]

Init ==
  /\ dialect \in {"gen", "md"} /\ salt \in Salts /\ done = FALSE
  /\ cmds \in { << Cmd(v, g, FALSE) >> : v \in (IF dialect = "gen" THEN {"M", "m"} ELSE {"M"}),
                                         g \in (IF dialect = "gen" THEN {1, 2} ELSE {1}) }

Next ==
  /\ ~done
  /\ \/ /\ Len(cmds) <= MaxCmds
        /\ \E v \in (IF dialect = "gen" THEN GenVerbs ELSE MdVerbs), g \in {1, 2}, z \in BOOLEAN :
             /\ (v \in {"M", "m"} => (dialect = "gen" => z) /\ (dialect = "md" => g = 1))
             /\ (v \notin {"M", "m"} => ~z)
             /\ cmds' = Append(cmds, Cmd(v, g, z))
        /\ UNCHANGED << dialect, salt, done >>
     \/ done' = TRUE /\ UNCHANGED << dialect, cmds, salt >>

Spec == Init /\ [][Next]_vars

Sep3 == IF dialect = "md" /\ salt % 3 = 1 THEN 3 ELSE (salt % 3) + 1     \* no commas in the converter dialect
Adj  == salt % 7
TrailZ == dialect = "gen" \/ salt % 2 = 0
TList == IF dialect = "gen" THEN Transforms[(salt % 4) + 1] ELSE << >>
MdP == MdParams[(salt % 4) + 1]
T == IF dialect = "gen" THEN ConcatAll(TList)
     ELSE MdTransform(MdP.scale, MdP.half, MdP.ox, MdP.oy)
Calls == Meaning(cmds, salt, T, Adj)

NGroups == LET RECURSIVE cnt(_)
               cnt(c) == IF c > Len(cmds) THEN 0 ELSE cmds[c].g + cnt(c + 1) IN cnt(1)
MeaningShape ==
  done => /\ WellFormedPath(cmds, dialect)
          /\ Calls[1].op = "StartPath" /\ Calls[1].adj = Adj
          /\ Calls[Len(Calls)].op = "ClosePathEndPath"
          /\ \A i \in 1..Len(Calls) - 1 : Calls[i].op # "ClosePathEndPath" /\ (i > 1 => Calls[i].op # "StartPath")
          /\ Len(Calls) = NGroups + 1

Emit == done => PrintT(ToJson([diag |-> "path", dialect |-> dialect, s |-> Spell(cmds, salt, Sep3, dialect, TrailZ),
                               adj |-> Adj, tlist |-> TList, hasT |-> Len(TList) > 0,
                               md |-> [size |-> MdP.size, out |-> MdP.out, ox |-> MdP.ox, oy |-> MdP.oy],
                               calls |-> Calls]))
=============================================================================
