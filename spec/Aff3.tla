--------------------------------- MODULE Aff3 ---------------------------------
(***************************************************************************)
(* generate.Aff3: the 2x3 affine matrices a Generator is configured with   *)
(* (Translate, Scale, Concat, MulAff3, SetTransform) and the way           *)
(* SetPathData applies them to the operands of a path (normalize).         *)
(* PathData.tla (property C20) knows scale-and-translate transforms only;  *)
(* this module is the general case: six dyadic entries <<k, q>> = k*2^-q,  *)
(* row major  | m1 m2 m3 |                                                 *)
(*            | m4 m5 m6 |   (bottom row 0 0 1 implicit).                  *)
(*   AThen(a, b)   one step of generate.Concat: first a, then b            *)
(*   AConcat(ts)   generate.Concat(ts...): identity for the empty list,    *)
(*                 the matrix itself for one, the left fold otherwise      *)
(*   AApply(m, p)  generate.MulAff3(p.x, p.y, m)                           *)
(*   GenAbs/GenRel what SetPathData does with an absolute / a relative     *)
(*                 operand pair; GenH/GenV for the one-operand verbs.      *)
(* Named deviation RelDiagOnly: a relative operand is multiplied by the    *)
(* diagonal (m1, m5) only, so under a matrix with off-diagonal entries the *)
(* relative verbs do not follow the absolute ones (the model says what the *)
(* code does; RelFollowsAbs holds exactly for diagonal matrices).          *)
(***************************************************************************)
EXTENDS PathData

D0 == << 0, 0 >>
D1 == << 1, 0 >>
AIdent == << D1, D0, D0, D0, D1, D0 >>
ATranslate(x, y) == << D1, D0, x, D0, D1, y >>
AScale(v) == IF Len(v) = 0 THEN AIdent
             ELSE IF Len(v) = 1 THEN << v[1], D0, D0, D0, v[1], D0 >>
             ELSE << v[1], D0, D0, D0, v[2], D0 >>              \* further arguments are ignored

D3(a, b, c) == DAdd(DAdd(a, b), c)
AThen(a, b) ==
  << DAdd(DMul(a[1], b[1]), DMul(a[4], b[2])), DAdd(DMul(a[2], b[1]), DMul(a[5], b[2])), D3(DMul(a[3], b[1]), DMul(a[6], b[2]), b[3]),
     DAdd(DMul(a[1], b[4]), DMul(a[4], b[5])), DAdd(DMul(a[2], b[4]), DMul(a[5], b[5])), D3(DMul(a[3], b[4]), DMul(a[6], b[5]), b[6]) >>
AConcat(ts) == IF Len(ts) = 0 THEN AIdent
               ELSE IF Len(ts) = 1 THEN ts[1]
               ELSE LET RECURSIVE go(_, _)
                        go(acc, i) == IF i > Len(ts) THEN acc ELSE go(AThen(acc, ts[i]), i + 1)
                    IN go(AIdent, 1)
AApply(m, p) == << D3(DMul(p[1], m[1]), DMul(p[2], m[2]), m[3]), D3(DMul(p[1], m[4]), DMul(p[2], m[5]), m[6]) >>

(* equality of dyadic values, entry-wise *)
DEq(a, b) == a[1] * Pow2(b[2]) = b[1] * Pow2(a[2])
SeqDEq(s, t) == Len(s) = Len(t) /\ \A i \in 1..Len(s) : DEq(s[i], t[i])
DSub(a, b) == DAdd(a, << -b[1], b[2] >>)

(* SetPathData's operand rules under the configured matrix m = AConcat(transforms) *)
ADiag(m) == << m[1], D0, D0, D0, m[5], D0 >>
GenAbs(m, p) == AApply(m, p)
GenRel(m, p) == AApply(ADiag(m), p)
GenH(m, x, rel) == IF rel THEN DMul(x, m[1]) ELSE DAdd(DMul(x, m[1]), m[3])     \* MulAff3(x, 0, .) first component
GenV(m, y, rel) == IF rel THEN DMul(y, m[5]) ELSE DAdd(DMul(y, m[5]), m[6])     \* MulAff3(0, y, .) second component
GenRadii(m, r) == AApply(ADiag(m), r)                                            \* arc radii: the diagonal only

IsDiag(m) == m[2][1] = 0 /\ m[4][1] = 0
(* a relative step lands where the absolute end point does *)
RelFollowsAbs(m, p1, p2) ==
  SeqDEq(GenRel(m, << DSub(p2[1], p1[1]), DSub(p2[2], p1[2]) >>),
         << DSub(GenAbs(m, p2)[1], GenAbs(m, p1)[1]), DSub(GenAbs(m, p2)[2], GenAbs(m, p1)[2]) >>)
=============================================================================
