--------------------------- MODULE MC_EncoderBytes ---------------------------
(***************************************************************************)
(* C01 at design level, inside the specification: for every call history   *)
(* of the bound over the alphabet below, the bytes the Encoder model       *)
(* (EncoderBytes.tla) writes are decoded by the decoding machine           *)
(* (Decoder.tla) into exactly that history, up to the format's             *)
(* quantisation (RoundTrip.tla) -- and the stream ends there.  The         *)
(* alphabet is chosen to reach every number form (1, 2, 4 bytes of each    *)
(* kind, both resolutions, the value that quantises up to 128), every      *)
(* colour form, the metadata variants and run batching (a run of 17        *)
(* smooth quads splits into 16 + 1; H lines never batch).                  *)
(*   Decodes      every error-free history round-trips                     *)
(*   Minimal      numbers and colours are written in their shortest exact  *)
(*                form (Numbers.tla EncOK; Colors.tla EncColorOK)          *)
(*   Deterministic, BytesIdempotent   follow from EBStep being a function  *)
(*                and BytesOf not changing the state                       *)
(***************************************************************************)
EXTENDS RoundTrip, EncoderBytes, TLC

CONSTANTS Depth

Mk(op, adj, incr, sel) == [op |-> op, adj |-> adj, incr |-> incr, sel |-> sel,
                           f |-> << >>, c |-> << >>, fl |-> << >>, pal |-> << >>]
Fs(call, fs) == [call EXCEPT !.f = fs]
F(k, q) == OfScaled(k, q)
Big   == F(64033, 6)            \* 1000.515625: four bytes
Edge  == F(16383, 7)            \* 127.9921875: quantises up to 128 at low resolution
Third == << 16042, 43691 >>     \* 0x3eaaaaab = float32(1/3): zero-to-one 5040/15120
NaN32 == << 32704, 0 >>

Pal2 == [i \in 1..64 |-> IF i = 1 THEN << 255, 0, 64, 255 >> ELSE IF i = 3 THEN << 0, 0, 0, 0 >> ELSE Black]
Pal4 == [i \in 1..64 |-> IF i = 2 THEN << 16, 32, 48, 128 >> ELSE Black]

Alphabet == {
  [Fs(Mk("Reset", 0, 0, 0), DefaultViewBox) EXCEPT !.pal = DefaultPalette],
  [Fs(Mk("Reset", 0, 0, 0), << F(-24, 0), F(-24, 0), F(24, 0), F(24, 0) >>) EXCEPT !.pal = Pal2],
  [Fs(Mk("Reset", 0, 0, 0), << F(1, 1), F(-8192, 6), Big, F(100, 0) >>) EXCEPT !.pal = Pal4],
  Mk("Bytes", 0, 0, 0), Mk("SetHiRes", 0, 0, 1),
  Mk("SetCSel", 0, 0, 63), Mk("SetNSel", 0, 0, 70),
  [Mk("SetCReg", 1, 0, 0) EXCEPT !.c = << 0, 48, 102, 7, 255 >>],        \* 3 bytes direct
  [Mk("SetCReg", 0, 1, 0) EXCEPT !.c = << 1, 3, 0, 0, 0 >>],             \* 1 byte (palette)
  [Mk("SetCReg", 6, 0, 0) EXCEPT !.c = << 0, 17, 34, 51, 68 >>],         \* 2 bytes
  [Mk("SetCReg", 0, 0, 0) EXCEPT !.c = << 0, 1, 2, 3, 4 >>],             \* 4 bytes
  [Mk("SetCReg", 2, 0, 0) EXCEPT !.c = << 3, 64, 127, 130, 0 >>],        \* blend
  Fs(Mk("SetNReg", 2, 1, 0), << F(1, 1) >>), Fs(Mk("SetNReg", 0, 0, 0), << Third >>),
  Fs(Mk("SetNReg", 0, 1, 0), << Big >>), Fs(Mk("SetNReg", 3, 0, 0), << F(-3, 0) >>), Fs(Mk("SetNReg", 0, 0, 0), << F(200, 0) >>),
  Fs(Mk("SetLOD", 0, 0, 0), << F(1, 0), PosInf >>),
  Fs(Mk("StartPath", 0, 0, 0), << F(1, 0), F(1, 7) >>), Fs(Mk("StartPath", 5, 0, 0), << Edge, NaN32 >>),
  Fs(Mk("AbsLineTo", 0, 0, 0), << F(1, 0), F(-64, 0) >>), Fs(Mk("RelLineTo", 0, 0, 0), << F(64, 0), Big >>),
  Fs(Mk("AbsHLineTo", 0, 0, 0), << F(3, 6) >>),
  Fs(Mk("RelSmoothQuadTo", 0, 0, 0), << F(1, 1), F(5, 7) >>),
  Fs(Mk("RelCubeTo", 0, 0, 0), << F(1, 0), F(2, 0), F(1, 1), F(2, 0), F(1, 0), Edge >>),
  [Fs(Mk("AbsArcTo", 0, 0, 0), << F(3, 0), F(5, 1), F(-1, 2), F(7, 0), F(-9, 6) >>) EXCEPT !.fl = << 1, 0 >>],
  [Fs(Mk("RelArcTo", 0, 0, 0), << F(3, 0), F(3, 0), Third, F(1, 0), F(1, 0) >>) EXCEPT !.fl = << 0, 1 >>],
  Fs(Mk("ClosePathAbsMoveTo", 0, 0, 0), << F(2, 0), F(1, 0) >>), Mk("ClosePathEndPath", 0, 0, 0) }

VARIABLES s, hist
vars == << s, hist >>

Init == s = EBZero /\ hist = << >>
Next == /\ Len(hist) < Depth
        /\ \E call \in Alphabet :
             /\ s.ctl.err = ""                             \* histories are explored up to their first error
             /\ s' = EBStep(s, call)
             /\ hist' = Append(hist, call)
Spec == Init /\ [][Next]_vars

LastReset == LET R == {i \in 1..Len(hist) : hist[i].op = "Reset"} IN
             IF R = {} THEN 0 ELSE CHOOSE i \in R : \A j \in R : j <= i

Decodes ==
  s.ctl.err = "" =>
    LET B == BytesOf(s) IN
    IF LastReset = 0 THEN
       \* never Reset: the stream opens with the default metadata, then the whole history
       LET r == Step(B, DInit, << >>) IN
       /\ r.out.k = "call" /\ r.out.call.op = "Reset"
       /\ r.out.call.f = DefaultViewBox /\ r.out.call.pal = DefaultPalette
       /\ Reproduces(B, r.st, hist, 1, EZero, 1)
    ELSE Reproduces(B, DInit, hist, 1, EZero, LastReset)

(* a long run: 17 smooth quads in one path come out as two opcodes (16 + 1), 3 H lines as three *)
RunCall == Fs(Mk("RelSmoothQuadTo", 0, 0, 0), << F(1, 1), F(5, 7) >>)
RECURSIVE Rep(_, _)
Rep(c, n) == IF n = 0 THEN << >> ELSE << c >> \o Rep(c, n - 1)
RECURSIVE Fold(_, _, _)
Fold(st, hs, i) == IF i > Len(hs) THEN st ELSE Fold(EBStep(st, hs[i]), hs, i + 1)
LongRun == << Fs(Mk("StartPath", 0, 0, 0), << F(1, 0), F(1, 0) >>) >> \o Rep(RunCall, 17)
           \o Rep(Fs(Mk("AbsHLineTo", 0, 0, 0), << F(3, 6) >>), 3) \o << Mk("ClosePathEndPath", 0, 0, 0) >>
ASSUME LET st == Fold(EBZero, LongRun, 1)  B == BytesOf(st) IN
       /\ Len(B) = 5 + 3 + (1 + 16 * 4) + (1 + 4) + 3 * 3 + 1
       /\ B[9] = 80 + 15 /\ B[74] = 80 + 0 /\ B[79] = 230 /\ B[88] = 225
       /\ LET r == Step(B, DInit, << >>) IN Reproduces(B, r.st, LongRun, 1, EZero, 1)

(* shortest exact forms, checked on every styling call of the alphabet through Numbers.tla / Colors.tla *)
Minimal ==
  \A c \in Alphabet :
     /\ (c.op = "SetLOD" => EncOK("real", c.f[1], EncReal(c.f[1])) /\ EncOK("real", c.f[2], EncReal(c.f[2])))
     /\ (c.op \in {"AbsLineTo", "RelLineTo", "AbsHLineTo"} =>
           \A i \in 1..Len(c.f) : EncOK("coordinate", Quant(TRUE, c.f[i]), EncCoord(Quant(TRUE, c.f[i]))))
     /\ (c.op = "SetCReg" =>
           LET form == ColorForm(c.c) IN
           /\ EncColorOK(c.c, 128 + 8 * form, ColorPayload(c.c, form))
           \* no shorter form holds it: every 1-byte code and every 2-byte payload is tried
           /\ (form >= 1 => \A x \in 0..255 : Dec1(x) # c.c)
           /\ (form >= 2 => \A x \in 0..255, y \in 0..255 : DecColor(1, << x, y >>, 1).c # c.c))
ASSUME Minimal
=============================================================================
