------------------------------- MODULE Numbers -------------------------------
(***************************************************************************)
(* IconVG FFV0 numbers (format document, section "Numbers"), bit exact.    *)
(*                                                                         *)
(* Decoding:  DecNatural / DecReal / DecCoord / DecZeroToOne (b, p) read   *)
(* at position p (1-based) of the byte sequence b and return               *)
(*    [n |-> number of bytes consumed (0 = cut short by the end of input), *)
(*     u |-> the natural (naturals only),  v |-> the float32 <<hi, lo>>]   *)
(* They never look past Len(b).                                            *)
(*                                                                         *)
(* Encoding is specified as *predicates on an observed encoding* (the      *)
(* format leaves the choice of form to the encoder; the library's contract *)
(* narrows it): Rep(kind, n, v), ShortestLen(kind, v), EncOK(kind, v, b),  *)
(* Quantize(v, d).                                                         *)
(***************************************************************************)
EXTENDS F32

DefaultViewBox == << << 49664, 0 >>, << 49664, 0 >>, << 16896, 0 >>, << 16896, 0 >> >>  \* -32 -32 32 32

Cut == [n |-> 0, u |-> 0, v |-> Zero]

DecNatural(b, p) ==
  IF p > Len(b) THEN Cut
  ELSE LET x == b[p] IN
    IF x % 2 = 0 THEN [n |-> 1, u |-> x \div 2, v |-> Zero]
    ELSE IF (x \div 2) % 2 = 0 THEN
      IF p + 1 > Len(b) THEN Cut
      ELSE [n |-> 2, u |-> (x \div 4) + 64 * b[p + 1], v |-> Zero]
    ELSE IF p + 3 > Len(b) THEN Cut
      ELSE [n |-> 4,
            u |-> (x \div 4) + 64 * b[p + 1] + 16384 * b[p + 2] + 4194304 * b[p + 3],
            v |-> Zero]

(* The float32 a 4-byte number denotes: the 32 bits with the low two cleared *)
Bits4(b, p) == << b[p + 3] * 256 + b[p + 2], b[p + 1] * 256 + (b[p] - (b[p] % 4)) >>

DecReal(b, p) ==
  LET r == DecNatural(b, p) IN
  IF r.n = 0 THEN Cut
  ELSE IF r.n = 4 THEN [n |-> 4, u |-> 0, v |-> Bits4(b, p)]
  ELSE [n |-> r.n, u |-> 0, v |-> OfScaled(r.u, 0)]

DecCoord(b, p) ==
  LET r == DecNatural(b, p) IN
  IF r.n = 0 THEN Cut
  ELSE IF r.n = 4 THEN [n |-> 4, u |-> 0, v |-> Bits4(b, p)]
  ELSE IF r.n = 1 THEN [n |-> 1, u |-> 0, v |-> OfScaled(r.u - 64, 0)]
  ELSE [n |-> 2, u |-> 0, v |-> OfScaled(r.u - 8192, 6)]

DecZeroToOne(b, p) ==
  LET r == DecNatural(b, p) IN
  IF r.n = 0 THEN Cut
  ELSE IF r.n = 4 THEN [n |-> 4, u |-> 0, v |-> Bits4(b, p)]
  ELSE IF r.n = 1 THEN [n |-> 1, u |-> 0, v |-> DivRN(r.u, 120)]
  ELSE [n |-> 2, u |-> 0, v |-> DivRN(r.u, 15120)]

Dec(kind, b, p) ==
  CASE kind = "natural"    -> DecNatural(b, p)
    [] kind = "real"       -> DecReal(b, p)
    [] kind = "coordinate" -> DecCoord(b, p)
    [] kind = "zeroToOne"  -> DecZeroToOne(b, p)

-----------------------------------------------------------------------------
(* Representability of a float32 v in the n-byte form of its kind.          *)
(* (Zero-to-one short forms are decided on the observed bytes instead:      *)
(* see EncOK.)  -0 is representable by the short form of 0 ("numerically    *)
(* equal").                                                                 *)
RepReal(n, v) ==
  LET a == AsScaled(v, 0) IN
  CASE n = 1 -> a.ok /\ a.k >= 0 /\ a.k < 128
    [] n = 2 -> a.ok /\ a.k >= 0 /\ a.k < 16384
    [] n = 4 -> Is30(v)

RepCoord(n, v) ==
  CASE n = 1 -> LET a == AsScaled(v, 0) IN a.ok /\ a.k >= -64 /\ a.k < 64
    [] n = 2 -> LET a == AsScaled(v, 6) IN a.ok /\ a.k >= -8192 /\ a.k < 8192
    [] n = 4 -> Is30(v)

ShortestLenReal(v)  == IF RepReal(1, v) THEN 1 ELSE IF RepReal(2, v) THEN 2 ELSE 4
ShortestLenCoord(v) == IF RepCoord(1, v) THEN 1 ELSE IF RepCoord(2, v) THEN 2 ELSE 4
ShortestLenNat(u)   == IF u < 128 THEN 1 ELSE IF u < 16384 THEN 2 ELSE 4

(***************************************************************************)
(* EncOK(kind, v, b): b (the whole sequence) is an acceptable encoding of  *)
(* the float32 v as a number of that kind, per the library's contract:     *)
(*  - b is exactly one complete number;                                    *)
(*  - it decodes to a numerically equal value, or -- only when v is not    *)
(*    representable in the form chosen -- to within the 30-bit tolerance;  *)
(*  - reals and coordinates use the shortest form that represents v        *)
(*    exactly (4 bytes when none does).                                    *)
(* For zero-to-one numbers a short form may be chosen for a value one      *)
(* rounding away from u/120 or u/15120 (the format has no exact test for   *)
(* them), so only the tolerance is required there.                         *)
(***************************************************************************)
ValueOK(kind, n, v, d) ==
  IF IsNaN(v) THEN ~IsFinite(d)
  ELSE \/ NumEq(d, v)
       \/ /\ Within4(d, v)
          /\ CASE kind = "real"       -> ~RepReal(n, v)
               [] kind = "coordinate" -> ~RepCoord(n, v)
               [] kind = "zeroToOne"  -> TRUE

EncOK(kind, v, b) ==
  LET r == Dec(kind, b, 1) IN
  /\ r.n = Len(b) /\ r.n > 0
  /\ ValueOK(kind, r.n, v, r.v)
  /\ CASE kind = "real"       -> r.n = ShortestLenReal(v)
       [] kind = "coordinate" -> r.n = ShortestLenCoord(v)
       [] kind = "zeroToOne"  -> TRUE

EncNatOK(u, b) ==
  LET r == DecNatural(b, 1) IN r.n = Len(b) /\ r.n > 0 /\ r.u = u /\ r.n = ShortestLenNat(u)

(***************************************************************************)
(* Low-resolution quantisation.  QuantOK(v, d): d is an acceptable result  *)
(* of quantising the coordinate v in [-128, 128) to "the nearest multiple  *)
(* of 1/64": d = k/64 with |64 v - k| <= 1/2 + 2^-10.  The slack is one    *)
(* float32 unit of the sum an implementation forms (64 v + 1/2); an        *)
(* implementation returning the exactly nearest multiple satisfies it too, *)
(* and at an exact tie either neighbour is accepted.                       *)
(***************************************************************************)
InLowResRange(v) == Ge(v, << 49920, 0 >>) /\ Lt(v, << 17152, 0 >>)   \* -128 <= v < 128
QuantOK(v, d) ==
  LET a == AsScaled(d, 6)
      F == FloorScaled(v, 17)              \* floor(64 v * 2^11), |.| < 2^24
      K == a.k * 2048
      B == 1024 + 2
  IN /\ a.ok /\ F.ok
     /\ F.k - K >= -B
     /\ (F.k - K < B \/ (F.k - K = B /\ F.exact))

(* Acceptable decoded value d for a path coordinate v written at the given  *)
(* resolution.                                                              *)
CoordMatch(hiRes, v, d) ==
  IF ~hiRes /\ InLowResRange(v) THEN QuantOK(v, d)
  ELSE IF IsNaN(v) THEN ~IsFinite(d)
  ELSE \/ NumEq(d, v)
       \/ (Within4(d, v) /\ ~RepCoord(1, v) /\ ~RepCoord(2, v))

RealMatch(v, d) ==
  IF IsNaN(v) THEN ~IsFinite(d)
  ELSE \/ NumEq(d, v)
       \/ (Within4(d, v) /\ ~RepReal(1, v) /\ ~RepReal(2, v))

(***************************************************************************)
(* Angles are written modulo one turn as zero-to-one numbers.              *)
(* AngleMatch(v, d): d is an acceptable decoded value for the angle v      *)
(* (in turns).  Decided in 2^-28 fixed point: d must be congruent to v     *)
(* modulo 1 within 4 units in the last place of d (plus the fixed-point    *)
(* grid).  Non-finite v must stay non-finite.  |v| >= 2^20 is not judged   *)
(* (no such angles are generated).                                         *)
(***************************************************************************)
Frac28(f) ==       \* floor(frac(f) * 2^28) for finite f, frac = f - floor(f)
  LET M == Sig(f)   x == Ex(f)   neg == Sign(f) = 1 IN
  IF M = 0 \/ x >= 0 THEN 0
  ELSE LET n == -x                        \* f = +-M / 2^n, 1 <= n
           R == IF n > 24 THEN M ELSE M % Pow2(n)            \* fractional numerator
           \* floor(R * 2^28 / 2^n)
           fl == IF n <= 28 THEN R * Pow2(28 - n)   \* R < 2^n so < 2^28
                 ELSE IF n - 28 > 30 THEN 0 ELSE R \div Pow2(n - 28)
           ex == IF n <= 28 THEN TRUE
                 ELSE IF n - 28 > 30 THEN FALSE ELSE R % Pow2(n - 28) = 0
       IN IF ~neg THEN fl
          ELSE IF R = 0 THEN 0
          ELSE IF ex THEN 268435456 - fl ELSE 268435456 - fl - 1

AngleMatch(v, d) ==
  IF ~IsFinite(v) THEN ~IsFinite(d)
  ELSE IF Sign(v) = 0 /\ Lt(v, One) THEN NumEq(d, v) \/ Within4(d, v)
  ELSE /\ IsFinite(d) /\ Le(Zero, d) /\ Le(d, One)
       /\ LET fv  == Frac28(v)
              fd  == IF d = One THEN 0 ELSE Frac28(d)
              ulp == IF Ex(d) + 28 >= 0 THEN Pow2(Ex(d) + 28) ELSE 1
              tol == 4 * ulp + 2
              df  == Abs(fv - fd)
          IN df <= tol \/ 268435456 - df <= tol
=============================================================================
