----------------------------- MODULE TV_Decoder -----------------------------
(***************************************************************************)
(* Trace validation of decode.Decode / DecodeViewBox / Disassemble against *)
(* the decoding machine Decoder.tla (properties C02, C03, C11, C13, C14).  *)
(*                                                                         *)
(* A trace file is a concatenation of traces.  Each trace:                 *)
(*   {ev:"src",  b:[bytes], opts:[...], cuts:[[ok,n,h]...]?}               *)
(*   {ev:"call", call:{...}, h:int, rz:[kinds]?, lines:[...]?}  per call   *)
(*   {ev:"end",  ok:0|1, errtype, panic, unchanged, vb..., dis..., ...}    *)
(* The machine consumes one line per step; the payload (input bytes) stays *)
(* in the trace and is referenced by line number, so the state is O(1).    *)
(* A mismatch prints one diagnostic, counts, and skips to the next trace.  *)
(***************************************************************************)
EXTENDS Decoder, TLC, Json, IOUtils

Trace == ndJsonDeserialize(IOEnv.VERIF_TRACE)

VARIABLES l,        \* next trace line
          srcLine,  \* line of the current trace's src event
          st,       \* decoder machine state
          nOut,     \* calls delivered so far in this trace
          h,        \* observed rolling hash after the last call
          skip,     \* rest of this trace is ignored (after a mismatch or a loose input)
          li,       \* listing lines consumed so far in this trace
          nbad, nloose
vars == << l, srcLine, st, nOut, h, skip, li, nbad, nloose >>

Has(r, f) == f \in DOMAIN r
B    == Trace[srcLine].b
Opts == IF Has(Trace[srcLine], "opts") THEN Trace[srcLine].opts ELSE << >>
Cuts == IF Has(Trace[srcLine], "cuts") THEN Trace[srcLine].cuts ELSE << >>
Lines == IF Has(Trace[srcLine], "lines") THEN Trace[srcLine].lines ELSE << >>

(* The rasteriser activity a delivered call may cause (C02: at most four    *)
(* curve segments per drawing operation; nothing for a disabled path).      *)
ShapeOK(op, rz) ==
  \/ rz = << >>
  \/ CASE op = "StartPath" -> rz = << "Reset", "MoveTo" >>
       [] op \in {"AbsLineTo", "RelLineTo", "AbsHLineTo", "RelHLineTo", "AbsVLineTo", "RelVLineTo"}
            -> rz = << "LineTo" >>
       [] op \in {"AbsSmoothQuadTo", "RelSmoothQuadTo", "AbsQuadTo", "RelQuadTo"} -> rz = << "QuadTo" >>
       [] op \in {"AbsSmoothCubeTo", "RelSmoothCubeTo", "AbsCubeTo", "RelCubeTo"} -> rz = << "CubeTo" >>
       [] op \in {"AbsArcTo", "RelArcTo"}
            -> rz = << "LineTo" >> \/ (Len(rz) <= 4 /\ \A i \in 1..Len(rz) : rz[i] = "CubeTo")
       [] op = "ClosePathEndPath" -> rz = << "ClosePath", "Draw" >>
       [] op \in {"ClosePathAbsMoveTo", "ClosePathRelMoveTo"} -> rz = << "ClosePath", "MoveTo" >>
       [] OTHER -> FALSE

(* Listing lines printed for one step (C11): the hex byte column of each line, *)
(* in order, must be the consecutive segments of the input the step consumed   *)
(* (an empty column for an "implicit" repetition line).                        *)
RECURSIVE LinesOK(_, _, _)
LinesOK(segs, i, p) ==
  IF i > Len(segs) THEN TRUE
  ELSE /\ li + i <= Len(Lines)
       /\ Lines[li + i].b = SubSeq(B, p, p + segs[i] - 1)
       /\ LinesOK(segs, i + 1, p + segs[i])

(* The numbers printed on the operand lines of a step (re-parsed to float32   *)
(* bits by the harness) are the float operands of the delivered call, in order *)
RECURSIVE Nums(_, _)
Nums(i, n) == IF i > n THEN << >>
              ELSE (IF li + i <= Len(Lines) /\ Lines[li + i].num # << >> THEN << Lines[li + i].num >> ELSE << >>)
                   \o Nums(i + 1, n)
ValsOK(segs, call) ==
  LET vals == Nums(2, Len(segs)) IN       \* line 1 of a step is the opcode line
  /\ Len(vals) = Len(call.f)
  /\ \A i \in 1..Len(vals) : Same(vals[i], call.f[i]) \/ NumEq(vals[i], call.f[i])

(* Colour texts, selector / ADJ / repeat-count integers and arc flags printed  *)
(* for a step are those of the delivered call.                                 *)
ExpCol1(c) ==
  IF c[1] = 0 THEN
    LET q == RGBAOf(c) IN
    IF ValidPremul(q) THEN [k |-> "rgba", v |-> q]
    ELSE IF IsGradient(q)
      THEN [k |-> "gradient", v |-> << GradNStops(q), GradCBase(q), GradNBase(q), GradShape(q), GradSpread(q) >>]
    ELSE [k |-> "nonsense", v |-> << >>]
  ELSE IF c[1] = 1 THEN [k |-> "pal", v |-> << c[2] >>]
  ELSE [k |-> "creg", v |-> << c[2] >>]
Col1OK(o, c) == LET e == ExpCol1(c) IN o.k = e.k /\ o.v = e.v
ColOK(o, c) ==
  IF c[1] = 3 THEN /\ o.k = "blend" /\ o.v = << 255 - c[2], c[2] >>
                   /\ Has(o, "c0") /\ Has(o, "c1")
                   /\ Col1OK(o.c0, Dec1(c[3])) /\ Col1OK(o.c1, Dec1(c[4]))
  ELSE Col1OK(o, c)

LineCol(i) == IF li + i <= Len(Lines) /\ Has(Lines[li + i], "col") THEN Lines[li + i].col
              ELSE [k |-> "none", v |-> << >>]

OpTextOK(stBefore, call) ==
  LET ln  == Lines[li + 1]
      opb == B[stBefore.pos] IN
  CASE call.op \in {"SetCSel", "SetNSel"} -> ln.ints = << call.sel >>
    [] call.op = "SetCReg" -> /\ ln.ints = << call.adj, FormLen(CRegForm(opb)) >> /\ ln.pp = call.incr
                              /\ ColOK(LineCol(2), call.c)
    [] call.op = "SetNReg" -> ln.ints = << call.adj >> /\ ln.pp = call.incr
    [] call.op = "StartPath" -> ln.ints = << call.adj >>
    [] call.op \in {"AbsArcTo", "RelArcTo"} ->
         /\ ln.ints = (IF stBefore.reps = 0 THEN << RepOp(opb).rc >> ELSE << >>)
         /\ LineCol(5).k = "flags" /\ LineCol(5).v = call.fl
    [] stBefore.mode = "drawing" /\ stBefore.reps = 0 /\ opb < 224 -> ln.ints = << RepOp(opb).rc >>
    [] OTHER -> ln.ints = << >>

(* the colours listed in the metadata section are the explicit entries of the  *)
(* palette that Reset delivers (sanitised)                                     *)
RECURSIVE MetaCols(_, _)
MetaCols(i, n) == IF i > n THEN << >>
                  ELSE (IF Has(Lines[li + i], "col") THEN << Lines[li + i].col >> ELSE << >>) \o MetaCols(i + 1, n)
MetaColsOK(segs, call) ==
  Opts # << >> \/
  LET cs == MetaCols(1, Len(segs)) IN
  \A i \in 1..Len(cs) : i <= 64 /\ cs[i].k = "rgba" /\ cs[i].v = call.pal[i]

(* cut points strictly inside a step [p0, p1): error, calls so far *)
CutsInside(p0, p1) ==
  Cuts = << >> \/
  \A t \in (IF p0 = 1 THEN 0 ELSE p0) .. Min2(p1 - 2, Len(Cuts) - 1) :
      Cuts[t + 1] = << 0, nOut, h >>
(* cut point at the boundary after a step ending at p1 - 1 *)
CutAtBoundary(p1, reps, hAfter) ==
  Cuts = << >> \/ p1 - 1 > Len(Cuts) - 1 \/ p1 - 1 < 0 \/
  Cuts[p1] = << IF reps = 0 THEN 1 ELSE 0, nOut + 1, hAfter >>

Diag(what, want) ==
  PrintT(ToJson([diag |-> what, line |-> l, src |-> srcLine, ev |-> Trace[l], want |-> want,
                 id |-> IF Has(Trace[srcLine], "id") THEN Trace[srcLine].id ELSE ""]))

Bad(what, want) ==
  /\ Diag(what, want)
  /\ nbad' = nbad + 1 /\ skip' = TRUE
  /\ UNCHANGED << srcLine, st, nOut, h, li, nloose >>

Init == l = 1 /\ srcLine = 0 /\ st = DInit /\ nOut = 0 /\ h = 0 /\ skip = FALSE /\ li = 0
        /\ nbad = 0 /\ nloose = 0

TVSrc ==
  /\ Trace[l].ev = "src"
  /\ srcLine' = l /\ st' = DInit /\ nOut' = 0 /\ h' = 0 /\ skip' = FALSE /\ li' = 0
  /\ UNCHANGED << nbad, nloose >>

TVSkip ==
  /\ Trace[l].ev # "src" /\ skip
  /\ UNCHANGED << srcLine, st, nOut, h, skip, li, nbad, nloose >>

TVCall ==
  /\ Trace[l].ev = "call" /\ ~skip
  /\ LET ev == Trace[l]
         r  == Step(B, st, Opts) IN
     IF r.out.k # "call" THEN Bad("unexpected call", r.out)
     ELSE IF r.st.loose THEN
        /\ skip' = TRUE /\ nloose' = nloose + 1
        /\ UNCHANGED << srcLine, st, nOut, h, li, nbad >>
     ELSE IF ~CallEq(r.out.call, ev.call) THEN Bad("call differs", r.out.call)
     ELSE IF r.st.pos <= st.pos THEN Bad("no progress", r.st)
     ELSE IF Has(ev, "rz") /\ ~ShapeOK(ev.call.op, ev.rz) THEN Bad("rasteriser shape", ev.call.op)
     ELSE IF Lines # << >> /\ ~LinesOK(r.segs, 1, st.pos) THEN Bad("listing bytes", << li, r.segs >>)
     ELSE IF Lines # << >> /\ r.out.call.op # "Reset" /\ ~ValsOK(r.segs, r.out.call) THEN Bad("listing values", << li, r.out.call >>)
     ELSE IF Lines # << >> /\ r.out.call.op # "Reset" /\ ~OpTextOK(st, r.out.call) THEN Bad("listing text", << li, r.out.call >>)
     ELSE IF Lines # << >> /\ r.out.call.op = "Reset" /\ ~MetaColsOK(r.segs, r.out.call) THEN Bad("listing text", << li, "palette" >>)
     ELSE IF ~CutsInside(st.pos, r.st.pos) THEN Bad("prefix (inside instruction)", << st.pos, r.st.pos, nOut, h >>)
     ELSE IF ~CutAtBoundary(r.st.pos, r.st.reps, ev.h) THEN Bad("prefix (at boundary)", << r.st.pos, nOut + 1, ev.h >>)
     ELSE /\ st' = r.st /\ nOut' = nOut + 1 /\ h' = ev.h
          /\ li' = IF Lines # << >> THEN li + Len(r.segs) ELSE li
          /\ UNCHANGED << srcLine, skip, nbad, nloose >>

(* every observation attached to the end of a run *)
EndOK(ev, specOK, metaOK) ==
  /\ ev.ok = (IF specOK THEN 1 ELSE 0)
  /\ ev.panic = 0 /\ ev.unchanged = 1
  /\ (ev.ok = 0 => ev.errtype = "DecodeError")
  /\ ev.ncalls = nOut
  \* the other entry points agree (fields present only when the driver ran them)
  /\ (Has(ev, "vbok")  => ev.vbok  = (IF metaOK THEN 1 ELSE 0))
  /\ (Has(ev, "vb") /\ metaOK => \A i \in 1..4 : Same(ev.vb[i], ParseMeta(B).m.vb[i]))
  /\ (Has(ev, "disok") => ev.disok = ev.ok /\ ev.diserr = ev.err)
  /\ (Has(ev, "encok") => ev.encok = ev.ok)
  /\ (Has(ev, "nildst") => ev.nildst = ev.ok)
  /\ (Has(ev, "logdst") => ev.logdst = ev.ok)          \* a DestinationLogger with no destination behind it
  \* a Renderer drawing through a real raster/vec.Rasterizer (a panic on that route is judged on its own, below)
  /\ (Has(ev, "vecdst") /\ ev.vecpanic = "" => ev.vecdst = ev.ok)

TVEnd ==
  /\ Trace[l].ev = "end" /\ ~skip
  /\ LET ev == Trace[l]
         r  == Step(B, st, Opts)
         m  == ParseMeta(B) IN
     IF r.out.k = "call" THEN Bad("missing call", r.out.call)
     ELSE IF st.mode = "start" /\ m.ok /\ ~StrictOrder(m.m.seen) THEN
        /\ skip' = TRUE /\ nloose' = nloose + 1
        /\ UNCHANGED << srcLine, st, nOut, h, li, nbad >>
     ELSE IF ~EndOK(ev, r.out.k = "end", m.ok) THEN Bad("outcome differs", << r.out, m.ok >>)
     ELSE IF Has(ev, "vecpanic") /\ ev.vecpanic # "" THEN Bad("panic while rendering through raster/vec", ev.vecpanic)
     ELSE IF r.out.k = "err" /\ ~CutsInside(st.pos, Len(B) + 2) THEN Bad("prefix (after error)", << st.pos, nOut, h >>)
     ELSE IF r.out.k = "end" /\ Lines # << >> /\ li # Len(Lines) THEN Bad("listing has extra lines", << li, Len(Lines) >>)
     ELSE /\ st' = r.st
          /\ UNCHANGED << srcLine, nOut, h, skip, li, nbad, nloose >>

Next ==
  /\ l <= Len(Trace)
  /\ l' = l + 1
  /\ (TVSrc \/ TVSkip \/ TVCall \/ TVEnd)

Spec == Init /\ [][Next]_vars

(* Printed once at the end: counters for the orchestrator *)
Done == l = Len(Trace) + 1
Report == Done => PrintT(ToJson([diag |-> "summary", lines |-> Len(Trace), nbad |-> nbad,
                                 nloose |-> nloose]))
Consumed == TLCGet("stats").diameter = Len(Trace) + 1
=============================================================================
