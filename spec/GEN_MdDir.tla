------------------------------ MODULE GEN_MdDir ------------------------------
(***************************************************************************)
(* Case generation for the converter's directory pipeline: one tree per    *)
(* case number (contents derived arithmetically from the number, so the    *)
(* same seed gives the same trees), printed with what mdicons.Parse must   *)
(* write: the declarations in order with the identity of the file each was *)
(* converted from, the variable list of data_test.go, the statistics and   *)
(* the failure lines.  The replayer builds the tree on disk, runs          *)
(* mdicons.Parse and compares data.go / data_test.go with the expectation. *)
(***************************************************************************)
EXTENDS MdDir, Json, IOUtils

CONSTANTS NCases
Seed == IF "VERIF_SEED" \in DOMAIN IOEnv THEN atoi(IOEnv.VERIF_SEED) % 1000 ELSE 1

(* base-name pool in bytewise order (re-checked by the replayer with sort.Strings) *)
Bases == <<
  << Tok("3", "d"), Tok("r", "otation") >>,
  << Tok("4", "k") >>,
  << Tok("Z", "ed") >>,
  << Tok("a", "") >>,
  << Tok("a", ""), Tok("b", "") >>,
  << Tok("a", "b") >>,
  << Tok("l", "ocal"), Tok("a", "tm") >>,
  << Tok("p", "lay"), Tok("c", "ircle"), Tok("f", "illed"), Tok("w", "hite") >>,
  << Tok("s", "ignal"), Tok("w", "ifi"), Tok("4", ""), Tok("b", "ar") >>,
  << Tok("t", "v") >> >>
ASSUME BaseName(Bases[8]) = "play_circle_filled_white"

(* top-level names in bytewise order: '.' < 'R' < 'a' ... *)
TopNames == << Tok(".", "hidden"), Tok("R", "EADME"), Tok("a", "v"), Tok("e", "mpty"), Tok("m", "aps"), Tok("w", "ifi") >>

H(c, i) == ((c * 7919) + (i * 104729) + ((c \div 7) * 31) + (Seed * 613)) % 1000003
Pow2k(k) == CASE k = 0 -> 1 [] k = 1 -> 2 [] k = 2 -> 4 [] k = 3 -> 8 [] k = 4 -> 16 [] k = 5 -> 32 [] k = 6 -> 64
Bit(x, k) == (x \div Pow2k(k)) % 2

Sufs == << "_12px.svg", "_18px.svg", "_24px.svg", "_36px.svg", "_48px.svg" >>

(* entries of category number t (position in TopNames) for case c *)
EntriesOf(c, t) ==
  UNION { LET h == H(c, 20 * t + b)
              g == H(c + 3, 500 + 20 * t + b) IN
          { [pre |-> "ic_", base |-> Bases[b], suf |-> Sufs[k], len |-> 260 + ((h + 13 * k) % 90),
             bad |-> ((g + k) % 9 = 0), id |-> 1000 * t + 10 * b + k] : k \in {k \in 1..5 : Bit(h, k - 1) = 1 /\ g % 3 # 0} }
          \cup (IF Bit(h, 5) = 1 THEN {[pre |-> "ic_", base |-> Bases[b], suf |-> "_20px.svg", len |-> 300, bad |-> FALSE, id |-> 1000 * t + 10 * b + 6]} ELSE {})
          \cup (IF Bit(h, 6) = 1 THEN {[pre |-> "im_", base |-> Bases[b], suf |-> "_48px.svg", len |-> 300, bad |-> FALSE, id |-> 1000 * t + 10 * b + 7]} ELSE {})
        : b \in 1..Len(Bases) }

PngsOf(c, t) ==
  UNION { LET h == H(c + 1, 900 + 20 * t + b) IN
          { [base |-> Bases[b], dp |-> dp, len |-> 100 + ((h + dp) % 400)]
              : dp \in {d \in {18, 24, 36, 48} : Bit(h, CASE d = 18 -> 0 [] d = 24 -> 1 [] d = 36 -> 2 [] d = 48 -> 3) = 1} }
        : b \in 1..Len(Bases) }

Tops(c) == [t \in 1..Len(TopNames) |->
  [name |-> TopNames[t],
   isDir |-> Str(TopNames[t]) # "README",
   hasSvg |-> Str(TopNames[t]) # "empty",
   entries |-> IF Str(TopNames[t]) \in {"README", "empty"} THEN {} ELSE EntriesOf(c, t),
   pngs |-> IF Str(TopNames[t]) \in {"README", "empty"} THEN {} ELSE PngsOf(c, t)]]

SetToSeq(S) == LET RECURSIVE f(_) f(X) == IF X = {} THEN << >> ELSE LET x == CHOOSE x \in X : TRUE IN << x >> \o f(X \ {x}) IN f(S)

CaseJson(c) ==
  LET tops == Tops(c)
      exp  == ParseFrom(tops, Bases, 1) IN
  [diag |-> "mddir", id |-> c,
   bases |-> [b \in 1..Len(Bases) |-> BaseName(Bases[b])],
   tops |-> [t \in 1..Len(tops) |->
     [name |-> Str(tops[t].name), isDir |-> tops[t].isDir, hasSvg |-> tops[t].hasSvg,
      files |-> SetToSeq({[name |-> EName(e), base |-> BaseName(e.base), size |-> SizeOf(e.suf), len |-> e.len, bad |-> e.bad, id |-> e.id] : e \in tops[t].entries}),
      pngs |-> SetToSeq({[name |-> PngName(p.base, p.dp), len |-> p.len] : p \in tops[t].pngs})]],
   expect |-> exp]

VARIABLES c, phase
vars == << c, phase >>
Init == c = 0 /\ phase = "root"
Next == \/ phase = "root" /\ c' \in 1..NCases /\ phase' = "case"
        \/ phase = "case" /\ UNCHANGED vars
Spec == Init /\ [][Next]_vars

(* design-level invariants evaluated on every generated case *)
Exp == ParseFrom(Tops(c), Bases, 1)
Shape ==
  phase = "case" =>
    /\ Exp.files = Len(Exp.vars)
    /\ Len(Exp.decls) >= Len(Exp.vars)
    /\ Len(Exp.fails) <= 2 * Exp.files
    /\ \A i \in 1..Len(Exp.decls) : Exp.decls[i].id = -1 \/ Exp.decls[i].id > 0
Emit == phase = "case" => PrintT(ToJson(CaseJson(c)))
=============================================================================
