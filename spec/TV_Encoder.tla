----------------------------- MODULE TV_Encoder -----------------------------
(***************************************************************************)
(* Trace validation of encode.Encoder's control state (C10, C17, C07):     *)
(* every public call of a recorded history is taken as the corresponding   *)
(* action of Encoder.tla and of the Protocol automaton, and the state the  *)
(* real Encoder projects (verif-tagged VerifState hook, read after the     *)
(* call returned) must equal the model's.                                  *)
(*   {ev:"start", id, cmp:[fields]}                                        *)
(*   {ev:"call", call:{...}, proj:{mode,err,cSel,nSel,hiResL,drawOp,nPend,lod}, *)
(*               ret:[..]?}   ret: value returned by CSel/NSel/LOD/Bytes   *)
(***************************************************************************)
EXTENDS Encoder, TLC, Json, IOUtils, SequencesExt

Trace == ndJsonDeserialize(IOEnv.VERIF_TRACE)

VARIABLES l, startLine, e, p, skip, nbad
vars == << l, startLine, e, p, skip, nbad >>

Cmp == ToSet(Trace[startLine].cmp)

ProjOK(o, m, pr) ==
  /\ ("err" \in Cmp => /\ (o.err # "") <=> (pr.s = "failed")
                       /\ (o.err # "" => o.err \in pr.why))
  /\ (o.err = "" /\ m.err = "" =>
        /\ ("mode" \in Cmp => o.mode = Proj(m).mode /\ o.mode = pr.s)
        /\ ("sel"  \in Cmp => o.cSel % 64 = m.cSel /\ o.nSel % 64 = m.nSel)
        /\ ("run"  \in Cmp => o.drawOp = m.drawOp /\ o.nPend = m.nPend /\ o.hiResL = m.hiResL)
        \* the raw LOD fields of a zero-value Encoder are not observable before the lazy default
        \* metadata is applied (the public LOD() applies it first): compared only afterwards
        /\ ("lod"  \in Cmp /\ o.init = 0 => Same(o.lod[1], m.lod[1]) /\ Same(o.lod[2], m.lod[2])))

(* values returned by read-backs *)
RetOK(call, ret, m, pr) ==
  CASE call.op = "CSel" /\ "sel" \in Cmp -> m.err # "" \/ ret[1] % 64 = m.cSel
    [] call.op = "NSel" /\ "sel" \in Cmp -> m.err # "" \/ ret[1] % 64 = m.nSel
    [] call.op = "Bytes" /\ "err" \in Cmp -> (ret[1] = 1) <=> (pr.s # "failed")
    [] OTHER -> TRUE

Init == l = 1 /\ startLine = 0 /\ e = EZero /\ p = PInit /\ skip = FALSE /\ nbad = 0

TVStart ==
  /\ Trace[l].ev = "start"
  /\ startLine' = l /\ e' = EZero /\ p' = PInit /\ skip' = FALSE /\ UNCHANGED nbad

TVSkip == Trace[l].ev # "start" /\ skip /\ UNCHANGED << startLine, e, p, skip, nbad >>

TVCall ==
  /\ Trace[l].ev = "call" /\ ~skip
  /\ LET ev == Trace[l]
         m  == EStep(e, ev.call)
         pr == PStep(p, ClassOf(ev.call)) IN
     IF ProjOK(ev.proj, m, pr) /\ RetOK(ev.call, ev.ret, m, pr)
       THEN e' = m /\ p' = pr /\ UNCHANGED << startLine, skip, nbad >>
       ELSE /\ PrintT(ToJson([diag |-> "projection differs", line |-> l, id |-> Trace[startLine].id,
                              ev |-> ev, want |-> Proj(m), ps |-> pr]))
            /\ nbad' = nbad + 1 /\ skip' = TRUE /\ UNCHANGED << startLine, e, p >>

Next == l <= Len(Trace) /\ l' = l + 1 /\ (TVStart \/ TVSkip \/ TVCall)
Spec == Init /\ [][Next]_vars
Done == l = Len(Trace) + 1
Report == Done => PrintT(ToJson([diag |-> "summary", lines |-> Len(Trace), nbad |-> nbad]))
Consumed == TLCGet("stats").diameter = Len(Trace) + 1
=============================================================================
