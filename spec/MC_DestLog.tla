----------------------------- MODULE MC_DestLog -----------------------------
(***************************************************************************)
(* TLC check of DestLog.tla as a machine: a logger in one of its four      *)
(* configurations (style x wrapping something or not) receives every call  *)
(* sequence of the bound over an alphabet with every operation and the     *)
(* numbers where formatting is delicate.                                   *)
(*   Lockstep    one line per call, in call order; the wrapped object has  *)
(*               received exactly the calls, in order (or nothing when     *)
(*               nothing is wrapped)                                       *)
(*   Faithful    (ASSUME, all pairs of the alphabet) two calls print the   *)
(*               same line only if they are the same call up to the two-   *)
(*               decimal rounding of their numbers: no operation, flag,    *)
(*               register, selector or colour is lost or confused          *)
(*   StylesAgree (ASSUME) both styles print the same argument texts        *)
(*   Golden      (ASSUME) number texts observed from Go's fmt              *)
(***************************************************************************)
EXTENDS DestLog

CONSTANT MaxLen

F(h, l) == << h, l >>
Nums == << F(15872, 0), F(16064, 0), F(47747, 4719), F(32768, 0), F(16254, 47186), F(32609, 45542), F(32640, 0), F(65408, 0), F(32704, 0), F(0, 1), F(16256, 0), F(49664, 0) >>
Pal2 == [i \in 1..64 |-> IF i = 2 THEN << 1, 32, 255, 128 >> ELSE << 0, 0, 0, 255 >>]
Base == [op |-> "", adj |-> 0, incr |-> 0, f |-> << >>, c |-> << >>, fl |-> << >>, sel |-> 0]
Mk(op, fs) == [Base EXCEPT !.op = op, !.f = fs]
NF(op) == IF op \in {"AbsArcTo", "RelArcTo"} THEN 5 ELSE Len(FNames(op))

Plain == {Mk(op, [i \in 1..NF(op) |-> Nums[((i + k) % Len(Nums)) + 1]]) : op \in Ops \ {"Reset", "SetCSel", "SetNSel", "SetCReg", "SetNReg", "StartPath", "AbsArcTo", "RelArcTo"}, k \in {0, 5}}
Arcs  == {[Mk(op, [i \in 1..5 |-> Nums[i + k]]) EXCEPT !.fl = fl] : op \in {"AbsArcTo", "RelArcTo"}, k \in {0, 6}, fl \in {<< 0, 1 >>, << 1, 0 >>, << 1, 1 >>}}
Regs  == {[Mk("SetNReg", << Nums[k] >>) EXCEPT !.adj = a, !.incr = n] : k \in {1, 2, 3}, a \in {0, 6}, n \in {0, 1}}
         \cup {[Mk("SetCReg", << >>) EXCEPT !.adj = a, !.incr = n, !.c = c] : a \in {0, 6}, n \in {0, 1}, c \in {<< 0, 1, 2, 3, 4 >>, << 3, 10, 127, 128, 0 >>, << 1, 3, 0, 0, 0 >>}}
         \cup {[Mk("StartPath", << Nums[k], Nums[k + 1] >>) EXCEPT !.adj = a] : k \in {1, 4}, a \in {0, 1, 6}}
Sels  == {[Mk(op, << >>) EXCEPT !.sel = s] : op \in {"SetCSel", "SetNSel"}, s \in {0, 7, 63, 255}}
Resets == {[op |-> "Reset", adj |-> 0, incr |-> 0, f |-> << Nums[12], Nums[12], F(16898, 0), F(16960, 0) >>, c |-> << >>, fl |-> << >>, sel |-> 0, pal |-> Pal2],
           [op |-> "Reset", adj |-> 0, incr |-> 0, f |-> << Nums[4], Nums[9], F(18804, 9200), Nums[8] >>, c |-> << >>, fl |-> << >>, sel |-> 0, pal |-> [i \in 1..64 |-> << 0, 0, 0, 255 >>]]}
Alphabet == Plain \cup Arcs \cup Regs \cup Sels \cup Resets

VARIABLES alt, wrapped, hist, st
vars == << alt, wrapped, hist, st >>
Init == alt \in BOOLEAN /\ wrapped \in BOOLEAN /\ hist = << >> /\ st = LZero
Log(c) == /\ Len(hist) < MaxLen
          /\ hist' = Append(hist, c)
          /\ st' = LogStep(st, alt, wrapped, c)
          /\ UNCHANGED << alt, wrapped >>
Next == \E c \in Alphabet : Log(c)
Spec == Init /\ [][Next]_vars

Lockstep == /\ Len(st.out) = Len(hist)
            /\ \A i \in 1..Len(hist) : st.out[i] = Line(alt, hist[i])
            /\ st.fwd = (IF wrapped THEN hist ELSE << >>)
            /\ st = LogRun(LZero, alt, wrapped, hist)
Grows == [][/\ Len(st'.out) = Len(st.out) + 1
            /\ SubSeq(st'.out, 1, Len(st.out)) = st.out
            /\ (wrapped => SubSeq(st'.fwd, 1, Len(st.fwd)) = st.fwd)]_vars

SameText(a, b) == /\ a.op = b.op /\ a.adj = b.adj /\ a.incr = b.incr /\ a.c = b.c /\ a.fl = b.fl /\ a.sel = b.sel
                  /\ Len(a.f) = Len(b.f)
                  /\ IF a.op = "Reset" THEN a.pal = b.pal /\ \A i \in 1..4 : FmtG(a.f[i]) = FmtG(b.f[i])
                     ELSE \A i \in 1..Len(a.f) : Fmt2(a.f[i]) = Fmt2(b.f[i])
ASSUME Faithful == \A a, b \in Alphabet : \A s \in BOOLEAN : Line(s, a) = Line(s, b) => SameText(a, b)
ASSUME StylesAgree == \A a \in Alphabet : Line(TRUE, a) = "dst." \o a.op \o "(" \o Join([i \in 1..Len(Args(a)) |-> Args(a)[i][2]]) \o ")"
ASSUME AllOps == {a.op : a \in Alphabet} = Ops /\ \A a \in Alphabet : InModel(a)

ASSUME Golden ==
  /\ Fmt2(F(15872, 0)) = "0.12" /\ Fmt2(F(16064, 0)) = "0.38" /\ Fmt2(F(16160, 0)) = "0.62"
  /\ Fmt2(F(47747, 4719)) = "-0.00" /\ Fmt2(F(32768, 0)) = "-0.00" /\ Fmt2(F(0, 0)) = "0.00"
  /\ Fmt2(F(32609, 45542)) = "300000000549775575777803994281145270272.00"
  /\ Fmt2(F(15477, 49807)) = "0.01" /\ Fmt2(F(0, 1)) = "0.00" /\ Fmt2(F(16416, 0)) = "2.50"
  /\ Fmt2(F(16254, 47186)) = "1.00" /\ Fmt2(F(16671, 64487)) = "10.00" /\ Fmt2(F(17095, 64881)) = "100.00"
  /\ Fmt2(F(16256, 41943)) = "1.00" /\ Fmt2(F(19328, 0)) = "16777216.00" /\ Fmt2(F(19456, 0)) = "33554432.00"
  /\ Fmt2(F(18417, 8192)) = "123456.00" /\ Fmt2(F(49664, 0)) = "-32.00" /\ Fmt2(F(16898, 0)) = "32.50"
  /\ Fmt2(F(32640, 0)) = "+Inf" /\ Fmt2(F(65408, 0)) = "-Inf" /\ Fmt2(F(32704, 0)) = "NaN"
  /\ FmtG(F(49664, 0)) = "-32" /\ FmtG(F(16898, 0)) = "32.5" /\ FmtG(F(16000, 0)) = "0.25" /\ FmtG(F(48960, 0)) = "-0.75"
  /\ FmtG(F(18804, 9200)) = "999999" /\ FmtG(F(32768, 0)) = "-0" /\ FmtG(F(0, 0)) = "0" /\ FmtG(F(32640, 0)) = "+Inf"
  /\ ~InG(F(18804, 9216)) /\ ~InG(F(15477, 49807)) /\ InG(F(32704, 0))       \* 10^6 prints as 1e+06
  /\ Hex(0) = "0x0" /\ Hex(10) = "0xa" /\ Hex(32) = "0x20" /\ Hex(255) = "0xff"
  /\ Line(FALSE, [Base EXCEPT !.op = "StartPath", !.adj = 6, !.f = << F(16256, 0), F(49664, 0) >>]) = "StartPath(adj:6, x:1.00, y:-32.00)"
  /\ Line(TRUE, [Base EXCEPT !.op = "AbsArcTo", !.fl = << 0, 1 >>, !.f = << F(16256, 0), F(16384, 0), F(15872, 0), F(16448, 0), F(16128, 0) >>]) = "dst.AbsArcTo(1.00, 2.00, 0.12, false, true, 3.00, 0.50)"
  /\ Line(FALSE, [Base EXCEPT !.op = "SetCReg", !.adj = 1, !.incr = 1, !.c = << 3, 10, 127, 128, 0 >>]) = "SetCReg(adj:1, incr:true, c:ivg.Color{typ:0x3, data:color.RGBA{R:0xa, G:0x7f, B:0x80, A:0x0}})"
  /\ RLine([op |-> "Draw", f |-> << >>, i |-> << 0, -1, 32, 48, 3, -4 >>]) = "raster.Draw(r: image.Rectangle{Min:image.Point{X:0, Y:-1}, Max:image.Point{X:32, Y:48}}, src: <img>, sp: image.Point{X:3, Y:-4})"
  /\ RLine([op |-> "QuadTo", f |-> << F(16256, 0), F(16384, 0), F(15872, 0), F(16448, 0) >>, i |-> << >>]) = "raster.QuadTo(bx:1.00, by:2.00, cx:0.12, cy:3.00)"
=============================================================================
