-------------------------------- MODULE Big --------------------------------
(***************************************************************************)
(* Natural numbers beyond TLC's 32-bit integers, as little-endian          *)
(* sequences of base-4096 limbs (<< >> = 0; no leading zero limb).  Only   *)
(* what the tolerance judgements of the trace specifications need:         *)
(* multiplication by a small number, shifts, comparison, difference.       *)
(***************************************************************************)
EXTENDS Integers, Sequences, F32

BB == 4096
RECURSIVE BNorm(_)
BNorm(a) == IF a # << >> /\ a[Len(a)] = 0 THEN BNorm(SubSeq(a, 1, Len(a) - 1)) ELSE a

(* a * n + c for 0 <= n < 2^18, 0 <= c < 2^30 *)
RECURSIVE BMulAdd(_, _, _)
BMulAdd(a, n, c) ==
  IF a = << >> THEN (IF c = 0 THEN << >> ELSE << c % BB >> \o BMulAdd(<< >>, n, c \div BB))
  ELSE LET t == (a[1] * n) + c IN << t % BB >> \o BMulAdd(Tail(a), n, t \div BB)
BMul(a, n) == BNorm(BMulAdd(a, n, 0))
BOf(n) == BMulAdd(<< >>, 1, n)                      \* 0 <= n < 2^30

BShl(a, bits) == IF a = << >> THEN << >>
                 ELSE [i \in 1..(bits \div 12) |-> 0] \o BMul(a, Pow2(bits % 12))

RECURSIVE BRem(_, _, _)
BRem(a, n, i) == IF i > Len(a) THEN 0 ELSE ((BRem(a, n, i + 1) * BB) + a[i]) % n
BDiv(a, n) == BNorm([i \in 1..Len(a) |-> ((BRem(a, n, i + 1) * BB) + a[i]) \div n])      \* 1 <= n <= 4096
BShr(a, bits) == LET k == bits \div 12 IN
                 IF k >= Len(a) THEN << >> ELSE BDiv(SubSeq(a, k + 1, Len(a)), Pow2(bits % 12))

RECURSIVE BCmpAt(_, _, _)
BCmpAt(a, b, i) == IF i = 0 THEN 0 ELSE IF a[i] # b[i] THEN (IF a[i] > b[i] THEN 1 ELSE -1) ELSE BCmpAt(a, b, i - 1)
BCmp(a, b) == IF Len(a) # Len(b) THEN (IF Len(a) > Len(b) THEN 1 ELSE -1) ELSE BCmpAt(a, b, Len(a))

RECURSIVE BSubR(_, _, _)
BSubR(a, b, br) ==
  IF a = << >> THEN << >>
  ELSE LET t == (a[1] - (IF b = << >> THEN 0 ELSE b[1])) - br
           bt == IF b = << >> THEN << >> ELSE Tail(b) IN
       IF t < 0 THEN << t + BB >> \o BSubR(Tail(a), bt, 1) ELSE << t >> \o BSubR(Tail(a), bt, 0)
BAbsDiff(a, b) == IF BCmp(a, b) >= 0 THEN BNorm(BSubR(a, b, 0)) ELSE BNorm(BSubR(b, a, 0))

(***************************************************************************)
(* A float64 reported exactly as m = << sign, e, l0, l1, l2, l3, l4 >>     *)
(* (value = (-1)^sign * (sum l_i 4096^i) * 2^e) against the rational       *)
(* (ka * 2^-16) * D / N :   | m * N - a * D |  <=  2^-40 * | a * D |.      *)
(* Dyadic(N, D): N / D is a binary fraction of few bits (a float32).       *)
(***************************************************************************)
Dyadic(N, D) == \E k \in 0..12 : (N * Pow2(k)) % D = 0
LinNear(m, ka, N, D) ==
  IF ka = 0 THEN m[3] = 0 /\ m[4] = 0 /\ m[5] = 0 /\ m[6] = 0 /\ m[7] = 0
  ELSE /\ m[1] = (IF ka < 0 THEN 1 ELSE 0)
       /\ m[2] < -16 /\ m[2] > -200
       /\ LET L == BMul(BNorm(<< m[3], m[4], m[5], m[6], m[7] >>), N)
              R == BShl(BMul(BOf(Abs(ka)), D), (-16) - m[2]) IN
          BCmp(BAbsDiff(L, R), BShr(R, 40)) <= 0

ASSUME BigSelfTest ==
  /\ BOf(0) = << >> /\ BOf(4095) = << 4095 >> /\ BOf(4096) = << 0, 1 >>
  /\ BMul(BOf(1000000), 1000) = << 1000000000 % 4096, (1000000000 \div 4096) % 4096, 1000000000 \div 16777216 >>
  /\ BShl(BOf(3), 25) = BOf(100663296)
  /\ BShr(BOf(100663299), 25) = BOf(3) /\ BShr(BOf(5), 40) = << >>
  /\ BCmp(BOf(70000), BOf(69999)) = 1 /\ BCmp(BOf(5), BOf(5)) = 0 /\ BCmp(BOf(4095), BOf(4096)) = -1
  /\ BAbsDiff(BOf(1000000), BOf(999)) = BOf(999001) /\ BAbsDiff(BOf(999), BOf(1000000)) = BOf(999001)
  /\ BAbsDiff(BShl(BOf(1), 60), BOf(1)) = << 4095, 4095, 4095, 4095, 4095 >>
=============================================================================
