---------------------------- MODULE MC_ViewBoxFit ----------------------------
(***************************************************************************)
(* Exhaustive check of ViewBoxFit.tla on the grid vw, vh in 1..12, dx, dy  *)
(* in {1,2,3,5,8,13,21,100,255,256,600}, alignments in quarters: the       *)
(* result has the viewBox's aspect; meet lies within the target and equals *)
(* it in at least one dimension; slice covers the target and equals it in  *)
(* at least one dimension; the slack (overflow) is split by the alignment  *)
(* fraction (0 aligns minima, 1/2 centres, 1 aligns maxima).               *)
(***************************************************************************)
EXTENDS ViewBoxFit, TLC

D == {1, 2, 3, 5, 8, 13, 21, 100, 255, 256, 600}
VARIABLES mode, vw, vh, dx, dy, ax, ay
vars == << mode, vw, vh, dx, dy, ax, ay >>
Init == mode = "init" /\ vw = 1 /\ vh = 1 /\ dx = 1 /\ dy = 1 /\ ax = 0 /\ ay = 0
Next == \/ mode = "init" /\ mode' = "pick" /\ vw' \in 1..12 /\ vh' \in 1..12 /\ UNCHANGED << dx, dy, ax, ay >>
        \/ mode = "pick" /\ mode' = "case" /\ dx' \in D /\ dy' \in D /\ ax' \in 0..4 /\ ay' \in 0..4
           /\ UNCHANGED << vw, vh >>
Spec == Init /\ [][Next]_vars

Props(meet) ==
  LET f == Fit(vw, vh, dx, dy, ax, ay, meet)
      W == f.maxX - f.minX   H == f.maxY - f.minY      \* over denominator f.d
      tx == dx * f.d         ty == dy * f.d IN
  /\ W * vh = H * vw                                    \* aspect
  /\ (W = tx \/ H = ty)                                 \* equals the target in one dimension
  /\ IF meet THEN W <= tx /\ H <= ty /\ f.minX >= 0 /\ f.minY >= 0 /\ f.maxX <= tx /\ f.maxY <= ty
             ELSE W >= tx /\ H >= ty /\ f.minX <= 0 /\ f.minY <= 0 /\ f.maxX >= tx /\ f.maxY >= ty
  /\ 4 * f.minX = (tx - W) * ax /\ 4 * f.minY = (ty - H) * ay      \* slack split by the fraction
  /\ (ax = 0 => f.minX = 0) /\ (ax = 4 => f.maxX = tx) /\ (ax = 2 => f.minX = tx - f.maxX)
Inv == mode = "case" => Props(TRUE) /\ Props(FALSE)
=============================================================================
