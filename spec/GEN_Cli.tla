------------------------------- MODULE GEN_Cli -------------------------------
(***************************************************************************)
(* All command sequences up to Depth over the inputs x outputs of Cli.tla: *)
(* checked under TLC (every file is absent, untouched, or one complete     *)
(* listing; failures change nothing) and printed with the expected file    *)
(* system, standard output and exit code after each step; the replayer     *)
(* runs the real cmd/disivg binary step by step in a scratch directory.    *)
(***************************************************************************)
EXTENDS Cli, Json

CONSTANTS Depth
MCInputs == {"big", "small", "bad", "none"}
MCKind == [i \in MCInputs |-> CASE i \in {"big", "small"} -> "valid" [] i = "bad" -> "illformed" [] i = "none" -> "missing"]
MCOuts == {"f1", "f2"}

VARIABLES s, hist
vars == << s, hist >>

Cmds == {[k |-> "run", in |-> i, out |-> o] : i \in Inputs, o \in Outs \cup {"stdout"}} \cup {[k |-> "usage", in |-> "", out |-> ""]}
Apply(st, c) == IF c.k = "usage" THEN Usage(st) ELSE Run(st, c.in, c.out)
Show(st) == st

Init == s = Init0 /\ hist = << >>
Next == /\ Len(hist) < Depth
        /\ \E c \in Cmds : s' = Apply(s, c) /\ hist' = Append(hist, [cmd |-> c, after |-> Show(Apply(s, c))])
Spec == Init /\ [][Next]_vars

(* design-level *)
Whole == \A o \in Outs : s.fs[o] \in {Absent, Junk} \/ (s.fs[o].k = "listing" /\ Kind[s.fs[o].of] = "valid")
FailuresWriteNothing == [][s'.rc # 0 => s'.fs = s.fs /\ s'.stdout = Nothing]_vars
LastWriterWins == [][\A o \in Outs : s'.fs[o] # s.fs[o] =>
                       LET c == hist'[Len(hist')].cmd IN c.k = "run" /\ c.out = o /\ s'.fs[o] = Listing(c.in)]_vars
OnlyNamed == [][\A o \in Outs : (hist'[Len(hist')].cmd.out # o) => s'.fs[o] = s.fs[o]]_vars

Emit == Len(hist) = Depth => PrintT(ToJson([diag |-> "cli", h |-> hist]))
=============================================================================
