-------------------------- MODULE ViewBoxFitProofs --------------------------
(***************************************************************************)
(* Unbounded facts about aspect-preserving placement (ViewBoxFit.tla,      *)
(* property C12), proved with TLAPS for ALL positive integer sizes -- TLC  *)
(* checks them on a grid (MC_ViewBoxFit).  A size is a rational [n, d];    *)
(* "w <= dx" is n <= dx * d, "w / h = vw / vh" is cross-multiplied.         *)
(***************************************************************************)
EXTENDS ViewBoxFit, TLAPS

Pos == Nat \ {0}

(* Meet lies inside the target and touches it in at least one dimension *)
THEOREM MeetInside ==
  \A vw, vh, dx, dy \in Pos :
     LET s == FitSize(vw, vh, dx, dy, TRUE) IN
     /\ s.w.n <= dx * s.w.d /\ s.h.n <= dy * s.h.d
     /\ (s.w.n = dx * s.w.d \/ s.h.n = dy * s.h.d)
  <1> TAKE vw, vh, dx, dy \in Pos
  <1>1. CASE dx * vh < dy * vw
        BY <1>1 DEF FitSize, Pos
  <1>2. CASE ~(dx * vh < dy * vw)
        BY <1>2 DEF FitSize, Pos
  <1> QED BY <1>1, <1>2

(* Slice covers the target and touches it in at least one dimension *)
THEOREM SliceCovers ==
  \A vw, vh, dx, dy \in Pos :
     LET s == FitSize(vw, vh, dx, dy, FALSE) IN
     /\ s.w.n >= dx * s.w.d /\ s.h.n >= dy * s.h.d
     /\ (s.w.n = dx * s.w.d \/ s.h.n = dy * s.h.d)
  <1> TAKE vw, vh, dx, dy \in Pos
  <1>1. CASE dx * vh < dy * vw
        BY <1>1 DEF FitSize, Pos
  <1>2. CASE ~(dx * vh < dy * vw)
        BY <1>2 DEF FitSize, Pos
  <1> QED BY <1>1, <1>2

(* both keep the viewBox's aspect ratio: the two sizes share one denominator and their numerators are *)
(* the same multiple of vw and vh                                                                      *)
THEOREM AspectKept ==
  \A vw, vh, dx, dy \in Pos : \A meet \in BOOLEAN :
     LET s == FitSize(vw, vh, dx, dy, meet) IN
     /\ s.w.d = s.h.d
     /\ \E k \in Pos : s.w.n = k * vw /\ s.h.n = k * vh
  <1> TAKE vw, vh, dx, dy \in Pos
  <1> TAKE meet \in BOOLEAN
  <1>1. CASE (dx * vh < dy * vw) = meet
        <2>1. FitSize(vw, vh, dx, dy, meet) = [w |-> [n |-> dx * vw, d |-> vw], h |-> [n |-> dx * vh, d |-> vw]]
              BY <1>1 DEF FitSize
        <2> QED BY <2>1 DEF Pos
  <1>2. CASE (dx * vh < dy * vw) # meet
        <2>1. FitSize(vw, vh, dx, dy, meet) = [w |-> [n |-> dy * vw, d |-> vh], h |-> [n |-> dy * vh, d |-> vh]]
              BY <1>2 DEF FitSize
        <2> QED BY <2>1 DEF Pos
  <1> QED BY <1>1, <1>2

=============================================================================
