------------------------------- MODULE GEN_Aff3 -------------------------------
(***************************************************************************)
(* Every list of up to Depth matrices from a pool (translation, uniform    *)
(* and non-uniform scale, quarter turn, shear, a general matrix, a flip):  *)
(* checked under TLC and printed with the expected product, the images of  *)
(* a few points and the calls SetPathData must make for one path that      *)
(* uses every verb, for the replayer (real generate.Concat / MulAff3 /     *)
(* Generator.SetTransform + SetPathData over a recording Destination).     *)
(*   Composition   the product applied to a point = the matrices applied   *)
(*                 one after the other, first to last                      *)
(*   Assoc         the product of a list = product of any prefix, then     *)
(*                 product of the rest                                     *)
(*   IdentNeutral  identity matrices anywhere in the list change nothing   *)
(*   Collapse      SetTransform keeps one matrix; configuring its product  *)
(*                 again is the same configuration                         *)
(*   DiagRelOK     under a diagonal matrix a relative step lands where     *)
(*                 the absolute end point does (RelFollowsAbs)             *)
(*   AbsIsAffine   absolute operands: the product applied to the point     *)
(* ASSUME RelDiagOnlyWitness names the deviation for a quarter turn.       *)
(***************************************************************************)
EXTENDS Aff3, TLC, Json

CONSTANTS Depth, PoolIx      \* PoolIx: which matrices of the pool are used (C20 runs the scale-and-translate ones: 1, 2, 3, 7, 8)

H2 == << 1, 1 >>                      \* 1/2
Pool == << ATranslate(<< 3, 0 >>, << -2, 0 >>),
           AScale(<< << 2, 0 >> >>),
           AScale(<< H2, << 3, 0 >> >>),
           << D0, << -1, 0 >>, D0, D1, D0, D0 >>,                                   \* quarter turn
           << D1, H2, D0, D0, D1, D0 >>,                                           \* shear
           << << 2, 0 >>, D1, << -1, 0 >>, << -1, 1 >>, << 3, 0 >>, << 4, 0 >> >>,  \* general
           << D1, D0, D0, D0, << -1, 0 >>, << 8, 0 >> >>,                           \* flip + translate
           AIdent >>
Pts == << << D0, D0 >>, << D1, D0 >>, << D0, D1 >>, << << 3, 0 >>, << -2, 0 >> >>, << H2, << 5, 2 >> >> >>

(* one path that uses every verb of the generator dialect, and what it says (op, relative?, shape, numbers) *)
PathS == "M1 2L3 -1l2 .5H4h-2V3v1Q1 1 2 0q1 1 2 0C0 0 1 1 2 2c0 0 1 1 2 2S1 1 2 2s1 1 2 2T5 5t1 1A4 2.5 90 1 0 5 -5a4 2.5 45 0 1 -1 2zm1 1M2 -2z"
n(k) == << k, 0 >>
PathOps == <<
  [op |-> "StartPath", rel |-> FALSE, sh |-> "xy", a |-> << n(1), n(2) >>],
  [op |-> "AbsLineTo", rel |-> FALSE, sh |-> "xy", a |-> << n(3), n(-1) >>],
  [op |-> "RelLineTo", rel |-> TRUE, sh |-> "xy", a |-> << n(2), H2 >>],
  [op |-> "AbsHLineTo", rel |-> FALSE, sh |-> "h", a |-> << n(4) >>],
  [op |-> "RelHLineTo", rel |-> TRUE, sh |-> "h", a |-> << n(-2) >>],
  [op |-> "AbsVLineTo", rel |-> FALSE, sh |-> "v", a |-> << n(3) >>],
  [op |-> "RelVLineTo", rel |-> TRUE, sh |-> "v", a |-> << n(1) >>],
  [op |-> "AbsQuadTo", rel |-> FALSE, sh |-> "xy", a |-> << n(1), n(1), n(2), n(0) >>],
  [op |-> "RelQuadTo", rel |-> TRUE, sh |-> "xy", a |-> << n(1), n(1), n(2), n(0) >>],
  [op |-> "AbsCubeTo", rel |-> FALSE, sh |-> "xy", a |-> << n(0), n(0), n(1), n(1), n(2), n(2) >>],
  [op |-> "RelCubeTo", rel |-> TRUE, sh |-> "xy", a |-> << n(0), n(0), n(1), n(1), n(2), n(2) >>],
  [op |-> "AbsSmoothCubeTo", rel |-> FALSE, sh |-> "xy", a |-> << n(1), n(1), n(2), n(2) >>],
  [op |-> "RelSmoothCubeTo", rel |-> TRUE, sh |-> "xy", a |-> << n(1), n(1), n(2), n(2) >>],
  [op |-> "AbsSmoothQuadTo", rel |-> FALSE, sh |-> "xy", a |-> << n(5), n(5) >>],
  [op |-> "RelSmoothQuadTo", rel |-> TRUE, sh |-> "xy", a |-> << n(1), n(1) >>],
  [op |-> "AbsArcTo", rel |-> FALSE, sh |-> "arc", a |-> << n(4), << 5, 1 >>, << 1, 2 >>, n(1), n(0), n(5), n(-5) >>],
  [op |-> "RelArcTo", rel |-> TRUE, sh |-> "arc", a |-> << n(4), << 5, 1 >>, << 1, 3 >>, n(0), n(1), n(-1), n(2) >>],
  [op |-> "ClosePathRelMoveTo", rel |-> TRUE, sh |-> "xy", a |-> << n(1), n(1) >>],
  [op |-> "ClosePathAbsMoveTo", rel |-> FALSE, sh |-> "xy", a |-> << n(2), n(-2) >>],
  [op |-> "ClosePathEndPath", rel |-> FALSE, sh |-> "xy", a |-> << >>] >>

Pair(m, rel, x, y) == IF rel THEN GenRel(m, << x, y >>) ELSE GenAbs(m, << x, y >>)
RECURSIVE Pairs(_, _, _, _)
Pairs(m, rel, a, i) == IF i > Len(a) THEN << >> ELSE Pair(m, rel, a[i], a[i + 1]) \o Pairs(m, rel, a, i + 2)
CallOf(m, o) ==
  [op |-> o.op,
   f |-> CASE o.sh = "h" -> << GenH(m, o.a[1], o.rel) >>
           [] o.sh = "v" -> << GenV(m, o.a[1], o.rel) >>
           [] o.sh = "arc" -> GenRadii(m, << o.a[1], o.a[2] >>) \o << o.a[3] >> \o Pair(m, o.rel, o.a[6], o.a[7])
           [] OTHER -> Pairs(m, o.rel, o.a, 1),
   fl |-> IF o.sh = "arc" THEN << o.a[4][1], o.a[5][1] >> ELSE << >>]
Calls(m) == [i \in 1..Len(PathOps) |-> CallOf(m, PathOps[i])]

VARIABLES ts, ix
vars == << ts, ix >>
Init == ts = << >> /\ ix = << >>
Next == /\ Len(ts) < Depth
        /\ \E i \in PoolIx : ts' = Append(ts, Pool[i]) /\ ix' = Append(ix, i)
Spec == Init /\ [][Next]_vars

M == AConcat(ts)
RECURSIVE OneByOne(_, _)
OneByOne(p, i) == IF i > Len(ts) THEN p ELSE OneByOne(AApply(ts[i], p), i + 1)
Composition == \A j \in 1..Len(Pts) : SeqDEq(AApply(M, Pts[j]), OneByOne(Pts[j], 1))
Assoc == \A c \in 0..Len(ts) : SeqDEq(M, AThen(AConcat(SubSeq(ts, 1, c)), AConcat(SubSeq(ts, c + 1, Len(ts)))))
IdentNeutral == \A c \in 0..Len(ts) : SeqDEq(M, AConcat(SubSeq(ts, 1, c) \o << AIdent >> \o SubSeq(ts, c + 1, Len(ts))))
Collapse == AConcat(<< M >>) = M /\ SeqDEq(AConcat(<< M, AIdent >>), M)
DiagRelOK == IsDiag(M) => \A j, k \in 1..Len(Pts) : RelFollowsAbs(M, Pts[j], Pts[k])
AbsIsAffine == \A i \in 1..Len(PathOps) :
                 PathOps[i].sh = "xy" /\ ~PathOps[i].rel /\ Len(PathOps[i].a) >= 2
                   => SeqDEq(SubSeq(Calls(M)[i].f, 1, 2), OneByOne(<< PathOps[i].a[1], PathOps[i].a[2] >>, 1))
(* no transform configured: the calls carry the numbers of the string *)
Untouched == Len(ts) = 0 => \A i \in 1..Len(PathOps) :
                 LET o == PathOps[i] IN
                 SeqDEq(Calls(M)[i].f, IF o.sh = "arc" THEN << o.a[1], o.a[2], o.a[3], o.a[6], o.a[7] >> ELSE o.a)

ASSUME RelDiagOnlyWitness ==
  LET R == Pool[4] IN ~IsDiag(R) /\ ~RelFollowsAbs(R, Pts[1], Pts[2])
ASSUME Constructors ==
  /\ AScale(<< >>) = AIdent /\ AScale(<< n(2), n(3), n(7) >>) = AScale(<< n(2), n(3) >>)
  /\ AApply(ATranslate(n(3), n(-2)), << n(1), n(1) >>) = << n(4), n(-1) >>
  /\ AConcat(<< >>) = AIdent /\ AConcat(<< Pool[6] >>) = Pool[6]
  /\ SeqDEq(AConcat(<< ATranslate(n(3), n(-2)), AScale(<< n(2) >>) >>), << n(2), D0, n(6), D0, n(2), n(-4) >>)     \* translate, then scale
  /\ SeqDEq(AConcat(<< AScale(<< n(2) >>), ATranslate(n(3), n(-2)) >>), << n(2), D0, n(3), D0, n(2), n(-2) >>)     \* scale, then translate

Emit == PrintT(ToJson([diag |-> "aff3", ix |-> ix, ts |-> ts, cat |-> M,
                       pts |-> [j \in 1..Len(Pts) |-> [p |-> Pts[j], q |-> AApply(M, Pts[j])]],
                       s |-> PathS, calls |-> Calls(M)]))
=============================================================================
