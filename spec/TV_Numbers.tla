----------------------------- MODULE TV_Numbers -----------------------------
(***************************************************************************)
(* Trace validation of the number codecs (property C08).  Every line of    *)
(* the trace is an independent observation of the real code -- a number    *)
(* written through a public Encoder path (or the raw codec wrapper), a     *)
(* byte pattern read by the decoder, a decode/re-encode pair, a            *)
(* low-resolution coordinate -- and is judged against Numbers.tla.         *)
(* Each line is one initial state; TLC evaluates the judgement for all of  *)
(* them (in parallel) and prints one diagnostic per rejected line.         *)
(***************************************************************************)
EXTENDS Numbers, TLC, Json, IOUtils

Trace == ndJsonDeserialize(IOEnv.VERIF_TRACE)

VARIABLE l
vars == << l >>

SubBytes(b, p, n) == SubSeq(b, p, p + n - 1)

(* b holds exactly cnt complete numbers of the kind, each an acceptable     *)
(* encoding of v                                                            *)
RECURSIVE AllEnc(_, _, _, _, _)
AllEnc(kind, v, b, p, cnt) ==
  IF cnt = 0 THEN p = Len(b) + 1
  ELSE LET r == Dec(kind, b, p) IN
       /\ r.n > 0
       /\ EncOK(kind, v, SubBytes(b, p, r.n))
       /\ AllEnc(kind, v, b, p + r.n, cnt - 1)

(* low resolution: each number is the exact, shortest encoding of an        *)
(* acceptable quantisation of v                                             *)
RECURSIVE AllQuant(_, _, _, _)
AllQuant(v, b, p, cnt) ==
  IF cnt = 0 THEN p = Len(b) + 1
  ELSE LET r == DecCoord(b, p) IN
       /\ r.n > 0
       /\ IF InLowResRange(v)
            THEN QuantOK(v, r.v) /\ r.n = ShortestLenCoord(r.v)
            ELSE EncOK("coordinate", v, SubBytes(b, p, r.n))
       /\ AllQuant(v, b, p + r.n, cnt - 1)

KindOfOp(op) == CASE op = 168 -> "real" [] op = 176 -> "coordinate" [] op = 184 -> "zeroToOne"
                  [] OTHER -> "none"

RECURSIVE SameDecoded(_, _, _, _, _)
SameDecoded(kind, d, b2, p, cnt) ==
  IF cnt = 0 THEN p = Len(b2) + 1
  ELSE LET r == Dec(kind, b2, p) IN
       r.n > 0 /\ (Same(r.v, d) \/ NumEq(r.v, d)) /\ SameDecoded(kind, d, b2, p + r.n, cnt - 1)

(***************************************************************************)
(* Exhaustive sweep (thorough tier).  A "run" event summarises all float32 *)
(* bit patterns from lo to hi (aligned blocks of four, one sign and        *)
(* exponent): each is written in 4 bytes and the decoded bits are the      *)
(* original bits plus d[j + 1] for patterns congruent to j modulo 4.  The  *)
(* run satisfies the contract iff                                          *)
(*  - a 30-bit float (j = 0) survives unchanged: d[1] = 0;                 *)
(*  - the other residues stay within the 4-ulp band: checked at the first  *)
(*    and the last pattern of each residue (the band is monotone in the    *)
(*    magnitude and the run does not cross a sign or exponent boundary);   *)
(*  - no value inside the run is exactly representable in a short form of  *)
(*    the kind (else the shortest form was not used): the significands of  *)
(*    the run contain no multiple of the grid step (NoShortInside).        *)
(***************************************************************************)
AddBits(f, d) == LET m == Mag(f) + d IN Bits(Sign(f), m \div 8388608, m % 8388608)

(* is there a multiple of 2^t in [a, b] ? (0 <= a <= b) *)
HasMultiple(a, b, t) == IF t <= 0 THEN TRUE ELSE IF t > 30 THEN a = 0
                        ELSE ((a + Pow2(t) - 1) \div Pow2(t)) * Pow2(t) <= b
NoShortInside(kind, lo, hi) ==
  LET s == Sign(lo)  e == Exp(lo)
      a == Sig(lo)   b == Sig(hi) IN
  CASE kind = "real" ->
         \* integers in [0, 16384): positive, 127 <= e <= 140, significand a multiple of 2^(150 - e)
         s = 1 \/ e < 127 \/ e > 140 \/ ~HasMultiple(a, b, 150 - e)
    [] kind = "coordinate" ->
         \* multiples of 1/64 in [-128, 128): |v| < 128 (e <= 133), significand a multiple of 2^(144 - e);
         \* -128 itself is the lone pattern s = 1, e = 134, significand 2^23
         /\ (e > 133 \/ e = 0 \/ ~HasMultiple(a, b, 144 - e))
         /\ ~(s = 1 /\ e = 134 /\ a = 8388608)
    [] OTHER -> TRUE

JudgeRun(e) ==
  /\ Sign(e.lo) = Sign(e.hi) /\ Exp(e.lo) = Exp(e.hi)
  /\ e.lo[2] % 4 = 0 /\ e.hi[2] % 4 = 3 /\ Mag(e.hi) - Mag(e.lo) = 4 * e.n - 1
  /\ e.d[1] = 0
  /\ \A j \in 0..3 :
        LET first == AddBits(e.lo, j)   last == AddBits(e.hi, j - 3) IN
        /\ Mag(first) + e.d[j + 1] >= 0 /\ Mag(last) + e.d[j + 1] >= 0
        /\ Within4(AddBits(first, e.d[j + 1]), first) /\ Within4(AddBits(last, e.d[j + 1]), last)
        /\ Is30(AddBits(first, e.d[j + 1]))
  /\ (Exp(e.lo) < 255 => NoShortInside(e.kind, e.lo, e.hi))

Judge(e) ==
  CASE e.ev = "run" -> JudgeRun(e)
    [] e.ev = "decrun" -> e.bad = 0
    [] e.ev = "enc" /\ e.kind # "any" -> AllEnc(e.kind, e.v, e.b, 1, e.cnt)
    [] e.ev = "enc" /\ e.kind = "any" ->
         \* SetNReg: the opcode names the kind; the value survives; no longer than
         \* the shortest exact real or coordinate form
         LET k == KindOfOp(e.op) IN
         /\ k # "none"
         /\ AllEnc(k, e.v, e.b, 1, 1)
         /\ Len(e.b) <= Min2(ShortestLenReal(e.v), ShortestLenCoord(e.v))
    [] e.ev = "encnat" -> EncNatOK(e.u, e.b)
    [] e.ev = "enclen" ->
         LET r == DecNatural(e.b, 1) IN
         r.n > 0 /\ r.u = Len(e.b) - r.n /\ r.n = ShortestLenNat(r.u)
    [] e.ev = "quant" -> AllQuant(e.v, e.b, 1, e.cnt)
    [] e.ev = "angle" ->
         LET r == DecZeroToOne(e.b, 1) IN
         r.n > 0 /\ r.n = Len(e.b) /\ AngleMatch(e.v, r.v)
    [] e.ev = "dec" ->
         \* kind "arcflags": a natural number read as the flags operand of an arc - the two low bits are delivered
         LET r == Dec(IF e.kind = "arcflags" THEN "natural" ELSE e.kind, e.b, 1) IN
         IF r.n = 0 THEN e.ok = 0 /\ e.n <= 0
         ELSE /\ r.n = Len(e.b)                 \* the driver sends complete or cut numbers only
              /\ e.ok = 1
              /\ (e.n = -1 \/ e.n = r.n)
              /\ IF e.kind = "natural" THEN e.u = r.u
                 ELSE IF e.kind = "arcflags" THEN e.u = r.u % 4
                 ELSE Same(e.v, r.v)
    [] e.ev = "reenc" ->
         LET r == Dec(e.kind, e.b, 1) IN
         /\ r.n = Len(e.b)
         /\ SameDecoded(e.kind, r.v, e.b2, 1, e.cnt)
         /\ Len(e.b2) <= e.cnt * Len(e.b)
    [] OTHER -> FALSE

Init == l \in 1..Len(Trace)
Next == FALSE /\ UNCHANGED vars
Spec == Init /\ [][Next]_vars

(* Always TRUE as an invariant: a rejected line is reported, not a TLC error *)
Checked ==
  \/ Judge(Trace[l])
  \/ PrintT(ToJson([diag |-> "reject", line |-> l, ev |-> Trace[l]]))
=============================================================================
