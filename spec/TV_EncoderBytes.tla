--------------------------- MODULE TV_EncoderBytes ---------------------------
(***************************************************************************)
(* Trace validation of the bytes of real Encoders against EncoderBytes.tla *)
(* (beyond the listed properties: byte-for-byte, not only in meaning).     *)
(* Reads the same traces as TV_RoundTrip:                                  *)
(*   {ev:"src", id, b:[bytes], ...}   b = what Bytes() returned at the end *)
(*   {ev:"h", call:{...}}             the calls made on that one Encoder   *)
(*                                    object, from its zero value on       *)
(*   {ev:"end"}                                                            *)
(* The model steps through the calls (EBStep); at "end" the bytes it holds *)
(* must be the observed ones.  Histories containing a number outside the   *)
(* domain on which the model is exact (arc angles that are not multiples   *)
(* of 2^-24) are counted as unjudged, never as deviations.                 *)
(***************************************************************************)
EXTENDS EncoderBytes, TLC, Json, IOUtils

Trace == ndJsonDeserialize(IOEnv.VERIF_TRACE)

VARIABLES l, srcLine, s, exact, nbad, nun, njudged
vars == << l, srcLine, s, exact, nbad, nun, njudged >>

Init == l = 1 /\ srcLine = 0 /\ s = EBZero /\ exact = TRUE /\ nbad = 0 /\ nun = 0 /\ njudged = 0

TVSrc ==
  /\ Trace[l].ev = "src"
  /\ srcLine' = l /\ s' = EBZero /\ exact' = TRUE /\ UNCHANGED << nbad, nun, njudged >>

TVH ==
  /\ Trace[l].ev = "h"
  /\ LET c == Trace[l].call IN
     IF ~exact \/ ~CallExact(c) THEN exact' = FALSE /\ UNCHANGED s
     ELSE exact' = TRUE /\ s' = EBStep(s, c)
  /\ UNCHANGED << srcLine, nbad, nun, njudged >>

FirstDiff(a, b) == IF \E i \in 1..Len(a) : i > Len(b) \/ a[i] # b[i]
                   THEN CHOOSE i \in 1..Len(a) : (i > Len(b) \/ a[i] # b[i]) /\ \A j \in 1..(i - 1) : j <= Len(b) /\ a[j] = b[j]
                   ELSE Len(a) + 1

TVEnd ==
  /\ Trace[l].ev = "end"
  /\ UNCHANGED << srcLine, s, exact >>
  /\ IF ~exact THEN nun' = nun + 1 /\ UNCHANGED << nbad, njudged >>
     ELSE LET want == BytesOf(s)  got == Trace[srcLine].b IN
          IF s.ctl.err # "" THEN
               /\ PrintT(ToJson([diag |-> "bytes returned although the model has failed", line |-> l, id |-> Trace[srcLine].id, err |-> s.ctl.err]))
               /\ nbad' = nbad + 1 /\ UNCHANGED << nun, njudged >>
          ELSE IF want = got THEN njudged' = njudged + 1 /\ UNCHANGED << nbad, nun >>
          ELSE /\ PrintT(ToJson([diag |-> "bytes differ from the Encoder model", line |-> l, id |-> Trace[srcLine].id,
                                 at |-> FirstDiff(want, got), lens |-> << Len(want), Len(got) >>,
                                 want |-> SubSeq(want, FirstDiff(want, got), IF FirstDiff(want, got) + 11 < Len(want) THEN FirstDiff(want, got) + 11 ELSE Len(want)),
                                 got |-> SubSeq(got, FirstDiff(want, got), IF FirstDiff(want, got) + 11 < Len(got) THEN FirstDiff(want, got) + 11 ELSE Len(got))]))
               /\ nbad' = nbad + 1 /\ UNCHANGED << nun, njudged >>

Next ==
  /\ l <= Len(Trace)
  /\ l' = l + 1
  /\ (TVSrc \/ TVH \/ TVEnd)

Spec == Init /\ [][Next]_vars
Done == l = Len(Trace) + 1
Report == Done => PrintT(ToJson([diag |-> "summary", lines |-> Len(Trace), nbad |-> nbad, unjudged |-> nun, judged |-> njudged]))
Consumed == TLCGet("stats").diameter = Len(Trace) + 1
=============================================================================
