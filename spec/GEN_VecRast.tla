---------------------------- MODULE GEN_VecRast ----------------------------
(***************************************************************************)
(* Every call sequence up to Depth on a vec.Rasterizer over two            *)
(* backgrounds: checked under TLC and printed with the expected state      *)
(* after each step for the replayer (real vec.Rasterizer, *image.RGBA).    *)
(*   OneShot     after a Fill the operator is Over                         *)
(*   OpOfFill    a Fill composites with the operator of the last SetOp     *)
(*               since the previous Fill, Over if there was none           *)
(*   RingTells   Src clears the ring, Over keeps it                        *)
(*   OutKept     pixels outside the rectangle never change                 *)
(*   StaysPremul premultiplied sources on a premultiplied destination give *)
(*               premultiplied pixels                                      *)
(*   OpaqueWins  an opaque source replaces the covered pixel under both    *)
(*               operators; a transparent one changes nothing under Over   *)
(***************************************************************************)
EXTENDS VecRast, TLC, Json

CONSTANTS Depth

Colors == { << 255, 0, 0, 255 >>, << 64, 0, 32, 128 >>, << 0, 0, 0, 0 >>, << 1, 1, 1, 1 >>, << 200, 150, 100, 254 >>, << 0, 7, 255, 255 >> }
Bgs == { << 10, 20, 30, 255 >>, << 0, 0, 0, 0 >>, << 90, 0, 17, 91 >> }
Cmds == {[k |-> "op", o |-> o, c |-> << >>] : o \in {Over, Src}} \cup {[k |-> "reset", o |-> "", c |-> << >>]}
        \cup {[k |-> "fill", o |-> "", c |-> c] : c \in Colors}
        \cup {[k |-> "fillempty", o |-> "", c |-> << 255, 0, 0, 255 >>]}
Apply(st, c) == CASE c.k = "op" -> VSetOp(st, c.o) [] c.k = "reset" -> VResetOnly(st)
                  [] c.k = "fillempty" -> VFillEmpty(st, c.c) [] OTHER -> VFill(st, c.c)

VARIABLES bg, s, hist, pend
vars == << bg, s, hist, pend >>
Init == bg \in Bgs /\ s = VZero(bg) /\ hist = << >> /\ pend = Over
Next == /\ Len(hist) < Depth
        /\ \E c \in Cmds :
             /\ s' = Apply(s, c)
             /\ hist' = Append(hist, [cmd |-> c, after |-> Apply(s, c)])
             /\ pend' = CASE c.k = "op" -> c.o [] c.k \in {"fill", "fillempty"} -> Over [] OTHER -> pend
        /\ UNCHANGED bg
Spec == Init /\ [][Next]_vars

Last == hist'[Len(hist')].cmd
OneShot == [][Last.k \in {"fill", "fillempty"} => s'.op = Over]_vars
EmptyDrawsNothing == [][Last.k = "fillempty" => s'.in = s.in /\ s'.ring = s.ring]_vars
OpOfFill == [][Last.k = "fill" => s'.in = Px(pend, s.in, Last.c, TRUE) /\ s'.ring = Px(pend, s.ring, Last.c, FALSE)]_vars
RingTells == [][Last.k = "fill" => s'.ring = (IF pend = Src THEN << 0, 0, 0, 0 >> ELSE s.ring)]_vars
OutKept == s.out = bg
StaysPremul == Premul(s.in) /\ Premul(s.ring)
OpaqueWins == [][Last.k = "fill" => /\ (Last.c[4] = 255 => s'.in = Last.c)
                                   /\ (Last.c[4] = 0 /\ pend = Over => s'.in = s.in)]_vars
PendIsOp == pend = s.op

ASSUME ChanGolden ==
  /\ Chan(Over, 10, 64, 128, TRUE) = 69 /\ Chan(Over, 255, 0, 128, TRUE) = 127 /\ Chan(Over, 255, 1, 1, TRUE) = 255
  /\ Chan(Src, 77, 64, 128, TRUE) = 64 /\ Chan(Src, 77, 64, 128, FALSE) = 0 /\ Chan(Over, 77, 64, 128, FALSE) = 77
  /\ Div65535(BMul(BOf(65535), 65535)) = 65535 /\ Div65535(BMul(BOf(65535), 65534)) = 65534 /\ Div65535(BOf(65534)) = 0

Emit == Len(hist) = Depth => PrintT(ToJson([diag |-> "vecrast", bg |-> bg, h |-> hist]))
=============================================================================
