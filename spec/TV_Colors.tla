------------------------------ MODULE TV_Colors ------------------------------
(***************************************************************************)
(* Trace validation of colour handling (property C09) against Colors.tla   *)
(* and the metadata phase of Decoder.tla.  Independent events, one initial *)
(* state per trace line; a rejected line prints a diagnostic.              *)
(***************************************************************************)
EXTENDS Decoder, TLC, Json, IOUtils

Trace == ndJsonDeserialize(IOEnv.VERIF_TRACE)
VARIABLE l
vars == << l >>

AdjCode(adj, incr) == IF incr = 1 THEN 7 ELSE adj

PalOK(pal, got) ==
  \A i \in 1..64 : ValidPremul(pal[i]) => got[i] = pal[i]

Judge(e) ==
  CASE e.ev = "ctx" -> TRUE
    [] e.ev = "creg" ->
         \* the bytes written denote exactly the colour given, under the opcode's form and ADJ
         /\ EncColorOK(e.c, e.op, e.b)
         /\ e.op % 8 = AdjCode(e.adj, e.incr)
    [] e.ev = "dec" ->
         LET r == DecColor(e.form, e.b, 1) IN
         IF r.n = 0 \/ r.n # Len(e.b) THEN (r.n = 0 => e.ok = 0)
         ELSE e.ok = 1 /\ e.c = r.c
    [] e.ev = "resolve" ->
         LET cx == Trace[e.ctx]
             want == Resolve(e.c, cx.pal, cx.creg) IN
         e.res = want
    [] e.ev = "palette" ->
         \* the stream the encoder wrote is accepted; its suggested palette, decoded by the
         \* specification, keeps every valid premultiplied entry; and the real decoder delivers
         \* what the specification decodes
         LET m == ParseMeta(e.b) IN
         /\ m.ok
         /\ PalOK(e.pal, m.m.pal)
         /\ e.ok = 1 /\ e.got = m.m.pal
    [] e.ev = "palopt" ->
         \* the encoder's stream decoded with WithColorAt(e.adj, e.c): the delivered palette is the specification's
         \* suggested palette with that one entry replaced - every other valid entry untouched
         LET m == ParseMeta(e.b)
             oc == << e.c[2], e.c[3], e.c[4], e.c[5] >> IN
         /\ m.ok /\ e.ok = 1
         /\ PalOK(e.pal, m.m.pal)
         /\ e.got = [m.m.pal EXCEPT ![e.adj + 1] = oc]
    [] e.ev = "paldec" ->
         \* a hand-built stream (suggested palettes no encoder writes: 1-byte entries that are palette or
         \* register references, non-premultiplied entries): the real decoder delivers the specification's palette
         LET m == ParseMeta(e.b) IN
         IF m.ok THEN e.ok = 1 /\ e.got = m.m.pal ELSE e.ok = 0
    [] OTHER -> FALSE

Init == l \in 1..Len(Trace)
Next == FALSE /\ UNCHANGED vars
Spec == Init /\ [][Next]_vars
Checked ==
  \/ Judge(Trace[l])
  \/ PrintT(ToJson([diag |-> "reject", line |-> l, ev |-> Trace[l]]))
=============================================================================
