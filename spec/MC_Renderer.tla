----------------------------- MODULE MC_Renderer -----------------------------
(***************************************************************************)
(* Product of the Renderer model, the Encoder model and a second Renderer  *)
(* that is fed the same calls after a dirty prefix and a Reset, driven by  *)
(* every well-formed program over a concrete alphabet up to Depth calls.   *)
(*   SelAgree    Encoder and Renderer hold the same selectors (mod 64) at  *)
(*               every point (C07);                                        *)
(*   ModeAgree   the Encoder is in drawing mode exactly inside a path;     *)
(*   QuietWhenDisabled  a disabled path causes no rasteriser call and the  *)
(*               machine still leaves drawing mode (C04);                  *)
(*   DrawOnce    a Draw is caused only by ClosePathEndPath of an enabled   *)
(*               path, over the target rectangle (C05);                    *)
(*   Fresh       the reused Renderer equals the fresh one on everything a  *)
(*               program can observe (C17).                                *)
(***************************************************************************)
EXTENDS Renderer, Encoder, TLC

CONSTANTS Depth

Rect == << 0, 0, 64, 32 >>
Mk(op, adj, incr, sel) == [op |-> op, adj |-> adj, incr |-> incr, sel |-> sel,
                           f |-> << >>, c |-> << >>, fl |-> << >>, pal |-> << >>]
F(k)  == OfScaled(k, 6)                      \* k/64
Pal2  == [DefaultPalette EXCEPT ![1] = << 255, 0, 0, 255 >>, ![64] = << 0, 64, 0, 128 >>]

Styling == {
  Mk("SetCSel", 0, 0, 0), Mk("SetCSel", 0, 0, 63), Mk("SetNSel", 0, 0, 62),
  [Mk("SetCReg", 0, 1, 0) EXCEPT !.c = << 0, 255, 0, 0, 255 >>],
  [Mk("SetCReg", 1, 0, 0) EXCEPT !.c = << 0, 0, 64, 0, 128 >>],
  [Mk("SetCReg", 0, 0, 0) EXCEPT !.c = << 0, 0, 0, 0, 0 >>],
  [Mk("SetCReg", 0, 0, 0) EXCEPT !.c = << 0, 0, 153, 0, 136 >>],
  [Mk("SetCReg", 0, 0, 0) EXCEPT !.c = << 0, 2, 63, 190, 0 >>],       \* gradient NSTOPS 2 CBASE 63 NBASE 62
  [Mk("SetCReg", 0, 1, 0) EXCEPT !.c = << 1, 0, 0, 0, 0 >>],
  [Mk("SetCReg", 0, 0, 0) EXCEPT !.c = << 3, 128, 128, 255, 0 >>],   \* blend(palette 0, CREG 63)
  [Mk("SetNReg", 0, 1, 0) EXCEPT !.f = << Zero >>], [Mk("SetNReg", 0, 1, 0) EXCEPT !.f = << One >>],
  [Mk("SetNReg", 6, 0, 0) EXCEPT !.f = << F(32) >>],
  [Mk("SetLOD", 0, 0, 0) EXCEPT !.f = << Zero, F(2048) >>],          \* [0, 32): excludes H = 32
  [Mk("SetLOD", 0, 0, 0) EXCEPT !.f = << F(2048), PosInf >> ] }
Starts == { [Mk("StartPath", 0, 0, 0) EXCEPT !.f = << F(64), F(-128) >>],
            [Mk("StartPath", 1, 0, 0) EXCEPT !.f = << F(0), F(0) >>] }
Draws == { [Mk("AbsLineTo", 0, 0, 0) EXCEPT !.f = << F(320), F(64) >>],
           [Mk("RelSmoothQuadTo", 0, 0, 0) EXCEPT !.f = << F(-64), F(96) >>],
           Mk("ClosePathEndPath", 0, 0, 0) }
ResetCall == [Mk("Reset", 0, 0, 0) EXCEPT !.f = DefaultViewBox, !.pal = Pal2]

VARIABLES r, e, r2, n, last
vars == << r, e, r2, n, last >>

(* r2: a Renderer dirtied by a fixed prefix, then Reset like r *)
Dirty ==
  LET a == RStep(RInit(Rect), [Mk("SetCSel", 0, 0, 9) EXCEPT !.sel = 9]).r
      b == RStep(a, [Mk("SetCReg", 0, 1, 0) EXCEPT !.c = << 0, 1, 2, 3, 4 >>]).r
      c == RStep(b, [Mk("SetNReg", 0, 1, 0) EXCEPT !.f = << One >>]).r
      d == RStep(c, [Mk("SetLOD", 0, 0, 0) EXCEPT !.f = << One, One >>]).r
  IN RStep(d, [Mk("StartPath", 0, 0, 0) EXCEPT !.f = << Zero, Zero >>]).r

Init == /\ r  = RStep(RInit(Rect), ResetCall).r
        /\ r2 = RStep(Dirty, ResetCall).r
        /\ e  = EStep(EZero, ResetCall)
        /\ n = 0 /\ last = [judge |-> "quiet", rz |-> << >>, op |-> "Reset", en |-> FALSE]

Allowed == IF r.inPath THEN Draws ELSE Styling \cup Starts \cup { ResetCall }

Next ==
  /\ n < Depth
  /\ \E call \in Allowed :
       LET res == RStep(r, call) IN
       /\ r' = res.r /\ r2' = RStep(r2, call).r /\ e' = EStep(e, call) /\ n' = n + 1
       /\ last' = [judge |-> res.judge, rz |-> res.rz, op |-> call.op, en |-> r.en]

Spec == Init /\ [][Next]_vars

SelAgree  == e.err = "" /\ e.cSel = r.cSel /\ e.nSel = r.nSel
ModeAgree == (e.mode = "drawing") <=> r.inPath
QuietWhenDisabled ==
  /\ (last.op \notin {"StartPath", "Reset"} /\ ~last.en /\ last.op \in {"AbsLineTo", "RelSmoothQuadTo", "ClosePathEndPath"}
        => last.judge = "quiet" /\ last.rz = << >>)
  /\ (last.op = "ClosePathEndPath" => ~r.inPath)
DrawOnce ==
  /\ (last.judge = "draw" => last.op = "ClosePathEndPath" /\ last.en /\ Len(last.rz) = 2
                             /\ last.rz[2].i = Rect \o << 0, 0 >>)
  /\ (\E j \in 1..Len(last.rz) : last.rz[j].k = "Draw") => last.judge = "draw"
Observable(x) == [x EXCEPT !.en = FALSE, !.unspec = FALSE, !.paint = [k |-> "none"]]
Fresh == ~r.inPath => Observable(r) = Observable(r2)
FreshInPath == r.inPath => r = r2
=============================================================================
