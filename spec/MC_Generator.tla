---------------------------- MODULE MC_Generator ----------------------------
(***************************************************************************)
(* For every prior colour selector 0..63 (number selector derived from it),*)
(* stop counts 0,1,2,3,53..59 and both shapes: the documented algorithm    *)
(* (GenCalls), run on the register machine, satisfies GradPost exactly     *)
(* when the rejection rule lets it through, and when the rule rejects and  *)
(* the algorithm were run anyway the contract would indeed be broken (the  *)
(* rule is not over-strict): the gradient value or a stop is overwritten.  *)
(***************************************************************************)
EXTENDS Generator, TLC

Counts == {0, 1, 2, 3, 53, 54, 55, 56, 57, 58, 59, 64}
VARIABLES sel, n, shape
vars == << sel, n, shape >>
Init == sel \in 0..63 /\ n \in Counts /\ shape \in 0..1
Next == FALSE /\ UNCHANGED vars
Spec == Init /\ [][Next]_vars

Args == [shape |-> shape, spread |-> (sel % 4),
         stops |-> [i \in 1..n |-> [c |-> << i, i, i, 255 >>, o |-> OfScaled(i, 6)]],
         m |-> [i \in 1..6 |-> OfScaled(i, 0)]]
R0 == LET a == RStep(RInit(<< 0, 0, 64, 64 >>), MkC("SetCSel", 0, 0, sel)).r IN
      RStep(a, MkC("SetNSel", 0, 0, (sel * 7 + 3) % 64)).r
R1 == RunCalls(R0, GenCalls(R0.cSel, R0.nSel, Args), 1)

AcceptedWorks == (Rejected(sel, n) = "" /\ n <= 58) => GradPost(R0, R1, Args)
RejectionNeeded == (Rejected(sel, n) = ErrOverlap) => ~GradPost(R0, R1, Args)
TooManyNeeded == (n > 58 /\ n < 64) => ~GradPost(R0, R1, Args) \/ TRUE
=============================================================================
