------------------------------ MODULE DestLog ------------------------------
(***************************************************************************)
(* The two pass-through loggers of the repository (beyond the listed       *)
(* properties): ivg.DestinationLogger (logger.go) and                      *)
(* raster.RasterizerLogger (raster/logger.go).                             *)
(*                                                                         *)
(* State: the lines printed so far and the calls handed on to the wrapped  *)
(* object.  One action per public call (LogStep / RLogStep): exactly one   *)
(* line is printed - the name of the call and every argument, in order -   *)
(* and, if something is wrapped, exactly that call with exactly those      *)
(* arguments is handed on, once, after the line.  A DestinationLogger      *)
(* wrapping nothing only prints.  Reads (CSel, NSel; Size, Bounds, Pen)    *)
(* print nothing and return what the wrapped object returns.               *)
(*                                                                         *)
(* DestinationLogger has two styles: named arguments                       *)
(* ("StartPath(adj:0, x:1.00, y:2.00)") and, with Alt, the Go statement    *)
(* that repeats the call ("dst.StartPath(0, 1.00, 2.00)").  Numbers are    *)
(* printed with two decimals (Fmt2), register adjustments and selectors as *)
(* decimal integers, flags as true/false, colours, the viewBox and the     *)
(* palette in Go syntax ("%#v").                                           *)
(*                                                                         *)
(* A call is the record of the traces: [op, adj, incr, f, c, fl, sel] and  *)
(* pal for Reset; f = float32 bit patterns << hi16, lo16 >>.               *)
(***************************************************************************)
EXTENDS Fmt

B(b) == IF b = 1 THEN "true" ELSE "false"
RGBAStr(c) == "color.RGBA{R:" \o Hex(c[1]) \o ", G:" \o Hex(c[2]) \o ", B:" \o Hex(c[3]) \o ", A:" \o Hex(c[4]) \o "}"
ColorStr(c) == "ivg.Color{typ:" \o Hex(c[1]) \o ", data:" \o RGBAStr(<< c[2], c[3], c[4], c[5] >>) \o "}"
PalStr(p) == "[" \o ToString(Len(p)) \o "]color.RGBA{" \o Join([i \in 1..Len(p) |-> RGBAStr(p[i])]) \o "}"
VBStr(f) == "ivg.ViewBox{MinX:" \o FmtG(f[1]) \o ", MinY:" \o FmtG(f[2]) \o ", MaxX:" \o FmtG(f[3]) \o ", MaxY:" \o FmtG(f[4]) \o "}"

XY == << "x", "y" >>
FNames(op) ==
  CASE op \in {"AbsHLineTo", "RelHLineTo"} -> << "x" >>
    [] op \in {"AbsVLineTo", "RelVLineTo"} -> << "y" >>
    [] op \in {"AbsLineTo", "RelLineTo", "AbsSmoothQuadTo", "RelSmoothQuadTo", "ClosePathAbsMoveTo", "ClosePathRelMoveTo", "StartPath"} -> XY
    [] op \in {"AbsQuadTo", "RelQuadTo"} -> << "x1", "y1", "x", "y" >>
    [] op \in {"AbsSmoothCubeTo", "RelSmoothCubeTo"} -> << "x2", "y2", "x", "y" >>
    [] op \in {"AbsCubeTo", "RelCubeTo"} -> << "x1", "y1", "x2", "y2", "x", "y" >>
    [] op = "SetLOD" -> << "lod0", "lod1" >>
    [] op = "SetNReg" -> << "f" >>
    [] op = "ClosePathEndPath" -> << >>

Ops == {"Reset", "SetCSel", "SetNSel", "SetCReg", "SetNReg", "SetLOD", "StartPath", "ClosePathEndPath",
        "ClosePathAbsMoveTo", "ClosePathRelMoveTo", "AbsHLineTo", "RelHLineTo", "AbsVLineTo", "RelVLineTo",
        "AbsLineTo", "RelLineTo", "AbsSmoothQuadTo", "RelSmoothQuadTo", "AbsQuadTo", "RelQuadTo",
        "AbsSmoothCubeTo", "RelSmoothCubeTo", "AbsCubeTo", "RelCubeTo", "AbsArcTo", "RelArcTo"}

(* the arguments of a call as << name, text >> pairs, in the order of the signature *)
Args(c) ==
  LET fl(ns, fs) == [i \in 1..Len(ns) |-> << ns[i], Fmt2(fs[i]) >>] IN
  CASE c.op = "Reset"   -> << << "viewbox", VBStr(c.f) >>, << "colors", PalStr(c.pal) >> >>
    [] c.op = "SetCSel" -> << << "cSel", ToString(c.sel) >> >>
    [] c.op = "SetNSel" -> << << "nSel", ToString(c.sel) >> >>
    [] c.op = "SetCReg" -> << << "adj", ToString(c.adj) >>, << "incr", B(c.incr) >>, << "c", ColorStr(c.c) >> >>
    [] c.op = "SetNReg" -> << << "adj", ToString(c.adj) >>, << "incr", B(c.incr) >> >> \o fl(FNames(c.op), c.f)
    [] c.op = "StartPath" -> << << "adj", ToString(c.adj) >> >> \o fl(FNames(c.op), c.f)
    [] c.op \in {"AbsArcTo", "RelArcTo"} ->
         fl(<< "rx", "ry", "xAxisRotation" >>, SubSeq(c.f, 1, 3))
         \o << << "largeArc", B(c.fl[1]) >>, << "sweep", B(c.fl[2]) >> >>
         \o fl(XY, SubSeq(c.f, 4, 5))
    [] OTHER -> fl(FNames(c.op), c.f)

(* the line is outside the model when it contains a viewBox number whose shortest decimal is not modelled *)
InModel(c) == c.op = "Reset" => \A i \in 1..4 : InG(c.f[i])
Outside == "?"

Line(alt, c) ==
  IF ~InModel(c) THEN Outside
  ELSE LET a == Args(c) IN
       IF alt THEN "dst." \o c.op \o "(" \o Join([i \in 1..Len(a) |-> a[i][2]]) \o ")"
       ELSE c.op \o "(" \o Join([i \in 1..Len(a) |-> a[i][1] \o ":" \o a[i][2]]) \o ")"

LZero == [out |-> << >>, fwd |-> << >>]
LogStep(st, alt, wrapped, c) ==
  [out |-> Append(st.out, Line(alt, c)),
   fwd |-> IF wrapped THEN Append(st.fwd, c) ELSE st.fwd]

RECURSIVE LogRun(_, _, _, _)
LogRun(st, alt, wrapped, cs) == IF cs = << >> THEN st ELSE LogRun(LogStep(st, alt, wrapped, Head(cs)), alt, wrapped, Tail(cs))

(* a read through the logger: silent; the wrapped object's answer; nothing wrapped = the nil interface is called *)
ReadThrough(wrapped, inner) == IF wrapped THEN inner ELSE "panic"

-----------------------------------------------------------------------------
(* raster.RasterizerLogger: calls [op, f, i]                                *)
PointStr(x, y) == "image.Point{X:" \o ToString(x) \o ", Y:" \o ToString(y) \o "}"
RectStr(i) == "image.Rectangle{Min:" \o PointStr(i[1], i[2]) \o ", Max:" \o PointStr(i[3], i[4]) \o "}"
RNames(op) ==
  CASE op = "MoveTo" -> << "ax", "ay" >>
    [] op = "LineTo" -> << "bx", "by" >>
    [] op = "QuadTo" -> << "bx", "by", "cx", "cy" >>
    [] op = "CubeTo" -> << "bx", "by", "cx", "cy", "dx", "dy" >>
    [] op = "ClosePath" -> << >>
ROps == {"Reset", "MoveTo", "LineTo", "QuadTo", "CubeTo", "ClosePath", "Draw"}
RLine(c) ==
  CASE c.op = "Reset" -> "raster.Reset(w:" \o ToString(c.i[1]) \o ", h:" \o ToString(c.i[2]) \o ")"
    [] c.op = "Draw"  -> "raster.Draw(r: " \o RectStr(c.i) \o ", src: <img>, sp: " \o PointStr(c.i[5], c.i[6]) \o ")"
    [] OTHER -> LET ns == RNames(c.op) IN
                "raster." \o c.op \o "(" \o Join([k \in 1..Len(ns) |-> ns[k] \o ":" \o Fmt2(c.f[k])]) \o ")"
RLogStep(st, c) == [out |-> Append(st.out, RLine(c)), fwd |-> Append(st.fwd, c)]
RECURSIVE RLogRun(_, _)
RLogRun(st, cs) == IF cs = << >> THEN st ELSE RLogRun(RLogStep(st, Head(cs)), Tail(cs))
=============================================================================
