----------------------------- MODULE MC_Numbers -----------------------------
(***************************************************************************)
(* Design-level check of Numbers.tla, independent of the implementation:   *)
(* the contract predicates (EncOK, QuantOK, AngleMatch) are satisfiable by *)
(* a canonical encoder written here from the format document, on every     *)
(* sign/exponent with boundary mantissas, on the whole 1/64 grid, and the  *)
(* decoders are idempotent under it on every 1- and 2-byte pattern.  This  *)
(* guards the trace checks against demanding the impossible (false alarms) *)
(* and against boundary mistakes in the specification itself.              *)
(***************************************************************************)
EXTENDS Numbers, TLC

Nat1(u) == << 2 * u >>
Nat2(u) == << (4 * u + 1) % 256, (4 * u + 1) \div 256 >>

(* 4-byte form: nearest 30-bit float without carrying into the exponent *)
Round30(v) ==
  LET m  == Man(v)
      m2 == IF m % 4 = 0 THEN m
            ELSE IF m + 2 <= 8388607 THEN ((m + 2) \div 4) * 4 ELSE (m \div 4) * 4
  IN Bits(Sign(v), Exp(v), m2)
Enc4(v) == LET d == Round30(v) IN
  << (d[2] % 256) + 3, d[2] \div 256, d[1] % 256, d[1] \div 256 >>

CanonReal(v) ==
  IF RepReal(1, v) THEN Nat1(AsScaled(v, 0).k)
  ELSE IF RepReal(2, v) THEN Nat2(AsScaled(v, 0).k)
  ELSE Enc4(v)
CanonCoord(v) ==
  IF RepCoord(1, v) THEN Nat1(AsScaled(v, 0).k + 64)
  ELSE IF RepCoord(2, v) THEN Nat2(AsScaled(v, 6).k + 8192)
  ELSE Enc4(v)
CanonZ(v) == Enc4(v)

(* exactly nearest multiple of 1/64 (ties up) *)
CanonQuant(v) ==
  LET F == FloorScaled(v, 17)              \* floor(64 v 2^11)
      t == F.k + 1024
      k == IF t >= 0 THEN t \div 2048 ELSE -((-t + 2047) \div 2048)
  IN OfScaled(k, 6)

VARIABLES mode, s, e, m, x
vars == << mode, s, e, m, x >>

Mans == { 0, 1, 2, 3, 4, 5, 6, 7, 8, 4194300, 4194304, 4194305, 8388600, 8388604,
          8388605, 8388606, 8388607, 5592405, 2796202, 1048576, 2097155, 6291458 }

(* a root state, 256 "pick" states (one per exponent / residue), then the cases: *)
(* TLC's workers share the picks                                                *)
Init == mode = "init" /\ s = 0 /\ e = 0 /\ m = 0 /\ x = 0
Next ==
  \/ mode = "init" /\ mode' = "pick" /\ e' \in 0..255 /\ s' = 0 /\ m' = 0 /\ x' = 0
  \/ /\ mode = "pick"
     /\ \/ mode' = "float" /\ s' \in 0..1 /\ e' = e /\ m' \in Mans /\ x' = 0
        \/ mode' = "grid"  /\ s' = 0 /\ e' = 0 /\ m' \in {0, 1, 2} /\ x' \in { y \in -8300..8300 : y % 256 = e }
        \/ mode' = "byte1" /\ s' = 0 /\ e' = 0 /\ m' = 0 /\ e < 128 /\ x' = e
        \/ mode' = "byte2" /\ s' = 0 /\ e' = 0 /\ m' = 0 /\ x' \in { y \in 0..16383 : y % 256 = e }
Spec == Init /\ [][Next]_vars

V == IF mode = "float" THEN Bits(s, e, m)
     ELSE LET g == OfScaled(x, 6) IN        \* grid point and its two upper neighbours
          IF x = 0 THEN Bits(0, 0, m) ELSE Bits(Sign(g), Exp(g), Min2(Man(g) + m, 8388607))

FloatOK ==
  mode \in {"float", "grid"} =>
    /\ EncOK("real", V, CanonReal(V))
    /\ EncOK("coordinate", V, CanonCoord(V))
    /\ EncOK("zeroToOne", V, CanonZ(V))
    /\ (InLowResRange(V) => QuantOK(V, CanonQuant(V)))
    /\ CoordMatch(TRUE, V, DecCoord(CanonCoord(V), 1).v)
    /\ RealMatch(V, DecReal(CanonReal(V), 1).v)
    /\ (IsFinite(V) /\ Exp(V) < 147 => AngleMatch(V, V) \/ ~(Sign(V) = 0 /\ Lt(V, One)))

B == IF mode = "byte1" THEN Nat1(x) ELSE Nat2(x)
ByteOK ==
  mode \in {"byte1", "byte2"} =>
    /\ DecNatural(B, 1).u = x /\ DecNatural(B, 1).n = Len(B)
    /\ LET r == DecReal(B, 1) IN Dec("real", CanonReal(r.v), 1).v = r.v /\ Len(CanonReal(r.v)) <= Len(B)
    /\ LET c == DecCoord(B, 1) IN Dec("coordinate", CanonCoord(c.v), 1).v = c.v /\ Len(CanonCoord(c.v)) <= Len(B)
    /\ LET z == DecZeroToOne(B, 1) IN IsFinite(z.v) /\ Le(Zero, z.v)
    /\ DecNatural(SubSeq(B, 1, Len(B) - 1), 1).n = 0            \* cut short => error
=============================================================================
