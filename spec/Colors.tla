------------------------------- MODULE Colors -------------------------------
(***************************************************************************)
(* IconVG FFV0 colours (format document, "Colors and Gradients").          *)
(* A colour operand is the 5-tuple <<typ, x1, x2, x3, x4>>:                *)
(*   typ 0  direct RGBA          <<0, R, G, B, A>>                         *)
(*   typ 1  custom-palette index <<1, i, 0, 0, 0>>                         *)
(*   typ 2  CREG reference       <<2, i, 0, 0, 0>>                         *)
(*   typ 3  blend                <<3, T, C0, C1, 0>>  (C0, C1: 1-byte codes)*)
(* An RGBA value is <<R, G, B, A>>.  Palettes and register files are       *)
(* sequences of 64 RGBA values (index i lives at position i + 1).          *)
(***************************************************************************)
EXTENDS Integers, Sequences

Tab5 == << 0, 64, 128, 192, 255 >>

Black == << 0, 0, 0, 255 >>
DefaultPalette == [i \in 1..64 |-> Black]

(* 1-byte colour code -> colour operand *)
Dec1(x) ==
  IF x >= 192 THEN << 2, x - 192, 0, 0, 0 >>
  ELSE IF x >= 128 THEN << 1, x - 128, 0, 0, 0 >>
  ELSE IF x = 125 THEN << 0, 192, 192, 192, 192 >>
  ELSE IF x = 126 THEN << 0, 128, 128, 128, 128 >>
  ELSE IF x = 127 THEN << 0, 0, 0, 0, 0 >>
  ELSE << 0, Tab5[(x \div 25) + 1], Tab5[((x \div 5) % 5) + 1], Tab5[(x % 5) + 1], 255 >>

NoColor == [n |-> 0, c |-> << 0, 0, 0, 0, 0 >>]

(* form: 0 = 1 byte, 1 = 2 bytes, 2 = 3 bytes direct, 3 = 4 bytes, 4 = 3 bytes indirect *)
FormLen(form) == CASE form = 0 -> 1 [] form = 1 -> 2 [] form = 2 -> 3 [] form = 3 -> 4 [] form = 4 -> 3

DecColor(form, b, p) ==
  IF p + FormLen(form) - 1 > Len(b) THEN NoColor
  ELSE CASE form = 0 -> [n |-> 1, c |-> Dec1(b[p])]
         [] form = 1 -> [n |-> 2, c |-> << 0, 17 * (b[p] \div 16), 17 * (b[p] % 16),
                                             17 * (b[p + 1] \div 16), 17 * (b[p + 1] % 16) >>]
         [] form = 2 -> [n |-> 3, c |-> << 0, b[p], b[p + 1], b[p + 2], 255 >>]
         [] form = 3 -> [n |-> 4, c |-> << 0, b[p], b[p + 1], b[p + 2], b[p + 3] >>]
         [] form = 4 -> [n |-> 3, c |-> << 3, b[p], b[p + 1], b[p + 2], 0 >>]

-----------------------------------------------------------------------------
RGBAOf(c) == << c[2], c[3], c[4], c[5] >>
ValidPremul(q) == q[1] <= q[4] /\ q[2] <= q[4] /\ q[3] <= q[4]
IsGradient(q)  == q[4] = 0 /\ q[3] >= 128

(* what the suggested palette (and a user-supplied palette) keeps of an entry: *)
(* indirect or non-premultiplied colours become opaque black                   *)
Sanitize(c) == IF c[1] = 0 /\ ValidPremul(RGBAOf(c)) THEN RGBAOf(c) ELSE Black
SanitizeRGBA(q) == IF ValidPremul(q) THEN q ELSE Black

BlendCh(t, x0, x1) == ((255 - t) * x0 + t * x1 + 128) \div 255

(* Resolve a 1-byte-encodable operand (never a blend) *)
Resolve1(c, pal, creg) ==
  CASE c[1] = 0 -> RGBAOf(c)
    [] c[1] = 1 -> pal[(c[2] % 64) + 1]
    [] c[1] = 2 -> creg[(c[2] % 64) + 1]
    [] OTHER -> << 0, 0, 0, 0 >>

Resolve(c, pal, creg) ==
  IF c[1] # 3 THEN Resolve1(c, pal, creg)
  ELSE LET t  == c[2]
           q0 == Resolve1(Dec1(c[3]), pal, creg)
           q1 == Resolve1(Dec1(c[4]), pal, creg)
       IN << BlendCh(t, q0[1], q1[1]), BlendCh(t, q0[2], q1[2]),
             BlendCh(t, q0[3], q1[3]), BlendCh(t, q0[4], q1[4]) >>

(* an indirect operand as the format sees it: PaletteIndexColor / CRegColor take any byte and keep its low six bits *)
NormC(c) == IF c[1] \in {1, 2} THEN << c[1], c[2] % 64, 0, 0, 0 >> ELSE c

(* Gradient fields of a gradient-encoding RGBA value *)
GradNStops(q) == q[1] % 64
GradCBase(q)  == q[2] % 64
GradSpread(q) == q[2] \div 64
GradNBase(q)  == q[3] % 64
GradShape(q)  == (q[3] \div 64) % 2
MkGradient(cBase, nBase, shape, spread, nStops) ==
  << nStops % 64, (cBase % 64) + 64 * (spread % 4), (nBase % 64) + 64 * (2 + (shape % 2)), 0 >>

(* The colour an observed register-write encoding denotes must be the colour  *)
(* that was written.  op: the SetCReg opcode byte, payload: the bytes after it *)
CRegForm(op) == (op - 128) \div 8
EncColorOK(c, op, payload) ==
  /\ op >= 128 /\ op < 168
  /\ LET r == DecColor(CRegForm(op), payload, 1) IN
     r.n = Len(payload) /\ r.n > 0 /\ r.c = c
=============================================================================
