----------------------------- MODULE ViewBoxFit -----------------------------
(***************************************************************************)
(* Aspect-preserving placement of a viewBox of size vw x vh in a target of *)
(* size dx x dy with alignment fractions ax, ay (property C12), in exact    *)
(* rational arithmetic.  All sizes are positive integers (in a common unit; *)
(* powers of two factor out); alignments are given in quarters (a4 = 4 a).  *)
(* A result coordinate is the rational [n, d] (d > 0).                      *)
(*   Meet  : the largest rectangle of the viewBox's aspect inside the      *)
(*           target;  Slice: the smallest one covering it.                 *)
(*   min = (target - size) * a,  max = min + size.                         *)
(***************************************************************************)
EXTENDS Integers

(* width and height as rationals *)
FitSize(vw, vh, dx, dy, meet) ==
  LET narrow == dx * vh < dy * vw IN          \* target narrower than the viewBox aspect
  IF narrow = meet
    THEN [w |-> [n |-> dx * vw, d |-> vw], h |-> [n |-> dx * vh, d |-> vw]]    \* width-limited
    ELSE [w |-> [n |-> dy * vw, d |-> vh], h |-> [n |-> dy * vh, d |-> vh]]    \* height-limited

(* << minX, minY, maxX, maxY >> as rationals over a common positive denominator *)
Fit(vw, vh, dx, dy, ax4, ay4, meet) ==
  LET s  == FitSize(vw, vh, dx, dy, meet)
      d  == 4 * s.w.d
      mnx == (dx * s.w.d - s.w.n) * ax4
      mny == (dy * s.h.d - s.h.n) * ay4
  IN [d |-> d, minX |-> mnx, minY |-> mny, maxX |-> mnx + 4 * s.w.n, maxY |-> mny + 4 * s.h.n]
=============================================================================
