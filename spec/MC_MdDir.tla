------------------------------ MODULE MC_MdDir ------------------------------
(***************************************************************************)
(* Design check of the directory scan: the file system may return the      *)
(* entries of svg/production in any order; whatever the order, the scan    *)
(* ends with exactly the declarative selection (per base name the eligible *)
(* file of largest size), first-seen order lists every selected base once, *)
(* and ineligible names never enter.  Every sub-set of a pool of entries   *)
(* is explored under every enumeration order, in both categories (the      *)
(* known duplicate is skipped only in "av").                               *)
(***************************************************************************)
EXTENDS MdDir

CONSTANTS MaxEntries

A == Tok("a", "")
B == Tok("b", "")
Play == << Tok("p", "lay"), Tok("c", "ircle"), Tok("f", "illed"), Tok("w", "hite") >>
Pool == {
  [pre |-> "ic_", base |-> << A >>,    suf |-> "_24px.svg", len |-> 1, bad |-> FALSE, id |-> 1],
  [pre |-> "ic_", base |-> << A >>,    suf |-> "_48px.svg", len |-> 1, bad |-> FALSE, id |-> 2],
  [pre |-> "ic_", base |-> << A >>,    suf |-> "_12px.svg", len |-> 1, bad |-> FALSE, id |-> 3],
  [pre |-> "ic_", base |-> << A, B >>, suf |-> "_18px.svg", len |-> 1, bad |-> FALSE, id |-> 4],
  [pre |-> "ic_", base |-> << A, B >>, suf |-> "_36px.svg", len |-> 1, bad |-> FALSE, id |-> 5],
  [pre |-> "ic_", base |-> << A, B >>, suf |-> "_20px.svg", len |-> 1, bad |-> FALSE, id |-> 6],
  [pre |-> "im_", base |-> << A >>,    suf |-> "_48px.svg", len |-> 1, bad |-> FALSE, id |-> 7],
  [pre |-> "ic_", base |-> Play,       suf |-> "_48px.svg", len |-> 1, bad |-> FALSE, id |-> 8],
  [pre |-> "ic_", base |-> Play,       suf |-> "_24px.svg", len |-> 1, bad |-> FALSE, id |-> 9],
  [pre |-> "ic_", base |-> << B >>,    suf |-> "_24px.png", len |-> 1, bad |-> FALSE, id |-> 10] }

Cats == { Tok("a", "v"), Tok("m", "aps") }

VARIABLES cat, dir, s
vars == << cat, dir, s >>

Init == /\ cat \in Cats
        /\ dir \in {d \in SUBSET Pool : Cardinality(d) <= MaxEntries}
        /\ s = ScanInit(dir)
Next == \E e \in s.pending : s' = ScanVisit(cat, s, e) /\ UNCHANGED << cat, dir >>
Spec == Init /\ [][Next]_vars

Done == s.pending = {}

Confluent == Done => s.fileOf = Chosen(cat, dir)
SeenOnce  == /\ \A i, j \in 1..Len(s.seen) : i # j => s.seen[i] # s.seen[j]
             /\ {s.seen[i] : i \in 1..Len(s.seen)} = DOMAIN s.fileOf
OnlyEligible == \A b \in DOMAIN s.fileOf : /\ s.fileOf[b] \in dir /\ Eligible(cat, s.fileOf[b]) /\ s.fileOf[b].base = b
(* monotone: a selected size never decreases *)
Grows == [][\A b \in DOMAIN s.fileOf : b \in DOMAIN s'.fileOf /\ SizeOf(s'.fileOf[b].suf) >= SizeOf(s.fileOf[b].suf)]_vars
(* the duplicate is dropped in av only *)
SkipRule == Done => \A b \in DOMAIN s.fileOf :
              (EName(s.fileOf[b]) = "ic_play_circle_filled_white_48px.svg") => Str(cat) # "av"
(* the names of the pool denote what they are meant to *)
ASSUME BaseName(Play) = "play_circle_filled_white"
ASSUME VarName(Tok("a", "v"), << Tok("3", "d"), Tok("r", "otation") >>) = "AV3DRotation"
ASSUME VarName(Tok("m", "aps"), << Tok("l", "ocal"), Tok("a", "tm") >>) = "MapsLocalATM"
ASSUME VarName(Tok("d", "evice"), << Tok("s", "ignal"), Tok("w", "ifi"), Tok("4", ""), Tok("b", "ar") >>) = "DeviceSignalWiFi4Bar"
ASSUME VarName(Tok("a", "ction"), << Tok("Z", "ed"), Tok("4", "k") >>) = "ActionZed4k"
=============================================================================
