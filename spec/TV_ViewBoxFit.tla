---------------------------- MODULE TV_ViewBoxFit ----------------------------
(***************************************************************************)
(* Trace validation of ivg.ViewBox.AspectMeet / AspectSlice / Size (C12)   *)
(* against ViewBoxFit.tla.  Independent events:                            *)
(*  fit : {kind, vb4, e1, d4, e2, a4, vb, d, a, got}: the viewBox is       *)
(*        vb4/4 * 2^e1, the target d4/4 * 2^e2, alignments a4/4 (the float *)
(*        arguments actually passed are vb, d, a and are checked against   *)
(*        that description); got = the four float32 results.  A power of   *)
(*        two commutes exactly with every float operation involved, so the *)
(*        expected result is the rational result for the integers, times   *)
(*        2^e2; tolerance 2^-20 of the larger of target and result size.   *)
(*  size: {vb4, e1, vb, got}: Size = max - min, exact.                     *)
(*  rand: arbitrary float32 sizes with alignment 0 or 1: only the ordering *)
(*        part (inside / covers, touches one side) within 16 ulp.          *)
(***************************************************************************)
EXTENDS ViewBoxFit, F32, TLC, Json, IOUtils

Trace == ndJsonDeserialize(IOEnv.VERIF_TRACE)
VARIABLE l
vars == << l >>

InputsOK(ev) ==
  /\ \A i \in 1..4 : ev.vb[i] = OfScaledAny(ev.vb4[i], 2 - ev.e1)
  /\ \A i \in 1..2 : ev.d[i] = OfScaled(ev.d4[i], 2 - ev.e2) /\ ev.a[i] = OfScaled(ev.a4[i], 2)

(* floor(n * 2^q / d) for 0 <= |n|, d > 0, staged to stay below 2^31 *)
RECURSIVE FracDiv(_, _, _)
FracDiv(r, d, q) ==                        \* floor(r * 2^q / d) for 0 <= r < d < 2^18, in steps of 12 bits
  IF q <= 12 THEN (r * Pow2(q)) \div d
  ELSE LET t == r * 4096 IN (t \div d) * Pow2(q - 12) + FracDiv(t % d, d, q - 12)
ScaleDiv(n, d, q) == (n \div d) * Pow2(q) + FracDiv(n % d, d, q)

JudgeFit(ev) ==
  IF ~InputsOK(ev) THEN "hint"
  ELSE
  LET vw == ev.vb4[3] - ev.vb4[1]   vh == ev.vb4[4] - ev.vb4[2]
      f  == Fit(vw, vh, ev.d4[1], ev.d4[2], ev.a4[1], ev.a4[2], ev.kind = "meet")
      big == Max2(Max2(ev.d4[1], ev.d4[2]) * f.d, Max2(Abs(f.maxX - f.minX), Abs(f.maxY - f.minY)))
      \* magnitudes in quarter target units: |coordinate| <= big / f.d
      L  == Log2((big \div f.d) + 1) + 1
      Q  == Min2(20, 27 - L)
      want == << ScaleDiv(f.minX, f.d, Q), ScaleDiv(f.minY, f.d, Q), ScaleDiv(f.maxX, f.d, Q), ScaleDiv(f.maxY, f.d, Q) >>
      tol == ((big \div f.d) + 1) \div Pow2(20 - Q) + 2
      got == [i \in 1..4 |-> FloorScaled(ev.got[i], Q + 2 - ev.e2)] IN
  IF \A i \in 1..4 : got[i].ok /\ Abs(got[i].k - want[i]) <= tol THEN "ok"
  ELSE "placement differs from the rational model"

(* fit10 (round 10): sizes that are not dyadic - tenths of a unit, n/10 rounded to float32 (the arguments must be exactly  *)
(* DivRN(n, 10)).  The expected rectangle is the rational one for the integers n, in real units (denominator 10 f.d); the  *)
(* arguments carry a relative rounding error of 2^-24 each, far inside the 2^-20 tolerance of the larger of target and     *)
(* result size.  This is where float32 results land one unit in the last place beyond the target.                          *)
JudgeFit10(ev) ==
  IF ~(/\ IsZero(ev.vb[1]) /\ IsZero(ev.vb[2]) /\ ev.vb[3] = DivRN(ev.n4[1], 10) /\ ev.vb[4] = DivRN(ev.n4[2], 10)
       /\ ev.d[1] = DivRN(ev.n4[3], 10) /\ ev.d[2] = DivRN(ev.n4[4], 10)
       /\ \A i \in 1..2 : ev.a[i] = OfScaled(ev.a4[i], 2)
       /\ \A i \in 1..4 : ev.n4[i] >= 1 /\ ev.n4[i] <= 4000) THEN "hint"
  ELSE
  LET f  == Fit(ev.n4[1], ev.n4[2], ev.n4[3], ev.n4[4], ev.a4[1], ev.a4[2], ev.kind = "meet")
      D  == f.d * 10
      big == Max2(Max2(ev.n4[3], ev.n4[4]) * f.d, Max2(Abs(f.maxX - f.minX), Abs(f.maxY - f.minY)))
      L  == Log2((big \div D) + 1) + 1
      Q  == Min2(20, 27 - L)
      want == << ScaleDiv(f.minX, D, Q), ScaleDiv(f.minY, D, Q), ScaleDiv(f.maxX, D, Q), ScaleDiv(f.maxY, D, Q) >>
      tol == ((big \div D) + 1) \div Pow2(20 - Q) + 2
      got == [i \in 1..4 |-> FloorScaled(ev.got[i], Q)] IN
  IF D >= 262144 THEN "hint"
  ELSE IF \A i \in 1..4 : got[i].ok /\ Abs(got[i].k - want[i]) <= tol THEN "ok"
  ELSE "placement differs from the rational model (tenths)"

JudgeSize(ev) ==
  IF ~(\A i \in 1..4 : ev.vb[i] = OfScaledAny(ev.vb4[i], 2 - ev.e1)) THEN "hint"
  ELSE IF /\ ev.got[1] = OfScaledAny(ev.vb4[3] - ev.vb4[1], 2 - ev.e1)
          /\ ev.got[2] = OfScaledAny(ev.vb4[4] - ev.vb4[2], 2 - ev.e1) THEN "ok"
  ELSE "Size is not max minus min"

Close(a, b) == Sign(a) = Sign(b) /\ UlpDist(a, b) <= 16
NonNegish(a) == Sign(a) = 0 \/ IsZero(a) \/ Exp(a) < 80          \* >= 0 up to rounding dust
JudgeRand(ev) ==
  LET g == ev.got  dx == ev.d[1]  dy == ev.d[2]  meet == ev.kind = "meet" IN
  IF \E i \in 1..4 : ~IsFinite(g[i]) THEN "non-finite result for finite positive sizes"
  ELSE IF ev.a4 = << 0, 0 >> THEN
     \* minima aligned: min = 0, max = size
     IF ~(IsZero(g[1]) /\ IsZero(g[2])) THEN "alignment 0 does not align the minima"
     ELSE IF meet /\ ~((Le(g[3], dx) \/ Close(g[3], dx)) /\ (Le(g[4], dy) \/ Close(g[4], dy))) THEN "meet exceeds the target"
     ELSE IF ~meet /\ ~((Ge(g[3], dx) \/ Close(g[3], dx)) /\ (Ge(g[4], dy) \/ Close(g[4], dy))) THEN "slice does not cover the target"
     ELSE IF ~(Close(g[3], dx) \/ Close(g[4], dy)) THEN "neither dimension equals the target"
     ELSE "ok"
  ELSE
     \* maxima aligned: max = target
     IF meet /\ ~(NonNegish(g[1]) /\ NonNegish(g[2])) THEN "meet starts before the target"
     ELSE "ok"

Judge(ev) == CASE ev.ev = "fit10" -> JudgeFit10(ev) [] ev.ev = "fit" -> JudgeFit(ev) [] ev.ev = "size" -> JudgeSize(ev)
               [] ev.ev = "rand" -> JudgeRand(ev) [] OTHER -> "unknown event"
Init == l \in 1..Len(Trace)
Next == FALSE /\ UNCHANGED vars
Spec == Init /\ [][Next]_vars
Checked ==
  LET j == Judge(Trace[l]) IN
  \/ j = "ok"
  \/ PrintT(ToJson([diag |-> IF j = "hint" THEN "hint" ELSE "reject", what |-> j, line |-> l, ev |-> Trace[l]]))
=============================================================================
