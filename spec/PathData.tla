------------------------------- MODULE PathData -------------------------------
(***************************************************************************)
(* SVG path-data front ends (property C20): what a path string *means* as  *)
(* Destination calls, for the two dialects the library supports:           *)
(*   "gen"  generate.Generator.SetPathData  (verbs MmLlHhVvCcSsQqTtAa,     *)
(*          configured scale-and-translate transform)                      *)
(*   "md"   mdicons.ParsePathData / ParsePath / ParseFile (verbs           *)
(*          MmLlHhVvCcSsQqTtZz, (size, offset, outSize) normalisation)     *)
(* A path is an abstract list of commands [v |-> verb, g |-> number of     *)
(* operand groups]; the numbers are drawn from a table by their running    *)
(* index, each with a spelling and an exact dyadic value k * 2^-q.         *)
(*   Spell(...)    the string a front end is given                         *)
(*   Meaning(...)  the calls it must make: the first move starts the path  *)
(*                 with the given ADJ, later moves close-and-move, operand *)
(*                 groups after M/m without a verb are lines, a verb's     *)
(*                 groups may repeat, exactly one ClosePathEndPath.        *)
(* Transform T = [sx, sy, tx, ty] with dyadic entries <<k, q>>: absolute   *)
(* operands get the full transform, relative operands the scale only, arc  *)
(* radii the scale, flags unchanged, rotation degrees / 360.               *)
(***************************************************************************)
EXTENDS F32

(* spelled numbers: text, value k * 2^-q *)
Nums == << [t |-> "0", k |-> 0, q |-> 0],     [t |-> "5", k |-> 5, q |-> 0],
           [t |-> "-5", k |-> -5, q |-> 0],   [t |-> ".5", k |-> 1, q |-> 1],
           [t |-> "-.25", k |-> -1, q |-> 2], [t |-> "+3", k |-> 3, q |-> 0],
           [t |-> "12.75", k |-> 51, q |-> 2],[t |-> "10", k |-> 10, q |-> 0],
           [t |-> "-7.5", k |-> -15, q |-> 1],[t |-> "0.125", k |-> 1, q |-> 3],
           [t |-> "2", k |-> 2, q |-> 0],     [t |-> "-1", k |-> -1, q |-> 0],
           [t |-> "8.0", k |-> 8, q |-> 0] >>
Radii == << [t |-> "4", k |-> 4, q |-> 0], [t |-> "2.5", k |-> 5, q |-> 1], [t |-> "16", k |-> 16, q |-> 0] >>
Degs  == << [t |-> "0", k |-> 0], [t |-> "90", k |-> 90], [t |-> "45", k |-> 45], [t |-> "-30", k |-> -30],
            [t |-> "200", k |-> 200] >>
Flags == << [t |-> "0", k |-> 0], [t |-> "1", k |-> 1] >>

NArg(v) == CASE v \in {"H", "h", "V", "v"} -> 1
             [] v \in {"M", "m", "L", "l", "T", "t"} -> 2
             [] v \in {"Q", "q", "S", "s"} -> 4
             [] v \in {"C", "c"} -> 6
             [] v \in {"A", "a"} -> 7
             [] OTHER -> 0
IsRel(v) == v \in {"m", "l", "h", "v", "c", "s", "q", "t", "a"}

(* the j-th operand (1-based) of a group of verb v, where i is the running number index and salt varies the table walk *)
NumTok(v, j, i, salt) ==
  IF v \in {"A", "a"} /\ j \in {1, 2} THEN Radii[((i + salt) % 3) + 1]
  ELSE IF v \in {"A", "a"} /\ j = 3 THEN [t |-> Degs[((i + salt) % 5) + 1].t, k |-> Degs[((i + salt) % 5) + 1].k, q |-> 0]
  ELSE IF v \in {"A", "a"} /\ j \in {4, 5} THEN [t |-> Flags[((i + salt) % 2) + 1].t, k |-> Flags[((i + salt) % 2) + 1].k, q |-> 0]
  ELSE Nums[((i * 7 + salt) % 13) + 1]

-----------------------------------------------------------------------------
(* Spelling.  sep: 1 spaces, 2 commas, 3 nothing before a sign or a dot (else a space).  *)
(* dialect "md" with sep = 1 also puts a space after every verb letter.                  *)
LeadSign(tok) == tok.k < 0 \/ tok.t = "+3"
LeadDot(tok)  == tok.t = ".5"
HasDot(tok)   == tok.t \in {".5", "-.25", "12.75", "-7.5", "0.125", "8.0", "2.5"}
(* style 3: no separator when the next number's own sign ends the previous one, or its leading *)
(* dot does because the previous number already contains a dot                                 *)
Sep(sep, prevTok, nextTok) ==
  IF sep = 1 THEN " " ELSE IF sep = 2 THEN ","
  ELSE IF LeadSign(nextTok) \/ (LeadDot(nextTok) /\ HasDot(prevTok)) THEN "" ELSE " "

RECURSIVE SpellNums(_, _, _, _, _, _)
(* operands j..n of one group; the separator before operand 1 is written by SpellGroups *)
SpellNums(v, j, n, i, salt, sep) ==
  IF j > n THEN ""
  ELSE LET tk == NumTok(v, j, i, salt) IN
       (IF j = 1 THEN "" ELSE Sep(sep, NumTok(v, j - 1, i - 1, salt), tk)) \o tk.t \o SpellNums(v, j + 1, n, i + 1, salt, sep)

RECURSIVE SpellGroups(_, _, _, _, _, _)
SpellGroups(v, g, ng, i, salt, sep) ==
  IF g > ng THEN ""
  ELSE (IF g = 1 THEN "" ELSE Sep(sep, NumTok(v, NArg(v), i - 1, salt), NumTok(v, 1, i, salt)))
       \o SpellNums(v, 1, NArg(v), i, salt, sep) \o SpellGroups(v, g + 1, ng, i + NArg(v), salt, sep)

RECURSIVE SpellCmds(_, _, _, _, _, _)
SpellCmds(cmds, c, i, salt, sep, dialect) ==
  IF c > Len(cmds) THEN ""
  ELSE LET cm == cmds[c] IN
       \* a later move is spelled as a sub-path join: z directly followed by M/m
       (IF c > 1 /\ cm.v \in {"M", "m"} /\ cm.z THEN "z" ELSE "")
       \o cm.v \o (IF dialect = "md" /\ sep = 1 THEN " " ELSE "")
       \o SpellGroups(cm.v, 1, cm.g, i, salt, sep)
       \o (IF dialect = "md" /\ sep = 1 /\ c < Len(cmds) THEN " " ELSE "")
       \o SpellCmds(cmds, c + 1, i + cm.g * NArg(cm.v), salt, sep, dialect)

Spell(cmds, salt, sep, dialect, trailingZ) ==
  SpellCmds(cmds, 1, 0, salt, sep, dialect) \o (IF trailingZ THEN "z" ELSE "")

-----------------------------------------------------------------------------
(* Values.  A dyadic is <<k, q>> = k * 2^-q; T = [sx, sy, tx, ty] of dyadics. *)
DMul(a, b) == << a[1] * b[1], a[2] + b[2] >>
DAdd(a, b) == IF a[2] >= b[2] THEN << a[1] + b[1] * Pow2(a[2] - b[2]), a[2] >>
                             ELSE << a[1] * Pow2(b[2] - a[2]) + b[1], b[2] >>
DF32(a) == OfScaled(a[1], a[2])
Ident == [sx |-> << 1, 0 >>, sy |-> << 1, 0 >>, tx |-> << 0, 0 >>, ty |-> << 0, 0 >>]
(* composition: apply A first, then B (generate.Concat order) *)
Compose(A, B) == [sx |-> DMul(A.sx, B.sx), sy |-> DMul(A.sy, B.sy),
                  tx |-> DAdd(DMul(A.tx, B.sx), B.tx), ty |-> DAdd(DMul(A.ty, B.sy), B.ty)]
ConcatAll(ts) == IF Len(ts) = 0 THEN Ident
                 ELSE LET RECURSIVE go(_, _)
                          go(acc, i) == IF i > Len(ts) THEN acc ELSE go(Compose(acc, ts[i]), i + 1)
                      IN go(Ident, 1)

TX(T, x, rel) == IF rel THEN DMul(x, T.sx) ELSE DAdd(DMul(x, T.sx), T.tx)
TY(T, y, rel) == IF rel THEN DMul(y, T.sy) ELSE DAdd(DMul(y, T.sy), T.ty)

MkCall(op, adj, fs, fl) == [op |-> op, adj |-> adj, f |-> fs, fl |-> fl]

OpName(v) ==
  CASE v = "L" -> "AbsLineTo" [] v = "l" -> "RelLineTo" [] v = "H" -> "AbsHLineTo" [] v = "h" -> "RelHLineTo"
    [] v = "V" -> "AbsVLineTo" [] v = "v" -> "RelVLineTo" [] v = "T" -> "AbsSmoothQuadTo" [] v = "t" -> "RelSmoothQuadTo"
    [] v = "Q" -> "AbsQuadTo" [] v = "q" -> "RelQuadTo" [] v = "S" -> "AbsSmoothCubeTo" [] v = "s" -> "RelSmoothCubeTo"
    [] v = "C" -> "AbsCubeTo" [] v = "c" -> "RelCubeTo" [] v = "A" -> "AbsArcTo" [] v = "a" -> "RelArcTo"
    [] v = "M" -> "ClosePathAbsMoveTo" [] v = "m" -> "ClosePathRelMoveTo"

(* the call for one operand group of verb v (as emitted verb e: lines after a move) *)
GroupCall(e, v, i, salt, T, first, adj) ==
  LET n(j) == LET tk == NumTok(v, j, i + j - 1, salt) IN << tk.k, tk.q >>
      rel == IsRel(e) /\ ~first
      xy(jx, jy) == << DF32(TX(T, n(jx), rel)), DF32(TY(T, n(jy), rel)) >> IN
  IF first THEN MkCall("StartPath", adj, xy(1, 2), << >>)
  ELSE CASE e \in {"H", "h"} -> MkCall(OpName(e), 0, << DF32(TX(T, n(1), rel)) >>, << >>)
         [] e \in {"V", "v"} -> MkCall(OpName(e), 0, << DF32(TY(T, n(1), rel)) >>, << >>)
         [] e \in {"A", "a"} ->
              MkCall(OpName(e), 0,
                     << DF32(DMul(n(1), T.sx)), DF32(DMul(n(2), T.sy)),
                        (IF n(3)[1] >= 0 THEN DivRN(n(3)[1], 360) ELSE Neg(DivRN(-n(3)[1], 360))) >> \o xy(6, 7),
                     << n(4)[1], n(5)[1] >>)
         [] NArg(e) = 2 -> MkCall(OpName(e), 0, xy(1, 2), << >>)
         [] NArg(e) = 4 -> MkCall(OpName(e), 0, xy(1, 2) \o xy(3, 4), << >>)
         [] NArg(e) = 6 -> MkCall(OpName(e), 0, xy(1, 2) \o xy(3, 4) \o xy(5, 6), << >>)

RECURSIVE GroupsMeaning(_, _, _, _, _, _, _, _)
GroupsMeaning(v, g, ng, i, salt, T, first, adj) ==
  IF g > ng THEN << >>
  ELSE LET e == IF g = 1 THEN v ELSE IF v = "M" THEN "L" ELSE IF v = "m" THEN "l" ELSE v IN   \* groups after a move are lines
       << GroupCall(e, v, i, salt, T, first /\ g = 1, adj) >>
       \o GroupsMeaning(v, g + 1, ng, i + NArg(v), salt, T, first, adj)

RECURSIVE CmdsMeaning(_, _, _, _, _, _)
CmdsMeaning(cmds, c, i, salt, T, adj) ==
  IF c > Len(cmds) THEN << >>
  ELSE GroupsMeaning(cmds[c].v, 1, cmds[c].g, i, salt, T, c = 1, adj)
       \o CmdsMeaning(cmds, c + 1, i + cmds[c].g * NArg(cmds[c].v), salt, T, adj)

Meaning(cmds, salt, T, adj) ==
  CmdsMeaning(cmds, 1, 0, salt, T, adj) \o << MkCall("ClosePathEndPath", 0, << >>, << >>) >>

(* the converter's normalisation as a transform: scale = outSize/size, then subtract outSize/2 + offset *)
MdTransform(scale, half, offx, offy) ==
  [sx |-> scale, sy |-> scale,
   tx |-> DAdd(<< -half[1], half[2] >>, << -offx[1], offx[2] >>),
   ty |-> DAdd(<< -half[1], half[2] >>, << -offy[1], offy[2] >>)]

WellFormedPath(cmds, dialect) ==
  /\ Len(cmds) >= 1 /\ cmds[1].v \in (IF dialect = "gen" THEN {"M", "m"} ELSE {"M"})
  /\ \A c \in 1..Len(cmds) :
       /\ cmds[c].g >= 1
       /\ (dialect = "md" => cmds[c].v \notin {"A", "a"})
       /\ (dialect = "md" /\ cmds[c].v \in {"M", "m"} => cmds[c].g = 1)      \* repeats only after non-move verbs
       /\ (c > 1 /\ cmds[c].v \in {"M", "m"} /\ dialect = "gen" => cmds[c].z)  \* sub-paths joined as zM / zm
=============================================================================
