----------------------------- MODULE TV_Gradient -----------------------------
(***************************************************************************)
(* Trace validation of gradient paint (property C15) against               *)
(* GradientPaint.tla.  Independent events, one initial state per line:     *)
(*  pix : a real gradient image (render.Gradient, built directly or handed *)
(*        to Rasterizer.Draw by a real Renderer) evaluated at an integer   *)
(*        pixel: {shape, spread, stops:[{c,o}], m:[6 x [exact,k,q]], x, y, *)
(*        got:[r,g,b,a 16 bit]} -- m is the pixel->gradient matrix the     *)
(*        image itself reports (GradientConfig.Transform)                  *)
(*  cfg : the pixel->gradient matrix a real Renderer built from the number *)
(*        registers, the viewBox and the target rectangle: {vb, rect,      *)
(*        nreg:[6 F32], m:[6 x [exact,k,q]]}                               *)
(* Everything is decided in exact dyadic arithmetic; events whose data is  *)
(* off the lattice are reported as "unjudged" (not violations).            *)
(***************************************************************************)
EXTENDS GradientPaint, F32, Big, TLC, Json, IOUtils

Trace == ndJsonDeserialize(IOEnv.VERIF_TRACE)
Has(r, f) == f \in DOMAIN r
VARIABLE l
vars == << l >>

(* matrix entry [exact, k, q] = k * 2^-q  ->  value in units of 2^-13, or "none" *)
M13(d) == IF d[1] = 1 /\ d[3] >= 0 /\ d[3] <= 13 /\ Abs(d[2]) <= 262144 \div Pow2(13 - d[3])
            THEN [ok |-> TRUE, v |-> d[2] * Pow2(13 - d[3])] ELSE [ok |-> FALSE, v |-> 0]

(* a translation [1, k, q] with q < 0 is k * 2^-q, an even integer; with |k| >= 2^20 (or q <= -20) its   *)
(* magnitude is >= 2^20, far beyond every other term -- it decides on which side of [0,1] the offset   *)
(* lies and is invisible modulo 2                                                                      *)
Far(c) == IF c[1] = 1 /\ c[3] < 0 /\ (Abs(c[2]) >= 1048576 \/ (c[3] <= -20 /\ c[2] # 0))
          THEN (IF c[2] > 0 THEN 1 ELSE -1) ELSE 0

(* gradient-space coordinate of row (a, b, c) at pixel centre (x + 1/2, y + 1/2), units 2^-12;        *)
(* far # 0: v is the coordinate modulo the far translation                                             *)
Row12(a, b, c, x, y) ==
  LET A == M13(a)  Bb == M13(b)  C == IF Far(c) # 0 THEN [ok |-> TRUE, v |-> 0] ELSE M13(c) IN
  IF ~(A.ok /\ Bb.ok /\ C.ok) \/ Abs(x) > 2000 \/ Abs(y) > 2000 THEN [ok |-> FALSE, v |-> 0, far |-> 0]
  ELSE LET g26 == A.v * (2 * x + 1) + Bb.v * (2 * y + 1) + 2 * C.v IN     \* units of 2^-14
       IF g26 % 4 = 0 /\ Abs(g26 \div 4) <= 40000 THEN [ok |-> TRUE, v |-> g26 \div 4, far |-> Far(c)]
       ELSE [ok |-> FALSE, v |-> 0, far |-> 0]

(* the same coordinate in units of 2^-14, without the requirement that it falls on the 2^-12 grid *)
Row14(a, b, c, x, y) ==
  LET A == M13(a)  Bb == M13(b)  C == M13(c) IN
  IF ~(A.ok /\ Bb.ok /\ C.ok) \/ Abs(x) > 2000 \/ Abs(y) > 2000 THEN [ok |-> FALSE, v |-> 0]
  ELSE [ok |-> TRUE, v |-> A.v * (2 * x + 1) + Bb.v * (2 * y + 1) + 2 * C.v]
(* the coordinate in units of 2^-12 without the magnitude bound of Row12 (for the whole-unit radial case) *)
RowBig(a, b, c, x, y) ==
  LET A == M13(a)  Bb == M13(b)  C == M13(c) IN
  IF ~(A.ok /\ Bb.ok /\ C.ok) \/ Abs(x) > 2000 \/ Abs(y) > 2000 THEN [ok |-> FALSE, v |-> 0]
  ELSE LET g26 == A.v * (2 * x + 1) + Bb.v * (2 * y + 1) + 2 * C.v IN
       IF g26 % 4 = 0 THEN [ok |-> TRUE, v |-> g26 \div 4] ELSE [ok |-> FALSE, v |-> 0]
FlatStops(ev) == \A i \in 1..Len(ev.stops) : ev.stops[i].c = ev.stops[1].c

(* spread rules for an offset v + (far translation) *)
FarClamp(spread, v, far) ==
  CASE spread = 1 -> IF far < 0 THEN 0 ELSE T12
    [] spread = 2 -> Reflect(v)
    [] spread = 3 -> Mod(v, T12)
    [] OTHER -> -1

Stops12(ev) ==
  [i \in 1..Len(ev.stops) |-> [c |-> ev.stops[i].c, o |-> AsScaled(ev.stops[i].o, 12).k]]
StopsOnGrid(ev) == \A i \in 1..Len(ev.stops) : AsScaled(ev.stops[i].o, 12).ok

IsPow2(n) == \E j \in 0..12 : n = Pow2(j)

(* tolerance of one 16-bit unit unless the interpolation parameter is dyadic (then exact); at a stop's own offset the *)
(* parameter is 0 or 1 whatever the width ("at a stop's offset the colour is that stop's colour"): exact             *)
Slack(stops, u) ==
  LET i == FindRange(stops, u, 1) IN
  IF u < 0 \/ u < stops[1].o \/ i = 0 THEN 0
  ELSE IF u = stops[i].o \/ u = stops[i + 1].o THEN 0
  ELSE IF IsPow2(stops[i + 1].o - stops[i].o) THEN 0 ELSE 1

Premul(c) == c[1] <= c[4] /\ c[2] <= c[4] /\ c[3] <= c[4]

(* "ok" | "unjudged" | reason *)
JudgePix(ev) ==
  IF Len(ev.stops) < 2 \/ ~StopsOnGrid(ev) THEN "unjudged"
  ELSE
  LET S  == Stops12(ev)
      gx == Row12(ev.m[1], ev.m[2], ev.m[3], ev.x, ev.y)
      gy == Row12(ev.m[4], ev.m[5], ev.m[6], ev.x, ev.y) IN
  IF ~Premul(ev.got) THEN "result is not a premultiplied colour"
  ELSE IF ev.shape = 0 THEN
    IF ~gx.ok THEN
       \* off the 2^-12 grid: a gradient whose stops all carry one colour can still be decided - that colour, or
       \* (spread none, offset outside [0,1]) no colour
       LET g == Row14(ev.m[1], ev.m[2], ev.m[3], ev.x, ev.y) IN
       IF ~(FlatStops(ev) /\ g.ok) THEN "unjudged"
       ELSE LET E == IF ev.spread = 0 /\ (g.v < 0 \/ g.v > 4 * T12) THEN << 0, 0, 0, 0 >>
                     ELSE [ch \in 1..4 |-> C16(ev.stops[1].c[ch])] IN
            IF \A ch \in 1..4 : Abs(ev.got[ch] - E[ch]) <= 1 THEN "ok" ELSE "linear gradient colour (single-colour stops)"
    ELSE LET u == IF gx.far # 0 THEN FarClamp(ev.spread, gx.v, gx.far) ELSE Clamp(ev.spread, gx.v)
             E == IF u = -1 THEN << 0, 0, 0, 0 >> ELSE ColorAt(S, u)
             k == IF u = -1 THEN 0 ELSE Slack(S, u) IN
         IF \A ch \in 1..4 : Abs(ev.got[ch] - E[ch]) <= k THEN "ok" ELSE "linear gradient colour"
  ELSE
    IF ~gx.ok \/ ~gy.ok \/ gx.far # 0 \/ gy.far # 0 \/ Abs(gx.v) > 32000 \/ Abs(gy.v) > 32000 THEN
       \* far from the centre: decided only where both gradient-space coordinates are whole units and the distance is a
       \* whole number too (Pythagorean points): the offset is then exactly that integer
       LET bx == RowBig(ev.m[1], ev.m[2], ev.m[3], ev.x, ev.y)
           by == RowBig(ev.m[4], ev.m[5], ev.m[6], ev.x, ev.y) IN
       IF ~(bx.ok /\ by.ok /\ bx.v % T12 = 0 /\ by.v % T12 = 0 /\ Abs(bx.v) <= 8192000 /\ Abs(by.v) <= 8192000) THEN "unjudged"
       ELSE LET X == bx.v \div T12   Y == by.v \div T12
                N == X * X + Y * Y
                R == ISqrt(N) IN
            IF R * R # N THEN "unjudged"
            ELSE LET u == IF R = 0 THEN 0 ELSE
                          CASE ev.spread = 1 -> T12
                            [] ev.spread = 2 -> (IF R % 2 = 0 THEN 0 ELSE T12)
                            [] ev.spread = 3 -> (IF R = 1 THEN T12 ELSE 0)
                            [] OTHER -> (IF R = 1 THEN T12 ELSE -1)
                     E == IF u = -1 THEN << 0, 0, 0, 0 >> ELSE ColorAt(S, u) IN
                 IF \A ch \in 1..4 : Abs(ev.got[ch] - E[ch]) <= 0 THEN "ok" ELSE "radial gradient colour (whole-number distance)"
    ELSE LET n  == gx.v * gx.v + gy.v * gy.v
             s  == ISqrt(n)
             u0 == Clamp(ev.spread, s)
             u1 == Clamp(ev.spread, s + 1) IN
         IF s * s = n THEN
            LET E == IF u0 = -1 THEN << 0, 0, 0, 0 >> ELSE ColorAt(S, u0)
                k == IF u0 = -1 THEN 0 ELSE Slack(S, u0) IN
            IF \A ch \in 1..4 : Abs(ev.got[ch] - E[ch]) <= k THEN "ok" ELSE "radial gradient colour (exact distance)"
         ELSE IF u0 = -1 /\ u1 = -1 THEN (IF ev.got = << 0, 0, 0, 0 >> THEN "ok" ELSE "radial gradient colour (outside)")
         ELSE IF u0 = -1 \/ u1 = -1 \/ Abs(u1 - u0) # 1 THEN "unjudged"
         ELSE LET E0 == ColorAt(S, u0)  E1 == ColorAt(S, u1) IN
              IF \A ch \in 1..4 : /\ ev.got[ch] >= (IF E0[ch] < E1[ch] THEN E0[ch] ELSE E1[ch]) - 1
                                  /\ ev.got[ch] <= (IF E0[ch] > E1[ch] THEN E0[ch] ELSE E1[ch]) + 1
                THEN "ok" ELSE "radial gradient colour (bracket)"

(* ---- pixel->gradient matrix composition ---- *)
(* normalised dyadic <<odd part, exponent>> of k * 2^-q *)
RECURSIVE NormD(_, _)
NormD(k, q) == IF k = 0 THEN << 0, 0 >> ELSE IF k % 2 = 0 THEN NormD(k \div 2, q - 1) ELSE << k, q >>

(* Scales that are not powers of two: the reciprocal is not a binary fraction, so the composed matrix is rounded.  Where *)
(* the scale N / D (pixels per unit) is itself a float32 (its reduced denominator is a power of two: 3, 5, 2.5, 3.75 ..) *)
(* the linear entries are decided with a tolerance: m64 reports each entry exactly as sign, exponent and five 12-bit    *)
(* limbs of the float64 significand, and  | m' * N - a * D |  <=  2^-40 * | a * D |  (float64 evaluation errs by 2^-52;  *)
(* a reciprocal taken in float32 errs by 2^-25).  a = ka * 2^-16.                                                       *)
JudgeCfg(ev) ==
  LET a  == [i \in 1..6 |-> AsScaled(ev.nreg[i], 16)]
      v  == [i \in 1..4 |-> AsScaled(ev.vb[i], 6)]
      dx == ev.rect[3] - ev.rect[1]   dy == ev.rect[4] - ev.rect[2]
      wx == v[3].k - v[1].k           wy == v[4].k - v[2].k
      lat == /\ \A i \in 1..6 : a[i].ok /\ Abs(a[i].k) <= (IF i \in {3, 6} THEN 4194304 ELSE 65536)   \* |linear| <= 1, |translation| <= 64
             /\ \A i \in 1..4 : v[i].ok /\ Abs(v[i].k) <= 8192
             /\ wx > 0 /\ wy > 0 /\ dx > 0 /\ dy > 0
             /\ (dx * 64) % wx = 0 /\ (dy * 64) % wy = 0 /\ IsPow2((dx * 64) \div wx) /\ IsPow2((dy * 64) \div wy)
             /\ \A i \in 1..6 : ev.m[i][1] = 1
  IN IF ev.sp # << 0, 0 >> THEN "the gradient image is not aligned with the target rectangle's corner (source point)"
     ELSE IF ~lat THEN
          \* not a power of two in some axis: the linear part within the float64 tolerance, where the scale is a float32
          IF /\ Has(ev, "m64") /\ \A i \in 1..6 : a[i].ok /\ Abs(a[i].k) <= 65536
             /\ \A i \in 1..4 : v[i].ok /\ Abs(v[i].k) <= 8192
             /\ wx > 0 /\ wy > 0 /\ dx > 0 /\ dy > 0 /\ dx <= 4096 /\ dy <= 4096
             /\ Dyadic(dx * 64, wx) /\ Dyadic(dy * 64, wy)
             /\ \A i \in {1, 2, 4, 5} : ev.m64[i][1] \in {0, 1}
          THEN IF /\ LinNear(ev.m64[1], a[1].k, dx * 64, wx) /\ LinNear(ev.m64[4], a[4].k, dx * 64, wx)
                  /\ LinNear(ev.m64[2], a[2].k, dy * 64, wy) /\ LinNear(ev.m64[5], a[5].k, dy * 64, wy)
               THEN "ok" ELSE "pixel-to-gradient matrix: linear part is not M scaled by the units-per-pixel (beyond float64 rounding)"
          ELSE "unjudged"
     ELSE LET jx == Log2((dx * 64) \div wx)                 \* scale = 2^jx pixels per unit
              jy == Log2((dy * 64) \div wy)
              \* a * 2^-16 / 2^jx ; c - a*zBX - b*zBY with zB = -min (1/64): (c*64 + a*minx + b*miny) * 2^-22
              want == << NormD(a[1].k, 16 + jx), NormD(a[2].k, 16 + jy),
                         NormD(a[3].k * 64 + a[1].k * v[1].k + a[2].k * v[2].k, 22),
                         NormD(a[4].k, 16 + jx), NormD(a[5].k, 16 + jy),
                         NormD(a[6].k * 64 + a[4].k * v[1].k + a[5].k * v[2].k, 22) >> IN
          IF \A i \in 1..6 : NormD(ev.m[i][2], ev.m[i][3]) = want[i] THEN "ok"
          ELSE "pixel-to-gradient matrix is not M composed with the pixel-to-viewBox map"

(* pixr: a pixel of whatever image a real Renderer handed to Draw for a gradient paint, when that image does not     *)
(* report a gradient configuration of its own: the expected configuration is composed here from the registers.      *)
JudgePixR(ev) ==
  LET a  == [i \in 1..6 |-> AsScaled(ev.nreg[i], 16)]
      v  == [i \in 1..4 |-> AsScaled(ev.vb[i], 6)]
      dx == ev.rect[3] - ev.rect[1]   dy == ev.rect[4] - ev.rect[2]
      wx == v[3].k - v[1].k           wy == v[4].k - v[2].k
      lat == /\ \A i \in 1..6 : a[i].ok /\ Abs(a[i].k) <= (IF i \in {3, 6} THEN 4194304 ELSE 65536)   \* |linear| <= 1, |translation| <= 64
             /\ \A i \in 1..4 : v[i].ok /\ Abs(v[i].k) <= 8192
             /\ wx > 0 /\ wy > 0 /\ dx > 0 /\ dy > 0
             /\ (dx * 64) % wx = 0 /\ (dy * 64) % wy = 0 /\ IsPow2((dx * 64) \div wx) /\ IsPow2((dy * 64) \div wy)
  IN IF ~lat THEN "unjudged"
     ELSE LET jx == Log2((dx * 64) \div wx)
              jy == Log2((dy * 64) \div wy)
              want == << NormD(a[1].k, 16 + jx), NormD(a[2].k, 16 + jy),
                         NormD(a[3].k * 64 + a[1].k * v[1].k + a[2].k * v[2].k, 22),
                         NormD(a[4].k, 16 + jx), NormD(a[5].k, 16 + jy),
                         NormD(a[6].k * 64 + a[4].k * v[1].k + a[5].k * v[2].k, 22) >>
              D(w) == IF w[2] < 0 THEN (IF w[2] >= -10 THEN << 1, w[1] * Pow2(-w[2]), 0 >> ELSE << 0, 0, 0 >>)
                      ELSE << 1, w[1], w[2] >>
              j == JudgePix([ev EXCEPT !.ev = "pix"] @@ [m |-> [i \in 1..6 |-> D(want[i])]]) IN
          IF j \in {"ok", "unjudged"} THEN j ELSE "image handed to Draw for a gradient paint: " \o j

(* hard edges (round 10): stops whose offsets are neighbouring float32 numbers (far below the 2^-12 grid of JudgePix) and *)
(* a linear gradient whose pixel centres fall exactly on them.  Offsets in units of 2^-27: the matrix row is exact with    *)
(* q <= 26, the stop is an exact float32 in [0,1]; "at a stop's own offset the colour is that stop's colour", exactly,      *)
(* however narrow the range below it.  ev.hit names the stop; a pixel that is not on it is a machinery error ("hint").      *)
E27(d) == IF d[1] = 1 /\ d[3] >= 0 /\ d[3] <= 26 /\ Abs(d[2]) < 1073741824 \div Pow2(26 - d[3])
            THEN [ok |-> TRUE, v |-> d[2] * Pow2(26 - d[3])] ELSE [ok |-> FALSE, v |-> 0]
JudgeEdge(ev) ==
  LET A == E27(ev.m[1])  Bb == E27(ev.m[2])  C == E27(ev.m[3])
      so == AsScaled(ev.stops[ev.hit].o, 27) IN
  IF ~(A.ok /\ Bb.ok /\ C.ok /\ so.ok /\ ev.shape = 0 /\ Abs(ev.x) < 16 /\ Abs(ev.y) < 16 /\ Abs(A.v) < 4194304 /\ Abs(Bb.v) < 4194304 /\ Abs(C.v) < 268435456) THEN "hint"
  ELSE LET U == A.v * (2 * ev.x + 1) + Bb.v * (2 * ev.y + 1) + 2 * C.v IN
       IF U # so.k \/ so.k < 0 \/ so.k > 134217728 THEN "hint"
       ELSE IF \A i \in 1..Len(ev.stops) - 1 : LET p == AsScaled(ev.stops[i].o, 27)  n == AsScaled(ev.stops[i + 1].o, 27) IN p.ok /\ n.ok /\ p.k < n.k
            THEN (IF \A ch \in 1..4 : ev.got[ch] = C16(ev.stops[ev.hit].c[ch]) THEN "ok" ELSE "colour at a stop's own offset (hard edge)")
            ELSE "hint"

Judge(ev) == CASE ev.ev = "edge" -> JudgeEdge(ev) [] ev.ev = "pix" -> JudgePix(ev) [] ev.ev = "cfg" -> JudgeCfg(ev) [] ev.ev = "pixr" -> JudgePixR(ev)
               [] ev.ev = "nodraw" -> "a path painted with a valid gradient was not drawn exactly once"
               [] OTHER -> "unknown event"

Init == l \in 1..Len(Trace)
Next == FALSE /\ UNCHANGED vars
Spec == Init /\ [][Next]_vars
Checked ==
  LET j == Judge(Trace[l]) IN
  \/ j = "ok"
  \/ (j = "unjudged" /\ PrintT(ToJson([diag |-> "unjudged", line |-> l])))
  \/ PrintT(ToJson([diag |-> "reject", what |-> j, line |-> l, ev |-> Trace[l]]))
=============================================================================
