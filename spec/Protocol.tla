------------------------------ MODULE Protocol ------------------------------
(***************************************************************************)
(* The styling/drawing protocol of a Destination that produces a stream    *)
(* (property C10), written from the property statement, not from the code. *)
(*                                                                         *)
(* State: "styling" | "drawing" | "failed" plus, when failed, the set of   *)
(* reasons the *first* violating call may be reported with (a single call  *)
(* can break two rules at once; either report is a faithful "first         *)
(* violation").  A zero-value Encoder is in "styling" with the default     *)
(* metadata.  Only reset leaves "failed".                                  *)
(*                                                                         *)
(* Call classes (k):                                                       *)
(*   reset | read (selector / LOD read-back) | bytes | sethires            *)
(*   styling(adj, incr)   SetCSel SetNSel SetLOD have adj = 0, incr = 0    *)
(*   start(adj)           StartPath                                        *)
(*   draw                 any segment / close-and-move operation           *)
(*   end                  ClosePathEndPath                                 *)
(***************************************************************************)
EXTENDS Integers, Sequences, FiniteSets

RDrawInStyling == "iconvg: drawing ops used in styling mode"
RStyleInDrawing == "iconvg: styling ops used in drawing mode"
RBadAdj  == "iconvg: invalid selector adjustment"
RBadIncr == "iconvg: invalid incrementing adjustment"

PInit == [s |-> "styling", why |-> {}]

AdjReasons(adj, incr) ==
  (IF adj > 6 THEN {RBadAdj} ELSE {}) \cup (IF incr = 1 /\ adj # 0 THEN {RBadIncr} ELSE {})

PFail(rs) == [s |-> "failed", why |-> rs]

(* c: [k, adj, incr] *)
PStep(p, c) ==
  IF c.k = "reset" THEN PInit
  ELSE IF p.s = "failed" THEN p
  ELSE CASE c.k \in {"read", "bytes", "sethires"} -> p
         [] c.k = "styling" ->
              IF p.s = "drawing" THEN PFail({RStyleInDrawing} \cup AdjReasons(c.adj, c.incr))
              ELSE IF AdjReasons(c.adj, c.incr) # {} THEN PFail(AdjReasons(c.adj, c.incr))
              ELSE p
         [] c.k = "start" ->
              IF p.s = "drawing" THEN PFail({RStyleInDrawing} \cup AdjReasons(c.adj, 0))
              ELSE IF c.adj > 6 THEN PFail({RBadAdj})
              ELSE [p EXCEPT !.s = "drawing"]
         [] c.k = "draw" -> IF p.s = "styling" THEN PFail({RDrawInStyling}) ELSE p
         [] c.k = "end"  -> IF p.s = "styling" THEN PFail({RDrawInStyling})
                            ELSE [p EXCEPT !.s = "styling"]

(* class of a Destination call record (Decoder.tla's Call shape + op names) *)
ClassOf(call) ==
  CASE call.op = "Reset" -> [k |-> "reset", adj |-> 0, incr |-> 0]
    [] call.op \in {"CSel", "NSel", "LOD"} -> [k |-> "read", adj |-> 0, incr |-> 0]
    [] call.op = "Bytes" -> [k |-> "bytes", adj |-> 0, incr |-> 0]
    [] call.op = "SetHiRes" -> [k |-> "sethires", adj |-> 0, incr |-> 0]
    [] call.op \in {"SetCSel", "SetNSel", "SetLOD"} -> [k |-> "styling", adj |-> 0, incr |-> 0]
    [] call.op \in {"SetCReg", "SetNReg"} -> [k |-> "styling", adj |-> call.adj, incr |-> call.incr]
    [] call.op = "StartPath" -> [k |-> "start", adj |-> call.adj, incr |-> 0]
    [] call.op = "ClosePathEndPath" -> [k |-> "end", adj |-> 0, incr |-> 0]
    [] OTHER -> [k |-> "draw", adj |-> 0, incr |-> 0]
=============================================================================
