-------------------------------- MODULE Fmt --------------------------------
(***************************************************************************)
(* Decimal text of numbers, as Go's fmt prints them - the part of the      *)
(* standard library that the two loggers of the repository (DestLog.tla)   *)
(* rely on.  Everything is exact integer arithmetic on the float32 bit     *)
(* pattern of F32.tla: value(f) = Sig(f) * 2^Ex(f).                        *)
(*                                                                         *)
(*   Fmt2(f)   "%.2f": the exact value rounded to two decimals, ties to    *)
(*             even (a tie needs an odd multiple of 1/8); the sign is      *)
(*             printed even when the rest rounds to zero ("-0.00"); NaN,   *)
(*             +Inf, -Inf.  Integers beyond 2^24 are printed in full (up   *)
(*             to 39 digits) - done on little-endian digit sequences.      *)
(*   FmtG(f)   "%#v" of a float32 = the shortest decimal that reads back   *)
(*             as f.  Modelled on the sub-domain InG where the shortest    *)
(*             decimal is the exact one: quarter-integers below 1000,      *)
(*             integers below 10^6 (from 10^6 on Go switches to the        *)
(*             exponent form), zeros, NaN, infinities.                     *)
(*   Hex(n)    "%#v" of a uint8: 0x0 .. 0xff.                              *)
(***************************************************************************)
EXTENDS Integers, Sequences, TLC, F32

RECURSIVE DblR(_, _)
DblR(ds, c) == IF ds = << >> THEN (IF c = 0 THEN << >> ELSE << c >>)
               ELSE LET t == (2 * Head(ds)) + c IN << t % 10 >> \o DblR(Tail(ds), t \div 10)
RECURSIVE DblN(_, _)
DblN(ds, n) == IF n = 0 THEN ds ELSE DblN(DblR(ds, 0), n - 1)
RECURSIVE DigitsLE(_)
DigitsLE(n) == IF n < 10 THEN << n >> ELSE << n % 10 >> \o DigitsLE(n \div 10)
RECURSIVE StrBE(_)
StrBE(ds) == IF ds = << >> THEN "" ELSE StrBE(Tail(ds)) \o ToString(Head(ds))

Two(n) == IF n < 10 THEN "0" \o ToString(n) ELSE ToString(n)

Fmt2(f) ==
  IF IsNaN(f) THEN "NaN"
  ELSE IF IsInf(f) THEN (IF Sign(f) = 0 THEN "+Inf" ELSE "-Inf")
  ELSE LET s == IF Sign(f) = 1 THEN "-" ELSE ""
           m == Sig(f)
           e == Ex(f)
       IN IF e >= 0 THEN s \o StrBE(DblN(DigitsLE(m), e)) \o ".00"
          ELSE LET k == -e IN
               IF k >= 32 THEN s \o "0.00"                    \* below 2^24 / 2^32 < 0.005
               ELSE LET n  == 100 * m                          \* < 2^31
                        q  == IF k = 31 THEN 0 ELSE n \div Pow2(k)
                        r  == IF k = 31 THEN n ELSE n % Pow2(k)
                        h  == Pow2(k - 1)
                        up == r > h \/ (r = h /\ q % 2 = 1)
                        c  == q + (IF up THEN 1 ELSE 0)
                    IN s \o ToString(c \div 100) \o "." \o Two(c % 100)

Quarter(f) == AsScaled(f, 2)                 \* f * 4 as an integer, when it is one
InG(f) == \/ ~IsFinite(f)
          \/ IsZero(f)
          \/ /\ Quarter(f).ok
             /\ LET k == Abs(Quarter(f).k) IN IF k % 4 = 0 THEN k < 4000000 ELSE k < 4000
FmtG(f) ==
  IF IsNaN(f) THEN "NaN"
  ELSE IF IsInf(f) THEN (IF Sign(f) = 0 THEN "+Inf" ELSE "-Inf")
  ELSE LET s == IF Sign(f) = 1 THEN "-" ELSE ""
           k == Abs(Quarter(f).k)
       IN s \o ToString(k \div 4) \o (CASE k % 4 = 0 -> "" [] k % 4 = 1 -> ".25" [] k % 4 = 2 -> ".5" [] OTHER -> ".75")

HexDig == << "0", "1", "2", "3", "4", "5", "6", "7", "8", "9", "a", "b", "c", "d", "e", "f" >>
Hex(n) == "0x" \o (IF n < 16 THEN HexDig[n + 1] ELSE HexDig[(n \div 16) + 1] \o HexDig[(n % 16) + 1])

RECURSIVE JoinR(_, _)
JoinR(ss, sep) == IF Len(ss) = 0 THEN "" ELSE IF Len(ss) = 1 THEN ss[1] ELSE ss[1] \o sep \o JoinR(Tail(ss), sep)
Join(ss) == JoinR(ss, ", ")
=============================================================================
