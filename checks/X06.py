"""X06 - (beyond the listed properties) generate.Aff3: the affine matrices a Generator is configured with.

Aff3.tla models Translate / Scale / Concat / MulAff3 / SetTransform with six exact dyadic entries and
the operand rules of SetPathData under a general matrix (PathData.tla, property C20, knows scale-and-
translate only): absolute operand pairs get the product of the configured matrices, relative pairs
and arc radii the diagonal only (named deviation RelDiagOnly: under a matrix with off-diagonal
entries the relative verbs do not follow the absolute ones - the model says what the code does),
H/V the matching row with the other coordinate 0, rotation and flags untouched.
GEN_Aff3 (TLC): every list of up to 3 / 4 matrices from a pool of eight (translation, uniform and
non-uniform scale, quarter turn, shear, general, flip, identity): Composition (the product applied to
a point = the matrices applied one after the other), Assoc (any split), IdentNeutral, Collapse
(SetTransform keeps one matrix), DiagRelOK, AbsIsAffine, Untouched; each list is printed with the
expected product, point images and the calls of one path that uses every verb, and replayed on the
real Concat / MulAff3 / Translate / Scale and on Generator.SetTransform + SetPathData (configured by
list, by product, after an earlier SetTransform, and not at all for the empty list).
Not a listed property: a deviation is reported as EXTRA-DEVIATION, never as VIOLATION."""
import json, os
from lib import vlib, deccheck


def run(ctx):
    quick = ctx.tier == "quick"
    ctx.build_harness()
    gen = os.path.join(ctx.tmp, "GEN_Aff3.out")
    g = ctx.tlc("GEN_Aff3", "GEN_Aff3" if quick else "GEN_Aff3_t", timeout=1800, out_file=gen)
    if g["error"] or not g["finished"]:
        raise vlib.Broken("GEN_Aff3 failed (spec-level):\n%s" % vlib.tail(g["out"]))
    ctx.mc.append({k: g[k] for k in ("module", "cfg", "generated", "distinct", "wall_s")})
    mis = os.path.join(ctx.tmp, "aff3.mis")
    p, _ = ctx.run_harness(["replay-aff3", "-in", gen, "-out", mis], timeout=3000)
    s = deccheck.summary_of(p)
    if s["cases"] < 500 or s["steps"] < 5000:
        raise vlib.Broken("too few generated cases: %d (%d comparisons)" % (s["cases"], s["steps"]))
    for line in open(mis):
        m = json.loads(line)
        ctx.violation("aff3:%s:%s" % (m["route"], m["ix"]),
                      "generate differs from Aff3.tla (%s, matrices %s): %s" % (m["route"], m["ix"], m["what"]), m)
    cov = dict(states=g["distinct"], transitions=g["generated"], traces_validated_against_impl=s["cases"],
               lists=s["cases"], comparisons=s["steps"], routes=s["routes"], exhaustive=True)
    return vlib.finish(ctx, "model_checking", cov, [
        "entries and operands are small dyadic numbers, so the float32 arithmetic of the code is exact and the comparison is equality",
        "one path string (every verb of the generator dialect once); spelling variety is C20's business"])
