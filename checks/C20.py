"""C20 - SVG path-data front ends emit the path they were given, transformed.

PathData.tla defines, for abstract paths (verb + operand groups, numbers from a spelled table of
exact dyadic values), the string a front end is given (Spell: spaces / commas / nothing-before-
sign-or-dot, sub-path joins zM / zm, final z) and the calls it must make (Meaning: first move ->
StartPath(adj), later moves close-and-move, groups after M/m are lines, implicit repeats, exactly
one ClosePathEndPath; absolute operands full transform, relative operands scale only, arc radii
scaled, flags unchanged, rotation degrees/360 by correctly rounded float32 division; Concat =
composition).  GEN_PathData (TLC) enumerates every verb sequence up to 2 (quick) / 3 (thorough)
commands after the initial move in both dialects x operand-group counts x separator styles x
transforms / (size, offset, outSize) set-ups, checks the shape invariants and prints each case;
GEN_MdFile enumerates converter files (opacity -> blend register per distinct opacity, circles ->
two half-turn arcs appended to the first path, skipped paths).  The Go replayer feeds each string to
Generator.SetPathData / mdicons.ParsePathData / ParsePath / ParseFile and compares the calls."""
import json, os
from lib import vlib, deccheck


def run(ctx):
    quick = ctx.tier == "quick"
    ctx.build_harness()
    tot = dict(cases=0, mismatches=0, routes={})
    samples = []
    for module, cfg in (("GEN_PathData", "GEN_PathData_q" if quick else "GEN_PathData_t"), ("GEN_MdFile", "GEN_MdFile"),
                        ("GEN_PathGolden", "GEN_PathGolden")):     # long decimals next to float32 midpoints (nearest, proved with Big.tla)
        gen = os.path.join(ctx.tmp, module + ".out")
        g = ctx.tlc(module, cfg, timeout=3400, out_file=gen)
        if g["error"] or not g["finished"]:
            raise vlib.Broken("%s failed (spec-level):\n%s" % (module, vlib.tail(g["out"])))
        ctx.mc.append({k: g[k] for k in ("module", "cfg", "generated", "distinct", "wall_s")})
        mis = os.path.join(ctx.tmp, module + ".mis")
        p, _ = ctx.run_harness(["replay-path", "-in", gen, "-out", mis], timeout=3000)
        s = deccheck.summary_of(p)
        if s["cases"] < (5 if module == "GEN_PathGolden" else 500):
            raise vlib.Broken("too few generated cases from %s: %d" % (module, s["cases"]))
        tot["cases"] += s["cases"]
        tot["mismatches"] += s["mismatches"]
        for k, v in s["routes"].items():
            tot["routes"][k] = tot["routes"].get(k, 0) + v
        samples.append(s.get("sample"))
        for line in open(mis):
            m = json.loads(line)
            c = m.get("case", {})
            ident = c.get("s") if c.get("diag") == "path" else json.dumps([c.get("paths"), c.get("circles"), c.get("vb")])
            ctx.violation("%s:%s:%s" % (m["route"], m["what"].split(":")[0][:40], ident),
                          "front end differs from the meaning of the path: " + m["what"], m)
    # concatenating transforms is matrix composition; absolute operands the full transform, relative ones and radii the
    # scale: Aff3.tla / GEN_Aff3 (section 11 X06) restricted to the scale-and-translate matrices of its pool - every list
    # of up to 4, configured by list / by product / after an earlier SetTransform, one path with every verb
    gen = os.path.join(ctx.tmp, "GEN_Aff3.out")
    g = ctx.tlc("GEN_Aff3", "GEN_Aff3_diag", timeout=1800, out_file=gen)
    if g["error"] or not g["finished"]:
        raise vlib.Broken("GEN_Aff3 failed (spec-level):\n%s" % vlib.tail(g["out"]))
    ctx.mc.append({k: g[k] for k in ("module", "cfg", "generated", "distinct", "wall_s")})
    mis = os.path.join(ctx.tmp, "aff3.mis")
    p, _ = ctx.run_harness(["replay-aff3", "-in", gen, "-out", mis], timeout=3000)
    s = deccheck.summary_of(p)
    if s["cases"] < 500:
        raise vlib.Broken("too few generated transform lists: %d" % s["cases"])
    tot["cases"] += s["cases"]
    for k, v in s["routes"].items():
        tot["routes"][k] = tot["routes"].get(k, 0) + v
    for line in open(mis):
        m = json.loads(line)
        ctx.violation("aff3:%s:%s" % (m["route"], m["ix"]),
                      "transform handling differs from matrix composition (%s, matrices %s): %s" % (m["route"], m["ix"], m["what"]), m)
    st = sum(m["distinct"] for m in ctx.mc)
    tr = sum(m["generated"] for m in ctx.mc)
    cov = dict(states=st, transitions=tr, traces_validated_against_impl=tot["cases"],
               samples=samples, evaluations=sum(tot["routes"].values()), distinct_nontrivial=tot["cases"],
               rule="one generated path string (or converter file) per case, each distinct by construction",
               routes=tot["routes"], exhaustive=True)
    return vlib.finish(ctx, "model_checking", cov, [
        "exactly the dialects in the property; numbers are dyadic so that parsing, float32 and the transform are exact",
        "strings outside the dialects (exponents, whitespace after a verb in the generator dialect, commas in the converter) are not generated",
        "ParseFile is observed through the bytes it prints (decoded with the library's decoder; coordinates stay on the 1/64 grid)"])
