"""C06 - elliptical arcs end where they should and follow the requested ellipse.

Renderer.tla specifies an arc relationally: a zero radius is a straight line to the mapped end
point (exact); otherwise at most four cubic segments, the last ending within 2^-8 px of the mapped
end point (exact fixed point on the lattice; relative form measured from the pen).  ArcGeom (TV_Arc)
adds, for ellipses generated from the centre parameterisation with rational sines and cosines, that
every segment sample (t = k/16) lies on the requested ellipse (radii scaled up uniformly when too
small), that samples advance in the direction of the sweep flag and that the extent is the one the
large-arc flag selects."""
from lib import vlib, rendcheck


def run(ctx):
    quick = ctx.tier == "quick"
    ctx.build_harness()
    ctx.tlc_must_pass("MC_Renderer", "MC_Renderer_q", timeout=3000)
    r = rendcheck.run_rend_traces(ctx, ["arcs", "ellipses", "reuse"], 600 if quick else 30000)
    for d in r["diags"]:
        if rendcheck.classify(d) == "arc":
            c = d.get("ev", {}).get("call", {})
            zero = c.get("f") and (c["f"][0] in ([0, 0], [32768, 0]) or c["f"][1] in ([0, 0], [32768, 0]))
            ctx.violation(rendcheck.vkey(d) + (":zero-radius" if zero else ""),
                          "arc differs from the specification: %s" % d.get("what"), d)
    mc = ctx.mc[-1]
    st = r["summary"]["stats"]
    cov = dict(states=mc["distinct"], transitions=mc["generated"],
               traces_validated_against_impl=st.get("arcs.programs", 0) + st.get("ellipses.programs", 0),
               samples=vlib.sample_lines(r["files"][0], 6, 900)[2:],
               evaluations=r["events"], distinct_nontrivial=st.get("ellipses.arcs", 0) + st.get("arcs.programs", 0),
               rule="arcs: random lattice programs with arcs; ellipses: one arc per generated centre-parameterised case",
               stats=st, totals=r["totals"])
    return vlib.finish(ctx, "model_checking", cov, [
        "tolerance check (2^-8) inside a tool without reals: rotations/angles limited to rational sines and cosines",
        "the rotation argument (turns) of a generated case is computed by the harness with atan2 (trusted)",
        "NaN radii and coincident start/end points are outside the property and not judged"])
