"""C11 - the disassembly is a faithful, byte-complete listing of what decodes.

The printer view of the decoding machine: every Step of Decoder.tla yields the byte segments of the
listing lines it prints.  MC_Decoder checks ByteComplete on the model; TV_Decoder checks, for every
accepted input, that the hex column of the real listing is exactly those segments in order (every
byte once), that there is one opcode/implicit line group per delivered call, that the numbers
printed equal the delivered operands, and that Disassemble fails exactly when Decode fails, with
the same error.  cmd/disivg (anchored by the property) is bound through Cli.tla: GEN_Cli generates
every command sequence up to depth 3 / 4 and the real binary is replayed step by step (the listing
written to standard output or to the -o file is the complete listing and nothing else)."""
from lib import vlib, deccheck, clicheck

# "call differs": the printed operands are validated against the machine and so are the delivered ones; a delivered call that
# differs from the machine's is therefore a printed value that is not the delivered value (e.g. arc flags with reserved bits)
# "unexpected call" / "missing call": the listing is validated line group by line group against the machine, so a call
# delivered beyond (or missing from) the machine's is an operation without a line (a line without an operation): "one
# instruction line per delivered operation" (e.g. a close delivered at the end of an input that stops inside a path)
KINDS = {"listing bytes", "listing values", "listing text", "listing has extra lines", "outcome differs", "call differs",
         "unexpected call", "missing call"}


def run(ctx):
    quick = ctx.tier == "quick"
    ctx.build_harness()
    ctx.tlc_must_pass("MC_Decoder", "MC_Decoder_q" if quick else "MC_Decoder_t", timeout=3000)
    fams = ["corpus-nocuts", "opsweep", "meta", "random", "alphabet", "adversarial"]
    cov = deccheck.run_decoder_traces(ctx, fams, 1500 if quick else 100000, KINDS,
                                      "disassembly differs from the decoding machine's listing")
    mcdec = ctx.mc[-1]
    # cmd/disivg (anchored by the property): Cli.tla / GEN_Cli - every command sequence up to depth 3 (4) over
    # 4 inputs x (stdout, a fresh file, a pre-existing file): the listing written is the complete listing and
    # nothing else, whatever the output file held before; rejected inputs exit non-zero and write nothing
    cli = clicheck.run_cli(ctx, "GEN_Cli" if quick else "GEN_Cli_t")
    mc = mcdec
    coverage = dict(disivg=cli, states=mc["distinct"], transitions=mc["generated"],
                    traces_validated_against_impl=cov["inputs"],
                    samples=vlib.sample_lines(cov["files"][2], 2, 1200),
                    evaluations=cov["events"], distinct_nontrivial=cov["inputs"],
                    rule="one trace per input; listing lines parsed by the fixed 14-column rule",
                    family_stats=cov["stats"])
    return vlib.finish(ctx, "model_checking", coverage, [
        "wording of the lines is not checked: byte column, line grouping and printed numbers are",
        "printed numbers are re-parsed with strconv.ParseFloat(.,32), which inverts %g of a float32",
        "colour texts, selector/ADJ/repeat-count integers and arc flags are tokenised by regular expressions in the harness"])
