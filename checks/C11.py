"""C11 - the disassembly is a faithful, byte-complete listing of what decodes.

The printer view of the decoding machine: every Step of Decoder.tla yields the byte segments of the
listing lines it prints.  MC_Decoder checks ByteComplete on the model; TV_Decoder checks, for every
accepted input, that the hex column of the real listing is exactly those segments in order (every
byte once), that there is one opcode/implicit line group per delivered call, that the numbers
printed equal the delivered operands, and that Disassemble fails exactly when Decode fails, with
the same error."""
from lib import vlib, deccheck

KINDS = {"listing bytes", "listing values", "listing text", "listing has extra lines", "outcome differs"}


def run(ctx):
    quick = ctx.tier == "quick"
    ctx.build_harness()
    ctx.tlc_must_pass("MC_Decoder", "MC_Decoder_q" if quick else "MC_Decoder_t", timeout=3000)
    fams = ["corpus-nocuts", "opsweep", "meta", "random", "alphabet", "adversarial"]
    cov = deccheck.run_decoder_traces(ctx, fams, 1500 if quick else 30000, KINDS,
                                      "disassembly differs from the decoding machine's listing")
    mc = ctx.mc[-1]
    coverage = dict(states=mc["distinct"], transitions=mc["generated"],
                    traces_validated_against_impl=cov["inputs"],
                    samples=vlib.sample_lines(cov["files"][2], 2, 1200),
                    evaluations=cov["events"], distinct_nontrivial=cov["inputs"],
                    rule="one trace per input; listing lines parsed by the fixed 14-column rule",
                    family_stats=cov["stats"])
    return vlib.finish(ctx, "model_checking", coverage, [
        "wording of the lines is not checked: byte column, line grouping and printed numbers are",
        "printed numbers are re-parsed with strconv.ParseFloat(.,32), which inverts %g of a float32",
        "colour texts, selector/ADJ/repeat-count integers and arc flags are tokenised by regular expressions in the harness"])
