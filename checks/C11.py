"""C11 - the disassembly is a faithful, byte-complete listing of what decodes.

The printer view of the decoding machine: every Step of Decoder.tla yields the byte segments of the
listing lines it prints.  MC_Decoder checks ByteComplete on the model; TV_Decoder checks, for every
accepted input, that the hex column of the real listing is exactly those segments in order (every
byte once), that there is one opcode/implicit line group per delivered call, that the numbers
printed equal the delivered operands, and that Disassemble fails exactly when Decode fails, with
the same error."""
from lib import vlib, deccheck

KINDS = {"listing bytes", "listing values", "listing text", "listing has extra lines", "outcome differs"}


def run(ctx):
    quick = ctx.tier == "quick"
    ctx.build_harness()
    ctx.tlc_must_pass("MC_Decoder", "MC_Decoder_q" if quick else "MC_Decoder_t", timeout=3000)
    fams = ["corpus-nocuts", "opsweep", "meta", "random", "alphabet", "adversarial"]
    cov = deccheck.run_decoder_traces(ctx, fams, 1500 if quick else 100000, KINDS,
                                      "disassembly differs from the decoding machine's listing")
    # cmd/disivg is a thin file wrapper: same bytes as the library call, non-zero exit on a rejected file
    import os, subprocess
    tool = os.path.join(ctx.tmp, "disivg")
    b = subprocess.run(["go", "build", "-o", tool, "./cmd/disivg"], cwd=vlib.REPO, env=dict(os.environ, **vlib.GOENV),
                       capture_output=True, text=True)
    if b.returncode != 0:
        raise vlib.Broken("cmd/disivg does not build:\n" + b.stderr)
    cli = 0
    for name in ("favicon.ivg", "gradient.ivg", "arcs.ivg"):
        f = os.path.join(vlib.REPO, "testdata", name)
        a = subprocess.run([tool, f], capture_output=True)
        lib, _ = ctx.run_harness(["dis", f], check=False)
        cli += 1
        if a.returncode != 0 or a.stdout.decode("utf-8", "replace") != lib.stdout:
            ctx.violation("disivg:" + name, "cmd/disivg output differs from decode.Disassemble", dict(file=name, exit=a.returncode))
    bad = os.path.join(ctx.tmp, "bad.ivg")
    open(bad, "wb").write(open(os.path.join(vlib.REPO, "testdata", "favicon.ivg"), "rb").read()[:-3])
    a = subprocess.run([tool, bad], capture_output=True)
    if a.returncode == 0:
        ctx.violation("disivg:rejected", "cmd/disivg exits 0 on an input the decoder rejects", dict(stdout=a.stdout[-200:].decode("utf-8", "replace")))
    mc = ctx.mc[-1]
    coverage = dict(disivg_files=cli, states=mc["distinct"], transitions=mc["generated"],
                    traces_validated_against_impl=cov["inputs"],
                    samples=vlib.sample_lines(cov["files"][2], 2, 1200),
                    evaluations=cov["events"], distinct_nontrivial=cov["inputs"],
                    rule="one trace per input; listing lines parsed by the fixed 14-column rule",
                    family_stats=cov["stats"])
    return vlib.finish(ctx, "model_checking", coverage, [
        "wording of the lines is not checked: byte column, line grouping and printed numbers are",
        "printed numbers are re-parsed with strconv.ParseFloat(.,32), which inverts %g of a float32",
        "colour texts, selector/ADJ/repeat-count integers and arc flags are tokenised by regular expressions in the harness"])
