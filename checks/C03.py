"""C03 - the decoder implements exactly the FFV0 instruction grammar.

The reference parser written from spec/iconvg-spec-v0.md is Decoder.tla.  MC_Decoder explores it
exhaustively on small strings; the real decoder is run on every opcode byte in each mode (2 x 256)
with operand width combinations (all 3^k for k <= 4 operands) and value patterns, non-canonical
number forms, the corpus, random and alphabet strings; TV_Decoder requires accept <=> well-formed
and delivered calls = the specification's operation sequence, value by value (float bits)."""
from lib import vlib, deccheck

# every cut point of an input is itself an input whose acceptance and deliveries are judged
KINDS = {"unexpected call", "missing call", "call differs", "outcome differs",
         "prefix (inside instruction)", "prefix (at boundary)", "prefix (after error)"}


def run(ctx):
    quick = ctx.tier == "quick"
    ctx.build_harness()
    ctx.tlc_must_pass("MC_Decoder", "MC_Decoder_q" if quick else "MC_Decoder_t", timeout=3000)
    ctx.tlc_must_pass("MC_Decoder", "MC_Decoder_full2", timeout=3000)      # every byte value, |w| <= 2
    fams = ["opsweep", "corpus-nocuts", "random", "alphabet", "splice", "meta"]
    cov = deccheck.run_decoder_traces(ctx, fams, 2000 if quick else 120000, KINDS,
                                      "decoder disagrees with the FFV0 grammar")
    mc = dict(distinct=sum(m["distinct"] for m in ctx.mc), generated=sum(m["generated"] for m in ctx.mc))
    coverage = dict(states=mc["distinct"], transitions=mc["generated"],
                    traces_validated_against_impl=cov["inputs"],
                    samples=vlib.sample_lines(cov["files"][1], 3, 900),
                    evaluations=cov["events"], distinct_nontrivial=cov["inputs"],
                    rule="one trace per input; opsweep = mode x opcode x operand-width combination x value pattern",
                    family_stats=cov["stats"], loose_inputs_not_judged=cov["loose_inputs"])
    return vlib.finish(ctx, "model_checking", coverage, [
        "the oracle is the format document as transcribed in Decoder.tla/Numbers.tla/Colors.tla",
        "a stream ending inside a path at an instruction boundary is well formed (the document does not forbid it)",
        "metadata chunks out of MID order / repeated are accepted either way (not judged)"])
