"""X01 - (beyond the listed properties) the directory pipeline of the Material Design converter.

MdDir.tla specifies mdicons.Parse / ParseDir / the naming rule of ParseFile: categories in bytewise
order (plain files and dot-names skipped, a category without svg/production contributes nothing),
per base name the eligible file ("ic_" prefix, one of five size suffixes, not the one known
duplicate) of largest size whatever order the file system lists them in, base names converted in
bytewise order, the variable name built from the acronym table, statistics (files, SVG bytes, the
PNG fall-back rule 48 -> 24 -> 18 dp not above the target) and failure lines.  MC_MdDir checks with
TLC that the scan is confluent over every enumeration order of every sub-set of an entry pool;
GEN_MdDir prints directory trees with the expected data.go / data_test.go contents; the Go replayer
builds each tree on disk, runs the real mdicons.Parse and compares.  Not a listed property: a
deviation is reported as EXTRA-DEVIATION, never as VIOLATION."""
import json, os
from lib import vlib, deccheck


def run(ctx):
    quick = ctx.tier == "quick"
    ctx.build_harness()
    ctx.tlc_must_pass("MC_MdDir", "MC_MdDir", timeout=1200)
    cfg = "GEN_MdDir_q" if quick else "GEN_MdDir_t"
    gen = os.path.join(ctx.tmp, "GEN_MdDir.out")
    g = ctx.tlc("GEN_MdDir", cfg, timeout=3400, out_file=gen, env={"VERIF_SEED": ctx.seed})
    if g["error"] or not g["finished"]:
        raise vlib.Broken("GEN_MdDir failed (spec-level):\n%s" % vlib.tail(g["out"]))
    ctx.mc.append({k: g[k] for k in ("module", "cfg", "generated", "distinct", "wall_s")})
    mis = os.path.join(ctx.tmp, "mddir.mis")
    work = os.path.join(ctx.tmp, "mdwork")
    os.makedirs(work, exist_ok=True)
    p, _ = ctx.run_harness(["replay-mddir", "-in", gen, "-out", mis, "-work", work], timeout=3000)
    s = deccheck.summary_of(p)
    if s["cases"] < 100:
        raise vlib.Broken("too few generated trees: %d" % s["cases"])
    for line in open(mis):
        m = json.loads(line)
        ctx.violation("mddir:%s:%d" % (m["what"][:50], m["case"]),
                      "mdicons.Parse differs from MdDir.tla: %s (got %s, want %s)" % (m["what"], m.get("got", "")[:200], m.get("want", "")[:200]), m)
    cov = dict(states=sum(m["distinct"] for m in ctx.mc), transitions=sum(m["generated"] for m in ctx.mc),
               traces_validated_against_impl=s["cases"], trees=s["cases"], files_written=s["files"],
               declarations_compared=s["declarations"], failure_lines_compared=s["failure_lines"],
               unconvertible_files=s["unconvertible"], exhaustive=False)
    return vlib.finish(ctx, "exploration", cov, [
        "directory trees are derived arithmetically from the case number over a pool of ten base names, five sizes, three categories",
        "the content of a declaration is compared with mdicons.ParseFile run alone on the selected file (content is C20's subject)",
        "names with empty parts (ic__24px.svg, ic_a__b_24px.svg, ic_24px.svg) make the converter panic and are not generated (DESIGN.md section 11)"])
