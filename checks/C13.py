"""C13 - metadata: defaults, suggested palette, viewBox validation, chunk framing.

The metadata phase of Decoder.tla (ParseMeta) is the specification; the real Decode, DecodeViewBox
and Disassemble are run on enumerated metadata sections (chunk counts, viewBox value classes x
coordinate forms, every palette format and entry count, all 256 one-byte colours, declared lengths
off by -3..+3 and far past EOF, unknown MIDs) and the arguments of Reset / the returned viewBox /
the accept-reject outcome are validated by TV_Decoder."""
from lib import vlib, deccheck

KINDS = {"unexpected call", "missing call", "call differs", "outcome differs"}


def run(ctx):
    quick = ctx.tier == "quick"
    ctx.build_harness()
    ctx.tlc_must_pass("MC_Decoder", "MC_Decoder_q" if quick else "MC_Decoder_t", timeout=3000)
    fams = ["meta", "corpus-nocuts", "corrupt"]
    cov = deccheck.run_decoder_traces(ctx, fams, 1000, KINDS, "metadata handling differs from the specification")
    mc = ctx.mc[-1]
    coverage = dict(states=mc["distinct"], transitions=mc["generated"],
                    traces_validated_against_impl=cov["inputs"],
                    samples=vlib.sample_lines(cov["files"][3], 2, 1500),
                    evaluations=cov["events"], distinct_nontrivial=cov["stats"].get("meta.inputs", 0),
                    rule="one trace per metadata section; non-trivial = the enumerated meta family",
                    family_stats=cov["stats"], loose_inputs_not_judged=cov["loose_inputs"])
    return vlib.finish(ctx, "model_checking", coverage, [
        "metadata chunks out of MID order / repeated are accepted either way (not judged)"])
