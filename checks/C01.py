"""C01 - encode then decode reproduces the drawing program (and back again).

MC  : MC_Encoder (control state of the encoder model), MC_Decoder (decoding machine) and
      MC_EncoderBytes: the property inside the specification - for every history of the bound the
      decoding machine run over the bytes of the byte-exact Encoder model (EncoderBytes.tla, bound
      to the real Encoder by X03) delivers the history up to quantisation.
TV  : random well-formed programs (all 30 methods, runs beyond the 16/32 opcode limits, every colour
      kind, float classes incl. NaN/Inf/huge/1-ulp-off-a-short-form, low/high resolution toggled
      between paths, default/custom viewBox and palette, zero-value Encoder) are driven into real
      Encoders; the produced bytes are decoded by the SPECIFICATION's decoder and matched against
      the history up to the format's quantisation (TV_RoundTrip), and the real decoder's deliveries
      are validated against the same machine (TV_Decoder).  Converse: corpus files and accepted
      mutants are transcoded decode->Encoder->bytes twice; each generation must decode to the
      previous one's operations (no drift, no failure)."""
from lib import vlib, enccheck


def run(ctx):
    quick = ctx.tier == "quick"
    ctx.build_harness()
    ctx.tlc_must_pass("MC_Encoder", "MC_Encoder", timeout=900)
    ctx.tlc_must_pass("MC_Decoder", "MC_Decoder_q", timeout=900)
    ctx.tlc_must_pass("MC_EncoderBytes", "MC_EncoderBytes_q" if quick else "MC_EncoderBytes_t", timeout=3000)
    fams = ["wellformed", "runs", "longruns", "arcshapes", "zerofirst", "open", "converse", "reuse"]
    # "enc": a history without protocol violations must not fail (projection err/mode judged by TV_Encoder) - otherwise
    # there would be no bytes to decode and the history would silently drop out of the round-trip comparison
    r = enccheck.run_enc_traces(ctx, fams, 400 if quick else 40000, ["err", "mode"], want=("enc", "rt", "dec"))
    for kind, ds in r["diags"].items():
        for d in ds:
            fam = str(d.get("id")).split("/")[0]
            key = "%s:%s:%s" % (kind, d.get("diag"), d.get("id"))
            ctx.violation(key, "round trip rejected by %s (%s)" % (kind, fam), enccheck.trim(d))
    st = r["summary"]["stats"]
    mc = ctx.mc[0]
    cov = dict(states=sum(m["distinct"] for m in ctx.mc), transitions=sum(m["generated"] for m in ctx.mc),
               traces_validated_against_impl=st.get("roundtrips", 0) + st.get("converse", 0),
               samples=vlib.sample_lines(r["files"]["rt"][0], 3, 700),
               evaluations=r["summary"]["rt_events"] + r["summary"]["dec_events"],
               distinct_nontrivial=st.get("roundtrips", 0) + st.get("converse", 0),
               rule="one round-trip trace per random program / per transcoding generation of a corpus file",
               stats=st)
    return vlib.finish(ctx, "model_checking", cov, [
        "numbers are drawn from classes and random patterns, not all 2^32 (C08 carries the codec sweep)",
        "histories are bounded in length by the driver",
        "only valid premultiplied suggested-palette entries are required to survive"])
