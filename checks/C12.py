"""C12 - aspect-preserving viewBox placement fits or fills and honours alignment.

ViewBoxFit.tla is the exact rational model; ViewBoxFitProofs proves with TLAPS, for all positive
integer sizes, that meet lies inside the target and touches it, slice covers it and touches it, and
both keep the viewBox's aspect; MC_ViewBoxFit checks on the whole grid (vw, vh in
1..12, dx, dy in {1,2,3,5,8,13,21,100,255,256,600}, alignments in quarters: 435 600 cases) that the
result has the viewBox aspect, meet is inside and touches, slice covers and touches, and the slack
is split by the alignment fraction.  TV: the real AspectMeet / AspectSlice / Size are called on that
grid at several viewBox origins, rescaled by powers of two (2^-20..2^20 for the viewBox, 2^-10..2^20
for the target: exact for floats, so 'many orders of magnitude' is covered structurally) and TLC
compares each float32 result with the rational one (tolerance 2^-20 of the larger of target and
result size); arbitrary float32 sizes over 36 orders of magnitude are judged for the ordering part
(inside / covers, touches one side) only."""
import glob, json, os
from lib import vlib, deccheck


def run(ctx):
    quick = ctx.tier == "quick"
    ctx.build_harness()
    ctx.tlc_must_pass("MC_ViewBoxFit", "MC_ViewBoxFit", timeout=600)
    # unbounded: for ALL positive integer sizes meet lies inside and touches, slice covers and touches, both keep the
    # viewBox's aspect (TLAPS, 33 obligations)
    ctx.tlapm_must_prove("ViewBoxFitProofs")
    p, _ = ctx.run_harness(["drive-c12", "-out", ctx.tmp, "-shards", "16", "-n", str(40000 if quick else 435600)], timeout=3000)
    summ = deccheck.summary_of(p)
    files = sorted(glob.glob(os.path.join(ctx.tmp, "c12.*.ndjson")))
    events, diags, runs = vlib.tv_shards(ctx, "TV_ViewBoxFit", "TV_ViewBoxFit", files)
    for d in diags:
        if d.get("diag") == "hint":
            raise vlib.Broken("generated case inconsistent with its description: %s" % json.dumps(d)[:500])
        ev = d.get("ev", {})
        key = "%s:%s:%s:vb4=%s:d4=%s:a4=%s:e=%s,%s" % (ev.get("ev"), ev.get("kind"), d.get("what"), ev.get("vb4"), ev.get("d4"), ev.get("a4"), ev.get("e1"), ev.get("e2"))
        if ev.get("ev") == "fit10":
            key = "fit10:%s:%s:n4=%s:a4=%s" % (ev.get("kind"), d.get("what"), ev.get("n4"), ev.get("a4"))
        if ev.get("ev") == "rand":
            key = "rand:%s:%s:%s" % (ev.get("kind"), d.get("what"), ev.get("d"))
        ctx.violation(key, "viewBox placement: %s" % d.get("what"), d)
    mc = ctx.mc[-1]
    cov = dict(evaluations=events, distinct_nontrivial=summ["stats"].get("fit", 0),
               rule="grid case x origin x power-of-two rescaling x {meet, slice}; non-trivial = fit events judged against the rational model",
               samples=vlib.sample_lines(files[0], 3, 1000), states=mc["distinct"], transitions=mc["generated"],
               traces_validated_against_impl=events, stats=summ["stats"], exhaustive=not quick)
    return vlib.finish(ctx, "model_checking", cov, [
        "pure function with a two-way case split: the specification adds the exhaustive rational grid and an exact oracle, not depth",
        "arbitrary float32 sizes (off the grid) are judged for the ordering part only, within 16 ulp"])
