"""C02 - decoding arbitrary bytes is safe, bounded and never delivers garbage early.

MC : MC_Decoder - the decoding machine on every string over a 23-symbol alphabet (|w|<=3 quick,
     <=4 thorough) + metadata heads: ResetFirst, NoEarlyOutput, Progress, Terminates, PrefixClosed.
TV : the real Decode (into a recorder + a Renderer with a recording rasteriser, into an Encoder,
     with a nil destination), DecodeViewBox and Disassemble run under recover/watchdog on the corpus
     (every truncation point), corruptions, random bytes, alphabet strings, splices and adversarial
     inputs; every delivered call, every cut point and the outcome are validated by TV_Decoder."""
from lib import vlib, deccheck

KINDS = {"unexpected call", "missing call", "no progress", "rasteriser shape",
         "prefix (inside instruction)", "prefix (at boundary)", "prefix (after error)",
         "outcome differs", "call differs", "panic while rendering through raster/vec"}


def run(ctx):
    quick = ctx.tier == "quick"
    ctx.build_harness()
    ctx.tlc_must_pass("MC_Decoder", "MC_Decoder_q" if quick else "MC_Decoder_t", timeout=3000)
    if not quick:
        ctx.tlc_must_pass("MC_Decoder", "MC_Decoder_full2", timeout=3000)  # every byte value, |w| <= 2
    fams = ["corpus", "corrupt", "random", "alphabet", "adversarial", "splice", "meta", "gradients"]
    cov = deccheck.run_decoder_traces(ctx, fams, 3000 if quick else 150000, KINDS,
                                      "decoder safety/prefix/outcome mismatch")
    # boundedness in the length of a path: one path of millions of separate drawing opcodes (18 MB quick, 40 MB thorough), decoded in a
    # process of its own with the runtime's default limits; a decoder whose own stack grows with the number of
    # instructions is killed by the Go runtime ("fatal error: stack overflow"), which no recover() can catch
    import json
    deep, _ = ctx.run_harness(["deep-dec", "-n", "9000000" if quick else "20000000"], check=False, timeout=1200)
    if deep.returncode != 0:
        if "stack overflow" in deep.stderr or "goroutine stack exceeds" in deep.stderr:
            ctx.violation("deep:stack-overflow", "decoding one long path kills the process: the decoder's stack grows with the "
                          "number of instructions", dict(stderr=deep.stderr[:1500]))
            deepsum = dict(ok=False, crashed=True)
        else:
            raise vlib.Broken("deep-dec died for another reason (exit %d):\n%s" % (deep.returncode, deep.stderr[-2000:]))
    else:
        deepsum = json.loads([l for l in deep.stdout.splitlines() if l.startswith("@@SUMMARY ")][-1][10:])
        if not deepsum.get("ok"):
            ctx.violation("deep:outcome", "a single path of %d drawing opcodes is not decoded to that many calls" % (deepsum.get("want", 0) - 3),
                          deepsum)
    mc = dict(distinct=sum(m["distinct"] for m in ctx.mc), generated=sum(m["generated"] for m in ctx.mc))
    coverage = dict(states=mc["distinct"], transitions=mc["generated"],
                    traces_validated_against_impl=cov["inputs"],
                    samples=vlib.sample_lines(cov["files"][0], 3, 900),
                    evaluations=cov["events"], distinct_nontrivial=cov["inputs"],
                    rule="one trace per input byte string; events = src/call/end lines validated by TV_Decoder",
                    family_stats=cov["stats"], loose_inputs_not_judged=cov["loose_inputs"], long_path=deepsum)
    return vlib.finish(ctx, "model_checking", coverage, [
        "inputs <= 64 KiB for the trace-validated families; watchdog 20 s per entry point is the only timing-based verdict",
        "the long-path probe (18 MB / 40 MB, one path) is judged by its call count and by the process surviving, not call by call",
        "the rasteriser is a recording one (x/image/vector is not fed hostile numbers)",
        "metadata chunks out of MID order / repeated are accepted either way (not judged)",
        "call hashes (prefix property) are computed by the harness over the JSON of each call"])
