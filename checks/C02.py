"""C02 - decoding arbitrary bytes is safe, bounded and never delivers garbage early.

MC : MC_Decoder - the decoding machine on every string over a 23-symbol alphabet (|w|<=3 quick,
     <=4 thorough) + metadata heads: ResetFirst, NoEarlyOutput, Progress, Terminates, PrefixClosed.
TV : the real Decode (into a recorder + a Renderer with a recording rasteriser, into an Encoder,
     with a nil destination), DecodeViewBox and Disassemble run under recover/watchdog on the corpus
     (every truncation point), corruptions, random bytes, alphabet strings, splices and adversarial
     inputs; every delivered call, every cut point and the outcome are validated by TV_Decoder."""
from lib import vlib, deccheck

KINDS = {"unexpected call", "missing call", "no progress", "rasteriser shape",
         "prefix (inside instruction)", "prefix (at boundary)", "prefix (after error)",
         "outcome differs", "call differs"}


def run(ctx):
    quick = ctx.tier == "quick"
    ctx.build_harness()
    ctx.tlc_must_pass("MC_Decoder", "MC_Decoder_q" if quick else "MC_Decoder_t", timeout=3000)
    if not quick:
        ctx.tlc_must_pass("MC_Decoder", "MC_Decoder_full2", timeout=3000)  # every byte value, |w| <= 2
    fams = ["corpus", "corrupt", "random", "alphabet", "adversarial", "splice", "meta"]
    cov = deccheck.run_decoder_traces(ctx, fams, 3000 if quick else 150000, KINDS,
                                      "decoder safety/prefix/outcome mismatch")
    mc = dict(distinct=sum(m["distinct"] for m in ctx.mc), generated=sum(m["generated"] for m in ctx.mc))
    coverage = dict(states=mc["distinct"], transitions=mc["generated"],
                    traces_validated_against_impl=cov["inputs"],
                    samples=vlib.sample_lines(cov["files"][0], 3, 900),
                    evaluations=cov["events"], distinct_nontrivial=cov["inputs"],
                    rule="one trace per input byte string; events = src/call/end lines validated by TV_Decoder",
                    family_stats=cov["stats"], loose_inputs_not_judged=cov["loose_inputs"])
    return vlib.finish(ctx, "model_checking", coverage, [
        "inputs <= 64 KiB; watchdog 20 s per entry point is the only timing-based verdict",
        "the rasteriser is a recording one (x/image/vector is not fed hostile numbers)",
        "metadata chunks out of MID order / repeated are accepted either way (not judged)",
        "call hashes (prefix property) are computed by the harness over the JSON of each call"])
