"""C19 - generator gradient helpers realise the requested geometry and registers.

Generator.tla states the contract on the register machine: the rejection rules (more than 58
stops; CSEL modulo 64 inside the stop range) decided before anything is written, and the
post-condition GradPost (gradient value at CREG[CSEL0] naming shape/spread/NSTOPS, stops and
matrix in the registers it names, CSEL/NSEL restored, other registers untouched), plus the
geometry predicates of the linear / circular / elliptical helpers in 2^-20 fixed point.
MC_Generator: for every prior CSEL 0..63 x stop counts {0..3, 53..59, 64} x shapes the documented
algorithm satisfies GradPost exactly when not rejected, and rejection is necessary.
TV: random sequences (selector writes, incrementing walks across 63->0, read-backs, helpers with
0..300 stops of several colour models, dyadic and non-dyadic geometries) through Generator ->
Renderer and Generator -> Encoder (model run over the recorded calls), optionally through
DestinationLogger; every helper return value and post-state is judged by TV_Renderer."""
import json
from lib import vlib, gencheck


def run(ctx):
    quick = ctx.tier == "quick"
    ctx.build_harness()
    ctx.tlc_must_pass("MC_Generator", "MC_Generator", timeout=900)
    r = gencheck.run_gen(ctx, 60 if quick else 6000)
    for d in r["diags"]["rend"]:
        if d.get("diag") == "gen":
            e = d.get("ev", {})
            n = len(e.get("stops", [])) if isinstance(e.get("stops"), list) else -1
            ctx.violation("gen:%s:%s:%s:n=%d" % (d.get("what"), d.get("id"), e.get("name"), n),
                          "gradient helper: %s" % d.get("what"), gencheck.short(d))
        elif d.get("diag") == "sel" and d.get("what") == "selector read-back":
            # the helpers restore the selectors they read from the destination: a destination that reports another CSEL /
            # NSEL than the decoding machine holds makes the helper leave the selectors other than it found them
            ctx.violation("gen:read-back:%s" % d.get("id"),
                          "gradient helper: the destination reports a selector it does not hold (the helper restores what it reads)", gencheck.short(d))
        elif d.get("diag") in ("raster", "vm") and d.get("ev", {}).get("call", {}).get("op") == "ClosePathEndPath":
            # "when rendered": the path painted with the written gradient is drawn once over the target rectangle with the
            # gradient image aligned to the rectangle's corner, and with the paint the registers prescribe
            ctx.violation("rendered:%s:%s" % (d.get("what"), d.get("id")),
                          "rendering the written gradient: %s" % d.get("what"), gencheck.short(d))
    # "when rendered": gradients written by the helpers, painted by a real Renderer with one pixel per unit, probed at the
    # pixels whose centres are the points the property names (centre: 0; end of the radius vector, ends of both axes: 1;
    # points on a perpendicular: the same offset) - judged exactly by TV_Gradient (the directed part of C15's driver)
    import glob, os
    sub = os.path.join(ctx.tmp, "helperpix")
    os.makedirs(sub, exist_ok=True)
    ctx.run_harness(["drive-c15", "-out", sub, "-shards", "2", "-n", "0"], timeout=600)
    hfiles = sorted(glob.glob(os.path.join(sub, "c15.*.ndjson")))
    hev, hdiags, _ = vlib.tv_shards(ctx, "TV_Gradient", "TV_Gradient", hfiles)
    nhelper = 0
    for d in hdiags:
        e = d.get("ev", {})
        if str(e.get("path", "")).startswith("Generator."):
            nhelper += 1
            if d.get("diag") != "unjudged":
                ctx.violation("helperpix:%s:%s:spread=%s:%s,%s" % (e.get("path"), d.get("what"), e.get("spread"), e.get("x"), e.get("y")),
                              "helper gradient rendered: %s" % d.get("what"), d)
            else:
                raise vlib.Broken("a helper pixel was not judged: %s" % json.dumps(d)[:300])
    mc = ctx.mc[-1]
    st = r["summary"]["stats"]
    cov = dict(states=mc["distinct"], transitions=max(1, mc["generated"]),
               traces_validated_against_impl=st.get("P1", 0) + st.get("P2", 0),
               samples=[gencheck.short(x) for x in vlib.sample_lines(r["files"]["rend"][0], 12, 100000)[8:]],
               evaluations=r["lines"], distinct_nontrivial=st.get("P1", 0) + st.get("P2", 0),
               rule="one trace per (sequence, pipeline, logger variant); helpers judged at each helper event",
               stats=st)
    return vlib.finish(ctx, "model_checking", cov, [
        "the contract is the post-condition on the register machine, not the particular call sequence or base 10",
        "stop colours of non-RGBA models are converted by the harness with color.RGBAModel (trusted)",
        "non-dyadic geometries are judged with a 2^-12 tolerance on the offset; degenerate geometries are not generated",
        "rendering of the written gradient (pixel->gradient matrix, paint) is C15's"])
