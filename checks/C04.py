"""C04 - each path is painted with what the register machine prescribes, or not at all.

MC : MC_Renderer - the Renderer model x Encoder model x a reused Renderer over every well-formed
     program of the bound: QuietWhenDisabled, DrawOnce, ModeAgree, SelAgree, Fresh.
TV : register-traffic programs (wrap-around at 0/63, ADJ and increments, palette/register/blend
     colours, gradients at several bases incl. invalid stops, LOD pairs incl. infinities and NaN,
     raster heights, custom palettes), corpus files and reuse runs are driven into a real Renderer;
     after every call the selectors, LOD, the registers that changed (verif hook), the enabling
     decision and the rasteriser calls, and at Draw the paint (flat colour / gradient shape, spread,
     stop colours and offsets) are validated by TV_Renderer against Renderer.tla."""
from lib import vlib, rendcheck


def run(ctx):
    quick = ctx.tier == "quick"
    ctx.build_harness()
    ctx.tlc_must_pass("MC_Renderer", "MC_Renderer_q" if quick else "MC_Renderer_t", timeout=3000)
    r = rendcheck.run_rend_traces(ctx, ["vm", "corpus", "reuse", "geometry"], 400 if quick else 30000)
    for d in r["diags"]:
        if rendcheck.classify(d) == "vm":
            ctx.violation(rendcheck.vkey(d), "register machine / paint / enabling differs: %s" % d.get("what"), d)
    mc = ctx.mc[-1]
    st = r["summary"]["stats"]
    progs = sum(v for k, v in st.items() if k.endswith(".programs"))
    cov = dict(states=mc["distinct"], transitions=mc["generated"], traces_validated_against_impl=progs,
               samples=vlib.sample_lines(r["files"][0], 4, 900)[1:],
               evaluations=r["events"], distinct_nontrivial=progs,
               rule="one trace per program driven into a real Renderer; one event per Destination call",
               stats=st, totals=r["totals"])
    return vlib.finish(ctx, "model_checking", cov, [
        "the gradient matrix is checked by C15/C19, not here",
        "gradients with fewer than two stops: enabling accepted either way (format document silent)",
        "register state read through the verif-tagged VerifState hook; diffs computed by the harness"])
