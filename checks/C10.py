"""C10 - the Encoder accepts exactly protocol-respecting histories; errors are sticky.

TLAPS: ProtocolProofs - ten theorems about the Protocol automaton for ALL call parameters (unbounded).
MC  : MC_Encoder - product of the implementation-shaped Encoder model, a reset copy and the 3-state
      Protocol automaton over a 19-call alphabet to depth 8: Agree, Sticky, ZeroIsReset, ResetFresh.
GEN : every history of length 3 (quick) / 4 (thorough) over the alphabet is printed by TLC with the
      expected projection after each call and replayed into real Encoders: projected mode/error/
      pending run after each call (VerifState hook), Bytes() on a clone after each prefix, and the
      zero-value vs reset-with-defaults comparison (bytes, selectors, LOD read-back).
TV  : random histories (<= ~200 calls) with illegal calls injected, Bytes/selector reads in between,
      Reset mid-history; projection validated by TV_Encoder; bytes of accepted histories validated
      by TV_RoundTrip (decode to that history) and TV_Decoder (the decoder accepts them)."""
import json, os
from lib import vlib, enccheck


def run(ctx):
    quick = ctx.tier == "quick"
    ctx.build_harness()
    ctx.tlc_must_pass("MC_Encoder", "MC_Encoder", timeout=900)
    # unbounded: the protocol automaton's facts (sticky failure, reset, legal calls never fail, illegal ones always do,
    # every failure carries a reason) proved by TLAPS for all call parameters
    ctx.tlapm_must_prove("ProtocolProofs")
    gen = os.path.join(ctx.tmp, "gen_enc.out")
    g = ctx.tlc("MC_Encoder", "GEN_Encoder_q" if quick else "GEN_Encoder_t", timeout=1800, out_file=gen)
    if g["error"] or not g["finished"]:
        raise vlib.Broken("GEN run failed:\n" + vlib.tail(g["out"]))
    mis = os.path.join(ctx.tmp, "mis_enc.ndjson")
    p, _ = ctx.run_harness(["replay-enc", "-in", gen, "-out", mis, "-fields", "err,mode,run,bytes,zero"])
    rs = json.loads([l for l in p.stdout.splitlines() if l.startswith("@@SUMMARY ")][-1][10:])
    if rs["histories"] < 1000:
        raise vlib.Broken("too few generated histories: %d" % rs["histories"])
    for line in open(mis):
        m = json.loads(line)
        key = m["key"]
        if m["kind"] == "zero" and m["key"].startswith("zero:lod"):
            key = "zero:lod"          # one defect: LOD() of a zero-value Encoder
        ctx.violation(key, "replayed history diverges from Encoder/Protocol model: " + m["kind"], m)
    fams = ["illegal", "wellformed", "runs", "longruns", "zerofirst"]
    r = enccheck.run_enc_traces(ctx, fams, 300 if quick else 30000, ["err", "mode", "run"])
    for kind, ds in r["diags"].items():
        for d in ds:
            ctx.violation("%s:%s:%s" % (kind, d.get("diag"), d.get("id")),
                          "trace rejected by %s" % kind, enccheck.trim(d))
    mc = ctx.mc[0]
    st = r["summary"]["stats"]
    cov = dict(states=mc["distinct"], transitions=mc["generated"],
               traces_validated_against_impl=rs["histories"] + st.get("histories", 0),
               samples=[rs.get("sample")] + vlib.sample_lines(r["files"]["enc"][0], 3, 700),
               evaluations=rs["steps"] + r["summary"]["enc_events"],
               distinct_nontrivial=rs["histories"],
               rule="GEN: all histories of the bound over the 19-call alphabet (each distinct); TV: random histories",
               generated_histories=rs["histories"], replay_mismatches=rs["mismatches"],
               random_histories=st, exhaustive=True)
    return vlib.finish(ctx, "model_checking", cov, [
        "a call breaking two rules at once may be reported with either reason",
        "the zero value counts as styling mode with default metadata",
        "projection read through the verif-tagged VerifState hook (no side effects)"])
