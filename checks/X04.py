"""X04 - (beyond the listed properties) the two pass-through loggers.

DestLog.tla models ivg.DestinationLogger (both styles, wrapping a Destination or nothing) and
raster.RasterizerLogger as machines over (lines printed, calls handed on): every call prints exactly
one line - its name and every argument in order, numbers with two decimals (Fmt.tla: the exact
float32 value rounded half-to-even in integer arithmetic, the sign kept when the rest rounds to zero,
integers beyond 2^24 in full), colours / viewBox / palette in Go syntax - and hands exactly that call
on, once, after the line; reads print nothing and return the wrapped object's answer.
MC_DestLog (TLC): every call sequence of the bound over an 87-call alphabet (every operation, the
numbers where formatting is delicate) in the four configurations: Lockstep, Grows; for all pairs of
the alphabet Faithful (two calls print the same line only if they agree up to the two-decimal
rounding), StylesAgree, and golden texts observed from Go's fmt.  TV_DestLog: the lines really
printed on standard output, the calls that really reached the wrapped object and reads through the
logger, for random call sequences on fresh logger objects, equal the model's.
Not a listed property: a deviation is reported as EXTRA-DEVIATION, never as VIOLATION."""
import glob, os
from lib import vlib, deccheck


def run(ctx):
    quick = ctx.tier == "quick"
    ctx.build_harness()
    ctx.tlc_must_pass("MC_DestLog", "MC_DestLog" if quick else "MC_DestLog_t", timeout=3400)
    shards = 8 if quick else 16
    p, _ = ctx.run_harness(["drive-log", "-out", ctx.tmp, "-shards", str(shards), "-n", str(1500 if quick else 40000)], timeout=3000)
    summ = deccheck.summary_of(p)
    files = [f for f in sorted(glob.glob(os.path.join(ctx.tmp, "log.*.ndjson"))) if os.path.getsize(f) > 0]
    events, diags, runs = vlib.tv_shards(ctx, "TV_DestLog", "TV_DestLog", files)
    outside = 0
    for d in diags:
        if d.get("diag") == "outside":
            outside += d.get("n", 0)
        else:
            ctx.violation("log:%s:%s" % (d.get("diag"), d.get("id")), "a logger differs from DestLog.tla: %s" % d.get("diag"), d)
    st = summ["stats"]
    calls = st.get("dl.calls", 0) + st.get("rl.calls", 0)
    if calls < 1000 or outside * 4 > calls:
        raise vlib.Broken("vacuous: %d calls, %d lines outside the model" % (calls, outside))
    mc = ctx.mc[-1]
    cov = dict(states=mc["distinct"], transitions=mc["generated"], traces_validated_against_impl=events,
               logger_objects=events, calls_compared=calls - outside, lines_outside_the_model=outside,
               driver=st, exhaustive=False)
    return vlib.finish(ctx, "model_checking", cov, [
        "Reset lines whose viewBox contains a number outside Fmt.tla: InG (shortest decimal not modelled) are counted, not compared",
        "a RasterizerLogger wrapping nothing (it panics after printing) is not driven"])
