"""C17 - Encoders and Renderers carry no state across Reset; output is deterministic.

MC : MC_Encoder (ResetFresh, ZeroIsReset) and MC_Renderer (Fresh / FreshInPath: a Renderer dirtied by
     a prefix and then Reset equals a fresh one on everything a program can observe).
TV : pairs (A, B): A from well-formed, erroneous, truncated mid-path / mid-run histories with
     hi-res on and dirty registers/selectors/LOD/smooth state; B well formed.
     Encoder: one object runs A; Reset; B.  Its bytes must decode (by the specification's decoder)
     to B alone (TV_RoundTrip, which forgets at Reset), must be identical to a fresh Encoder's bytes
     for B, the same calls twice give identical bytes, and Bytes twice returns equal bytes.
     Renderer: one Renderer and its rasteriser run A then B (second Reset, optionally another
     SetRasterizer); the B part of the single concatenated trace must be exactly what Renderer.tla
     prescribes for B (TV_Renderer: registers after Reset, selectors, LOD, paints, geometry)."""
from lib import vlib, enccheck, rendcheck


def run(ctx):
    quick = ctx.tier == "quick"
    ctx.build_harness()
    ctx.tlc_must_pass("MC_Encoder", "MC_Encoder", timeout=900)
    ctx.tlc_must_pass("MC_Renderer", "MC_Renderer_q" if quick else "MC_Renderer_t", timeout=3000)
    n = 300 if quick else 20000
    e = enccheck.run_enc_traces(ctx, ["reuse", "wellformed", "zerofirst"], n, ["err", "mode", "run", "lod", "sel"], want=("enc", "rt"))
    for kind, ds in e["diags"].items():
        for d in ds:
            ctx.violation("enc:%s:%s:%s" % (kind, d.get("diag"), d.get("id")),
                          "Encoder reuse/determinism: " + str(d.get("diag")), enccheck.trim(d))
    r = rendcheck.run_rend_traces(ctx, ["reuse"], n)
    for d in r["diags"]:
        cls = rendcheck.classify(d)
        if cls == "arc":
            continue                       # arc end points are C06's business
        ctx.violation("rend:" + rendcheck.vkey(d), "Renderer reuse differs from a fresh run: %s" % d.get("what"), d)
    mc0, mc1 = ctx.mc[0], ctx.mc[1]
    # the rasteriser a Renderer is reused with carries state of its own (raster/vec: the one-shot compositing operator):
    # VecRast.tla / GEN_VecRast - after any sequence of fills (also into an empty rectangle), resets and operator settings
    # the next fill composites as a fresh rasteriser's would unless the operator was set since the last fill
    from lib import vecrastcheck
    vr = vecrastcheck.run_vecrast(ctx, "GEN_VecRast" if quick else "GEN_VecRast_t")
    st = e["summary"]["stats"]
    rs = r["summary"]["stats"]
    pairs = st.get("reuse", 0) + rs.get("reuse.programs", 0)
    cov = dict(states=mc0["distinct"] + mc1["distinct"], transitions=mc0["generated"] + mc1["generated"],
               traces_validated_against_impl=pairs + st.get("roundtrips", 0),
               samples=vlib.sample_lines(e["files"]["rt"][0], 2, 700) + vlib.sample_lines(r["files"][0], 2, 700),
               evaluations=e["summary"]["enc_events"] + e["summary"]["rt_events"] + r["events"],
               distinct_nontrivial=pairs,
               rule="one (A, B) pair per reused object; determinism pairs ride on every round-trip trace",
               encoder=st, renderer=rs, renderer_totals=r["totals"], vec_rasterizer=vr)
    return vlib.finish(ctx, "model_checking", cov, [
        "B ranges over well-formed programs only, as the property says",
        "a slice returned by an earlier Bytes() being overwritten after Reset is documented behaviour, not checked"])
