"""X05 - (beyond the listed properties) raster/vec.Rasterizer: the one-shot compositing operator.

VecRast.tla models the wrapper around golang.org/x/image/vector that every pixel-level check draws
through: state = the DrawOp field and three pixels of an RGBA destination (covered by the path /
inside the rectangle but not covered / outside the rectangle); Draw composites with the current
operator (Over: src*mask + dst*(1 - alpha*mask); Src: src*mask, which clears the uncovered part of
the rectangle) in the exact 16-bit arithmetic of the uniform-source fast paths (Big.tla for the
32-bit products) and leaves draw.Over behind.  Named deviation ResetKeepsOp: the interface
documents that Reset sets DrawOp to Over; the Reset a vec.Rasterizer has is the embedded one, which
does not touch the field Draw copies from - the model says what the code does.
GEN_VecRast (TLC): every call sequence up to depth 3 / 4 over {SetOp, Reset, Fill(6 colours)} on
three backgrounds: OneShot, OpOfFill, RingTells, OutKept, StaysPremul, OpaqueWins; each sequence is
printed with the expected state after every step and replayed on a real vec.Rasterizer (directly
and through a render.Renderer, rectangle at and away from the image origin).
Not a listed property: a deviation is reported as EXTRA-DEVIATION, never as VIOLATION."""
import json, os
from lib import vlib, deccheck


def run(ctx):
    quick = ctx.tier == "quick"
    ctx.build_harness()
    gen = os.path.join(ctx.tmp, "GEN_VecRast.out")
    g = ctx.tlc("GEN_VecRast", "GEN_VecRast" if quick else "GEN_VecRast_t", timeout=1800, out_file=gen)
    if g["error"] or not g["finished"]:
        raise vlib.Broken("GEN_VecRast failed (spec-level):\n%s" % vlib.tail(g["out"]))
    ctx.mc.append({k: g[k] for k in ("module", "cfg", "generated", "distinct", "wall_s")})
    mis = os.path.join(ctx.tmp, "vecrast.mis")
    p, _ = ctx.run_harness(["replay-vecrast", "-in", gen, "-out", mis], timeout=3000)
    s = deccheck.summary_of(p)
    if s["cases"] < 2000 or s["steps"] < 10000:
        raise vlib.Broken("too few generated sequences: %d (%d steps)" % (s["cases"], s["steps"]))
    for line in open(mis):
        m = json.loads(line)
        ctx.violation("vecrast:%s:%s" % (m["route"], "|".join(m["seq"])),
                      "vec.Rasterizer differs from VecRast.tla (%s): %s" % (m["route"], m["what"]), m)
    cov = dict(states=g["distinct"], transitions=g["generated"], traces_validated_against_impl=s["cases"],
               sequences=s["cases"], steps_compared=s["steps"], exhaustive=True)
    return vlib.finish(ctx, "model_checking", cov, [
        "sources are premultiplied colours (the fast paths' 32-bit products wrap otherwise); destination *image.RGBA",
        "coverage is all or nothing: anti-aliased edge pixels are not compared",
        "on the Renderer route a transparent fill is not drawn at all (C04), so sequences that fill with it under Src are cut there"])
