"""X05 - (beyond the listed properties) raster/vec.Rasterizer: the one-shot compositing operator.

VecRast.tla models the wrapper around golang.org/x/image/vector that every pixel-level check draws
through: state = the DrawOp field and three pixels of an RGBA destination (covered by the path /
inside the rectangle but not covered / outside the rectangle); Draw composites with the current
operator (Over: src*mask + dst*(1 - alpha*mask); Src: src*mask, which clears the uncovered part of
the rectangle) in the exact 16-bit arithmetic of the uniform-source fast paths (Big.tla for the
32-bit products) and leaves draw.Over behind.  Named deviation ResetKeepsOp: the interface
documents that Reset sets DrawOp to Over; the Reset a vec.Rasterizer has is the embedded one, which
does not touch the field Draw copies from - the model says what the code does.
GEN_VecRast (TLC): every call sequence up to depth 3 / 4 over {SetOp, Reset, Fill(6 colours), FillEmpty} on
three backgrounds: OneShot, OpOfFill, RingTells, OutKept, StaysPremul, OpaqueWins; each sequence is
printed with the expected state after every step and replayed on a real vec.Rasterizer (directly
and through a render.Renderer, rectangle at and away from the image origin).
Not a listed property: a deviation is reported as EXTRA-DEVIATION, never as VIOLATION."""
import json, os
from lib import vlib, deccheck, vecrastcheck


def run(ctx):
    quick = ctx.tier == "quick"
    ctx.build_harness()
    v = vecrastcheck.run_vecrast(ctx, "GEN_VecRast" if quick else "GEN_VecRast_t")
    cov = dict(states=v["states"], transitions=v["transitions"], traces_validated_against_impl=v["sequences"],
               sequences=v["sequences"], steps_compared=v["steps_compared"], exhaustive=True)
    return vlib.finish(ctx, "model_checking", cov, [
        "sources are premultiplied colours (the fast paths' 32-bit products wrap otherwise); destination *image.RGBA",
        "coverage is all or nothing: anti-aliased edge pixels are not compared",
        "on the Renderer route a transparent fill is not drawn at all (C04), so sequences that fill with it under Src are cut there"])
