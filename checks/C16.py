"""C16 - pixels are invariant under re-expression of the same picture.

The anti-aliasing accumulator of golang.org/x/image/vector is trusted and not modelled; the
specification (GEN_Pixels over Renderer.tla) defines WHEN two renderings must be the same picture and
checks, at rasteriser-log level on every generated program, that the relations are consequences of
the specified renderer: (a) rectangle at another origin (TranslateSame), (b) viewBox, coordinates,
radii times 2^k and gradient matrices' linear part times 2^-k (ScaleSame), (c) colours through
palette / register / blend (IndirectSame).  TLC prints every program (1-2 paths quick, 1-3
thorough, over 5 paints x 4 shapes incl. arcs and gradients) with its scaled (k = -1, 1, 2) and
indirect (3 ways) variants; the Go replayer renders all of them with the real vec.Rasterizer into
image.RGBA and image.Alpha at sizes 1..600 (crossing the fixed/float threshold at 512), at an
offset inside a larger pre-filled image, with draw.Src on a pre-filled destination versus draw.Over
on a clear one, and compares pixel buffers byte for byte; pixels outside the target rectangle must
keep the sentinel; the operator used by each Draw is read from the inner rasteriser."""
import json, os
from lib import vlib, deccheck


def run(ctx):
    quick = ctx.tier == "quick"
    ctx.build_harness()
    gen = os.path.join(ctx.tmp, "pixels.out")
    g = ctx.tlc("GEN_Pixels", "GEN_Pixels_q" if quick else "GEN_Pixels_t", timeout=3400, out_file=gen)
    if g["error"] or not g["finished"]:
        raise vlib.Broken("GEN_Pixels failed (spec-level):\n" + vlib.tail(g["out"]))
    ctx.mc.append({k: g[k] for k in ("module", "cfg", "generated", "distinct", "wall_s")})
    mis = os.path.join(ctx.tmp, "pixels.mis")
    p, _ = ctx.run_harness(["replay-pixels", "-in", gen, "-out", mis], timeout=3400)
    s = deccheck.summary_of(p)
    if s["programs"] < 100:
        raise vlib.Broken("too few generated programs: %d" % s["programs"])
    sample = None
    for line in open(mis):
        m = json.loads(line)
        ctx.violation("%s:%s:%d:%s" % (m["kind"], m["image"], m["size"], m["key"].split(":", 1)[1][:80]),
                      "renderings that must coincide differ: %s (%d differing bytes)" % (m["kind"], m["ndiff"]), m)
    for line in open(gen):
        if '\\"diag\\":\\"pixels\\"' in line:
            sample = json.loads(json.loads(line.strip()))
            for c in sample["prog"]:
                if c.get("pal"):
                    c["pal"] = "64 entries"
            sample = dict(prog=sample["prog"], ndraws=sample["ndraws"], variants="scaled k=-1,1,2; indirect ways 1..3 (elided)")
            break
    cov = dict(evaluations=s["pairs"], distinct_nontrivial=s["programs"],
               rule="pairs (program, variant) rendered and compared; distinct = generated programs (each distinct by construction)",
               samples=[sample], states=g["distinct"], transitions=g["generated"],
               traces_validated_against_impl=s["programs"], pairs=s["pairs"], exhaustive=True)
    return vlib.finish(ctx, "exploration", cov, [
        "pixel values themselves are never predicted: a defect changing both members of a pair identically is invisible here (C04/C05/C15 predict the rasteriser's inputs exactly instead)",
        "x/image/vector is trusted third-party code"])
