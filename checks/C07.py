"""C07 - rendering directly equals rendering via encode+decode; selectors agree.

MC : MC_Renderer - SelAgree: the Encoder model and the Renderer model hold the same selectors after
     every call of every well-formed program of the bound (incrementing writes included).
TV : random sequences interleaving selector writes, incrementing / plain register writes, selector
     read-backs and Generator helpers are driven through P1 = Generator -> Renderer and
     P2 = Generator -> Encoder -> bytes -> Decoder -> Renderer, each optionally through
     DestinationLogger.  Every selector the real Encoder or Renderer reports (after each call and at
     each read-back inside the helpers) must equal, modulo 64, the decoding machine's value
     (TV_Encoder 'sel', TV_Renderer 'selectors'/'read'); the bytes must decode to the issued calls
     (TV_RoundTrip); and both the direct Renderer and the one fed by the decoder must emit exactly
     the rasteriser calls and paints Renderer.tla prescribes for those calls (lattice geometry), so
     that the two pipelines agree."""
from lib import vlib, gencheck, rendcheck


def run(ctx):
    quick = ctx.tier == "quick"
    ctx.build_harness()
    ctx.tlc_must_pass("MC_Renderer", "MC_Renderer_q" if quick else "MC_Renderer_t", timeout=3000)
    r = gencheck.run_gen(ctx, 60 if quick else 6000)
    for d in r["diags"]["rend"]:
        cls = rendcheck.classify(d)
        if cls in ("sel", "vm", "raster", "pipe"):
            ctx.violation("rend:%s:%s:%s" % (cls, d.get("what"), d.get("id")),
                          "pipeline differs from the decoding machine: %s" % d.get("what"), gencheck.short(d))
        elif cls == "gen" and "selectors" in str(d.get("what")):
            w = d.get("want", {})
            if isinstance(w, dict) and (w.get("cSel") != w.get("cSel0") or w.get("nSel") != w.get("nSel0")):
                ctx.violation("rend:gen-sel:%s" % d.get("id"), "helper left other selectors than it found", gencheck.short(d))
    for kind in ("enc", "rt"):
        for d in r["diags"][kind]:
            ctx.violation("%s:%s:%s" % (kind, d.get("diag"), d.get("id")),
                          "pipeline differs: %s" % d.get("diag"), gencheck.short(d))
    # the Encoder half on never-Reset Encoders whose first call coincides with the initial state (what is written must
    # decode to what was called) and with runs of every drawing verb at and beyond the repeat limits of the opcodes, and
    # the Renderer half when the target is set late or changed between paths
    from lib import enccheck
    z = enccheck.run_enc_traces(ctx, ["zerofirst", "wellformed", "runs", "longruns"], 90 if quick else 3000, ["err", "mode", "run", "lod", "sel"], want=("enc", "rt", "dec"), sub="zerofirst", shards=4)
    for kind, ds in z["diags"].items():
        for d in ds:
            ctx.violation("zerofirst:%s:%s:%s" % (kind, d.get("diag"), d.get("id")),
                          "never-Reset Encoder: trace rejected by %s" % kind, enccheck.trim(d))
    g = rendcheck.run_rend_traces(ctx, ["geometry"], 90 if quick else 3000, sub="direct")
    for d in g["diags"]:
        cls = rendcheck.classify(d)
        if cls in ("sel", "vm", "raster"):
            ctx.violation("direct:%s:%s:%s" % (cls, d.get("what"), d.get("id")),
                          "direct Renderer differs from the decoding machine: %s" % d.get("what"), gencheck.short(d))
    mc = ctx.mc[-1]
    st = r["summary"]["stats"]
    cov = dict(states=mc["distinct"], transitions=mc["generated"],
               traces_validated_against_impl=st.get("P1", 0) + 3 * st.get("P2", 0),
               samples=[gencheck.short(x) for x in vlib.sample_lines(r["files"]["enc"][0], 4, 100000)],
               evaluations=r["lines"], distinct_nontrivial=st.get("P1", 0) + st.get("P2", 0),
               rule="one sequence through each pipeline / logger variant", stats=st)
    return vlib.finish(ctx, "model_checking", cov, [
        "sequences use lattice coordinates so that quantisation is the identity and both pipelines must agree exactly",
        "stdout of DestinationLogger is discarded"])
