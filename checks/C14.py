"""C14 - palette options override exactly what they say, and are sanitised.

ApplyOpts in Decoder.tla: a left fold of the option list over the suggested palette (full
replacement / single-index override), then user-supplied entries that are not valid premultiplied
colours act as opaque black.  MC_Decoder covers the machine; MC_Options enumerates all option lists
of length <= 3 over an abstract alphabet (last writer wins, untouched indices keep the suggested
colour, no invalid colour survives).  TV: every option list of length <= 3 (and every colour model
at every index) is passed to the real Decode on graphics that use palette indices as initial CREG
contents, via a register write of customPalette[i] (after CREG[i] was overwritten) and inside
blends; the Reset arguments (TV_Decoder) and the registers/paints at Draw (TV_Renderer) are
validated; the encoded bytes and the caller's palette arrays must stay unmodified."""
import glob, os
from lib import vlib, deccheck, rendcheck


def run(ctx):
    ctx.build_harness()
    ctx.tlc_must_pass("MC_Options", "MC_Options", timeout=900)
    p, _ = ctx.run_harness(["drive-c14", "-out", ctx.tmp, "-shards", "8"], timeout=3000)
    summ = deccheck.summary_of(p)
    dfiles = sorted(glob.glob(os.path.join(ctx.tmp, "dec.*.ndjson")))
    rfiles = sorted(glob.glob(os.path.join(ctx.tmp, "rend.*.ndjson")))
    _, ddiags, _ = vlib.tv_shards(ctx, "TV_Decoder", "TV_Decoder", dfiles, expect_all=False)
    _, rdiags, _ = vlib.tv_shards(ctx, "TV_Renderer", "TV_Renderer", rfiles, expect_all=False)
    lines = sum(vlib.count_lines(f) for f in dfiles + rfiles)
    got = sum(d.get("lines", 0) for d in ddiags + rdiags if d.get("diag") == "summary")
    if got != lines:
        raise vlib.Broken("trace validation consumed %d of %d lines" % (got, lines))
    for d in ddiags:
        if d.get("diag") == "summary":
            continue
        models = [o.get("model", o.get("k")) for o in d.get("ev", {}).get("opts", [])] if isinstance(d.get("ev"), dict) else []
        ctx.violation("dec:%s:%s" % (d.get("diag"), d.get("id")), "decode with palette options: %s" % d.get("diag"), d)
    for d in rdiags:
        if d.get("diag") == "summary":
            continue
        if rendcheck.classify(d) == "vm":
            ctx.violation("rend:" + rendcheck.vkey(d), "render with palette options: %s" % d.get("what"), d)
    mc = ctx.mc[-1]
    st = summ["stats"]
    cov = dict(states=mc["distinct"], transitions=mc["generated"],
               traces_validated_against_impl=2 * st.get("options.inputs", 0),
               samples=vlib.sample_lines(dfiles[0], 1, 3000),
               evaluations=lines, distinct_nontrivial=st.get("options.inputs", 0),
               rule="one decode per (graphic, option list); graphics x all lists of length <= 3 over 5 option atoms + every colour model at every index",
               stats=st, graphics=summ["graphics"])
    return vlib.finish(ctx, "model_checking", cov, [
        "color.Color models other than RGBA are converted by the harness with color.RGBAModel (trusted); the specification is told the converted value",
        "index outside 0..63 is a caller error and is not generated"])
