"""C09 - colours are stored exactly; colour forms and blending follow the tables.

MC : MC_Colors - the 1-byte table, all 65536 two-byte colours, blend endpoints and monotonicity
     (=> premultiplied-ness preserved) for all (t, x, z), gradient field packing.
TV : every colour the real Encoder writes (register writes of RGBA classes, gradients, palette /
     register references, blends; suggested palettes of every entry count and format mix), every
     byte pattern the real decoder reads, and Color.Resolve / Renderer.SetCReg results over four
     palette/register contexts are judged by TV_Colors.tla."""
import glob, json, os
from lib import vlib


def run(ctx):
    ctx.build_harness()
    ctx.tlc_must_pass("MC_Colors", "MC_Colors", timeout=900)
    p, _ = ctx.run_harness(["drive-c09", "-out", ctx.tmp, "-shards", "16" if ctx.tier == "quick" else "48"])
    summ = json.loads([l for l in p.stdout.splitlines() if l.startswith("@@SUMMARY ")][-1][10:])
    files = sorted(glob.glob(os.path.join(ctx.tmp, "c09.*.ndjson")))
    events, diags, runs = vlib.tv_shards(ctx, "TV_Colors", "TV_Colors", files)
    for d in diags:
        ev = d.get("ev", {})
        if ev.get("ev") == "palette":
            key = "palette:" + str(ev.get("path"))
        else:
            key = "%s:%s:%s" % (ev.get("ev"), ev.get("path"), json.dumps(ev.get("c") or ev.get("b")))
        for k in ("pal", "creg", "got"):
            if k in ev and len(json.dumps(ev[k])) > 600:
                ev[k] = "(elided)"
        ctx.violation(key, "colour event rejected by Colors.tla", d)
    mc = ctx.mc[-1]
    cov = dict(states=mc["distinct"], transitions=mc["generated"],
               traces_validated_against_impl=events,
               samples=vlib.sample_lines(files[0], 8, 500)[4:],
               evaluations=events, distinct_nontrivial=events - 4 * len(files),
               rule="one event per (path, colour | byte pattern | palette); ctx lines excluded",
               per_kind_events=summ["counts"], exhaustive=False)
    return vlib.finish(ctx, "model_checking", cov, [
        "RGBA values are class-exhaustive per channel plus one channel fully exhaustive, not all 2^32",
        "ivg.Color's private fields are read by reflection in the harness",
        "only valid premultiplied suggested-palette entries are required to survive (as the property says)"])
