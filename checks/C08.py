"""C08 - number encodings: lossless where possible, bounded error, minimal.

MC : MC_Numbers  - the contract predicates of Numbers.tla are satisfiable by a canonical
     encoder on every sign/exponent x boundary mantissas, the whole 1/64 grid, and the
     decoders are idempotent on all 1- and 2-byte patterns (spec-level; failure = exit 2).
TV : the Go driver pushes float32/natural classes through every public number-writing
     path and every byte pattern through the decoders; TV_Numbers.tla judges each event."""
import glob, json, os
from lib import vlib


def run(ctx):
    quick = ctx.tier == "quick"
    ctx.build_harness()
    ctx.tlc_must_pass("MC_Numbers", "MC_Numbers", timeout=600)
    shards = 16 if quick else 64          # <= ~250 k events per trace file
    nrand = 6000 if quick else 400000
    p, _ = ctx.run_harness(["drive-c08", "-out", ctx.tmp, "-shards", str(shards),
                            "-random", str(nrand)])
    summ = json.loads([l for l in p.stdout.splitlines() if l.startswith("@@SUMMARY ")][-1][10:])
    files = sorted(glob.glob(os.path.join(ctx.tmp, "c08.*.ndjson")))
    events, diags, runs = vlib.tv_shards(ctx, "TV_Numbers", "TV_Numbers", files)
    for d in diags:
        ev = d.get("ev", {})
        key = "%s/%s/%s" % (ev.get("ev"), ev.get("kind"), ev.get("path"))
        ctx.violation(key + ":" + json.dumps(ev.get("v", ev.get("b"))),
                      "number codec event rejected by Numbers.tla", d)
    mc = ctx.mc[-1]
    cov = dict(states=mc["distinct"], transitions=max(1, mc["generated"]),
               traces_validated_against_impl=events,
               samples=vlib.sample_lines(files[0], 4),
               evaluations=events, distinct_nontrivial=summ["floats"] + summ["patterns"],
               rule="distinct float32 bit patterns + distinct byte patterns driven; an event is one "
                    "(path, value|bytes) observation of the real code judged by TV_Numbers.tla",
               per_path_events=summ["counts"], exhaustive=False,
               explanation="every 1-byte pattern, %s 2-byte patterns, every sign/exponent with boundary "
                           "mantissas (+-4 ulp neighbourhoods), the 1/64 and 1/15120 grids, random patterns"
                           % ("every third" if quick else "all 16384"))
    return vlib.finish(ctx, "model_checking", cov, [
        "harness slices instruction bytes at fixed offsets only; all judging is in TV_Numbers.tla",
        "NaN payloads compared as a class (non-finite), per the property",
        "raw codec wrappers are verif-tagged hooks (encode/decode verif_export.go)"])
