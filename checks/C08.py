"""C08 - number encodings: lossless where possible, bounded error, minimal.

MC : MC_Numbers  - the contract predicates of Numbers.tla are satisfiable by a canonical
     encoder on every sign/exponent x boundary mantissas, the whole 1/64 grid, and the
     decoders are idempotent on all 1- and 2-byte patterns (spec-level; failure = exit 2).
TV : the Go driver pushes float32/natural classes through every public number-writing
     path and every byte pattern through the decoders; TV_Numbers.tla judges each event."""
import glob, json, os
from lib import vlib


def run(ctx):
    quick = ctx.tier == "quick"
    ctx.build_harness()
    ctx.tlc_must_pass("MC_Numbers", "MC_Numbers", timeout=600)
    shards = 16 if quick else 64          # <= ~250 k events per trace file
    nrand = 6000 if quick else 400000
    p, _ = ctx.run_harness(["drive-c08", "-out", ctx.tmp, "-shards", str(shards),
                            "-random", str(nrand)])
    summ = json.loads([l for l in p.stdout.splitlines() if l.startswith("@@SUMMARY ")][-1][10:])
    files = sorted(glob.glob(os.path.join(ctx.tmp, "c08.*.ndjson")))
    events, diags, runs = vlib.tv_shards(ctx, "TV_Numbers", "TV_Numbers", files)
    for d in diags:
        ev = d.get("ev", {})
        key = "%s/%s/%s" % (ev.get("ev"), ev.get("kind"), ev.get("path"))
        ctx.violation(key + ":" + json.dumps(ev.get("v", ev.get("b"))),
                      "number codec event rejected by Numbers.tla", d)
    # numbers inside whole programs (special values, custom and sub-unit viewBoxes, both resolutions) and inside long runs
    # of one drawing verb (batches beyond an opcode's repeat limit): what is written must
    # read back as what was passed, number by number (TV_RoundTrip: quantisation / tolerance predicates of Numbers.tla)
    from lib import enccheck
    lr = enccheck.run_enc_traces(ctx, ["runs", "longruns", "arcshapes", "wellformed"], 150 if quick else 6000, ["err"], want=("rt",), sub="runs")
    for d in lr["diags"]["rt"]:
        ctx.violation("runs:%s:%s" % (d.get("diag"), d.get("id")), "numbers of a long run do not read back", enccheck.trim(d))
    sweep = None
    if not quick:
        # exhaustive: all 2^32 float32 patterns through the three float encoders, all 2^30 four-byte patterns
        # through the decoders, summarised into runs by the harness and judged run by run (TV_Numbers: JudgeRun)
        p2, _ = ctx.run_harness(["sweep-c08", "-out", ctx.tmp, "-shards", "64"], timeout=3400)
        sweep = json.loads([l for l in p2.stdout.splitlines() if l.startswith("@@SUMMARY ")][-1][10:])
        for k in ("real", "coordinate", "zeroToOne"):
            if sweep["covered"].get(k) != 2 ** 32:
                raise vlib.Broken("sweep covered %s of 2^32 patterns for %s" % (sweep["covered"].get(k), k))
        sfiles = sorted(glob.glob(os.path.join(ctx.tmp, "c08sweep.*.ndjson")))
        sevents, sdiags, _ = vlib.tv_shards(ctx, "TV_Numbers", "TV_Numbers", sfiles)
        for d in sdiags:
            ev = d.get("ev", {})
            ctx.violation("sweep:%s:%s:%s" % (ev.get("ev"), ev.get("kind"), json.dumps(ev.get("lo", ev.get("v")))),
                          "exhaustive sweep event rejected by Numbers.tla", d)
        events += sevents
    mc = ctx.mc[-1]
    cov = dict(states=mc["distinct"], transitions=max(1, mc["generated"]),
               traces_validated_against_impl=events,
               samples=vlib.sample_lines(files[0], 4),
               evaluations=events, distinct_nontrivial=summ["floats"] + summ["patterns"],
               rule="distinct float32 bit patterns + distinct byte patterns driven; an event is one "
                    "(path, value|bytes) observation of the real code judged by TV_Numbers.tla",
               per_path_events=summ["counts"], exhaustive=bool(sweep), sweep=sweep,
               trusted_base=["TLC", "harness run-length summariser of sweep-c08 (signature + merging of aligned 4-pattern blocks)",
                             "verif-tagged raw codec wrappers"],
               explanation="every 1-byte pattern, %s 2-byte patterns, every sign/exponent with boundary "
                           "mantissas (+-4 ulp neighbourhoods), the 1/64 and 1/15120 grids, random patterns"
                           % ("every third" if quick else "all 16384"))
    if sweep:
        cov["explanation"] += ("; thorough: ALL 2^32 float32 patterns x {real, coordinate, zero-to-one} encoders and all 2^30 "
                               "four-byte patterns x decoders, summarised into %d runs + %d individually judged patterns"
                               % (sum(sweep["runs"].values()), sum(sweep["points"].values())))
    return vlib.finish(ctx, "model_checking", cov, [
        "harness slices instruction bytes at fixed offsets only; all judging is in TV_Numbers.tla",
        "NaN payloads compared as a class (non-finite), per the property",
        "raw codec wrappers are verif-tagged hooks (encode/decode verif_export.go)"])
