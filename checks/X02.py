"""X02 - (beyond the listed properties) the disassembler command cmd/disivg as a machine over files.

Cli.tla: a run either prints the complete listing on standard output or *replaces* the named output
file by it; the file afterwards depends only on that run (no tail of an earlier, longer listing
survives); a failing run (missing / ill-formed input, wrong number of arguments) writes nothing and
exits non-zero; only the named file changes.  GEN_Cli checks these under TLC for every command
sequence up to depth 3 over 4 inputs x 3 outputs (+ usage errors) and prints each sequence with the
expected state after every step; the Go replayer runs the real binary, built from the repository
under test, step by step in a scratch directory and compares files, standard output and exit code.
Not a listed property: a deviation is reported as EXTRA-DEVIATION, never as VIOLATION."""
import json, os, subprocess
from lib import vlib, deccheck


def run(ctx):
    ctx.build_harness()
    binp = os.path.join(ctx.tmp, "disivg")
    env = dict(os.environ, GOFLAGS="-mod=mod", GOPROXY="off", GOSUMDB="off", GOTOOLCHAIN="local")
    p = subprocess.run(["go", "build", "-o", binp, "./cmd/disivg"], cwd=vlib.REPO, env=env, capture_output=True, text=True)
    if p.returncode != 0:
        raise vlib.Broken("cmd/disivg does not build:\n" + p.stdout + p.stderr)
    gen = os.path.join(ctx.tmp, "GEN_Cli.out")
    g = ctx.tlc("GEN_Cli", "GEN_Cli" if ctx.tier == "quick" else "GEN_Cli_t", timeout=1800, out_file=gen)
    if g["error"] or not g["finished"]:
        raise vlib.Broken("GEN_Cli failed (spec-level):\n%s" % vlib.tail(g["out"]))
    ctx.mc.append({k: g[k] for k in ("module", "cfg", "generated", "distinct", "wall_s")})
    mis = os.path.join(ctx.tmp, "cli.mis")
    work = os.path.join(ctx.tmp, "cliwork")
    os.makedirs(work, exist_ok=True)
    p, _ = ctx.run_harness(["replay-cli", "-in", gen, "-out", mis, "-bin", binp, "-work", work], timeout=3000)
    s = deccheck.summary_of(p)
    if s["cases"] < 1000:
        raise vlib.Broken("too few generated sequences: %d" % s["cases"])
    for line in open(mis):
        m = json.loads(line)
        ctx.violation("cli:%s:%s" % (m["what"][:40], "|".join(m["seq"])),
                      "cmd/disivg differs from Cli.tla after %s: %s" % (" ; ".join(m["seq"]), m["what"]), m)
    cov = dict(states=g["distinct"], transitions=g["generated"], traces_validated_against_impl=s["cases"],
               process_runs=s["process_runs"], listing_bytes=[s["listing_big"], s["listing_small"]], exhaustive=True)
    return vlib.finish(ctx, "model_checking", cov, [
        "inputs: the largest and the smallest well-formed corpus graphic, a truncated one, a missing path; outputs: stdout and two files, one of which pre-exists with stale content of intermediate length",
        "what a complete listing is comes from decode.Disassemble (the subject of C11)"])
