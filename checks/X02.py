"""X02 - (beyond the listed properties) the disassembler command cmd/disivg as a machine over files.

Cli.tla: a run either prints the complete listing on standard output or *replaces* the named output
file by it; the file afterwards depends only on that run (no tail of an earlier, longer listing
survives); a failing run (missing / ill-formed input, wrong number of arguments) writes nothing and
exits non-zero; only the named file changes.  GEN_Cli checks these under TLC for every command
sequence up to depth 3 over 4 inputs x 3 outputs (+ usage errors) and prints each sequence with the
expected state after every step; the Go replayer runs the real binary, built from the repository
under test, step by step in a scratch directory and compares files, standard output and exit code.
Not a listed property: a deviation is reported as EXTRA-DEVIATION, never as VIOLATION."""
from lib import vlib, clicheck


def run(ctx):
    ctx.build_harness()
    c = clicheck.run_cli(ctx, "GEN_Cli" if ctx.tier == "quick" else "GEN_Cli_t")
    cov = dict(states=c["states"], transitions=c["transitions"], traces_validated_against_impl=c["sequences"],
               process_runs=c["process_runs"], listing_bytes=c["listing_bytes"], exhaustive=True)
    return vlib.finish(ctx, "model_checking", cov, [
        "inputs: the largest and the smallest well-formed corpus graphic, a truncated one, a missing path; outputs: stdout and two files, one of which pre-exists with stale content of intermediate length",
        "what a complete listing is comes from decode.Disassemble (the subject of C11)"])
