"""X03 - (beyond the listed properties) the Encoder's byte stream, exactly.

EncoderBytes.tla extends the Encoder's control model by the bytes it writes: lazy default header,
metadata chunks only when they differ from the defaults (palette entries up to the last non-black
one in the shortest common format), shortest exact number and colour forms, SetNReg's choice among
its three number kinds, buffering of repeated drawing verbs with flushes at verb changes / moves /
end of path / Bytes(), batches of 32 / 16 / 1 repetitions, quantisation at the latched resolution.
MC_EncoderBytes (TLC): for every history of the bound (depth 3 quick / 4 thorough over a 29-call
alphabet reaching every form) the decoding machine of Decoder.tla run over the model's bytes
delivers the history up to quantisation and stops there (C01 inside the specification), plus
minimality of the forms against Numbers.tla / Colors.tla.  TV_EncoderBytes: the bytes of real
Encoders (all drive-enc families: well-formed, illegal, long runs, never-Reset, reuse, corpus
transcoding) equal the model's bytes, byte for byte.  Not a listed property (they constrain what the
bytes denote, not the bytes): a deviation is reported as EXTRA-DEVIATION, never as VIOLATION."""
import glob, os
from lib import vlib, deccheck, enccheck


def run(ctx):
    quick = ctx.tier == "quick"
    ctx.build_harness()
    ctx.tlc_must_pass("MC_EncoderBytes", "MC_EncoderBytes_q" if quick else "MC_EncoderBytes_5", timeout=3400)
    shards = 8 if quick else 32
    p, _ = ctx.run_harness(["drive-enc", "-out", ctx.tmp, "-shards", str(shards), "-n", str(300 if quick else 20000),
                            "-families", "wellformed,runs,longruns,arcshapes,zerofirst,illegal,open,reuse,converse", "-cmp", "err"], timeout=3000)
    summ = deccheck.summary_of(p)
    files = [f for f in sorted(glob.glob(os.path.join(ctx.tmp, "rt.*.ndjson"))) if os.path.getsize(f) > 0]
    events, diags, runs = vlib.tv_shards(ctx, "TV_EncoderBytes", "TV_EncoderBytes", files, expect_all=False)
    tot = dict(lines=0, nbad=0, unjudged=0, judged=0)
    for d in diags:
        if d.get("diag") == "summary":
            for k in tot:
                tot[k] += d.get(k, 0)
        else:
            ctx.violation("bytes:%s:%s" % (d.get("diag"), d.get("id")), "real Encoder bytes differ from EncoderBytes.tla", enccheck.trim(d))
    lines = sum(vlib.count_lines(f) for f in files)
    if tot["lines"] != lines:
        raise vlib.Broken("TV_EncoderBytes consumed %d of %d lines" % (tot["lines"], lines))
    if tot["judged"] < 200:
        raise vlib.Broken("vacuous: only %d histories compared" % tot["judged"])
    mc = ctx.mc[-1]
    cov = dict(states=mc["distinct"], transitions=mc["generated"], traces_validated_against_impl=tot["judged"],
               histories_compared_byte_for_byte=tot["judged"], histories_outside_the_model=tot["unjudged"],
               events=lines, driver=summ["stats"], exhaustive=False)
    return vlib.finish(ctx, "model_checking", cov, [
        "histories containing a non-finite arc angle are outside the model and are not compared",
        "the model's float32 arithmetic (f * 15120 rounded to nearest even, the angle's fractional part) is integer arithmetic in F32.tla terms"])
