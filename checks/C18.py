"""C18 - independent decodes, renders and encodes are safe to run concurrently.

MC  : Pipelines.tla - N = 3 decoding machines over shared byte strings, every interleaving at
      delivered-call granularity: SharedUnchanged, SerialResult (each instance's deliveries equal
      its run alone), Isolation (a step of one instance changes nothing of another).
GEN : every complete interleaving (60 060 schedules; every 40th in quick) is printed by TLC and
      imposed on three real goroutines by a gate in the wrapping Destination (one instance runs at
      a time, exactly in the schedule's order); the instances are drawn from 124 real pipelines
      (decode -> recorder / Renderer / Encoder / vec pixels with palette options, Disassemble,
      Generator -> Encoder, mdicons.ParsePath, colour/viewBox helpers, a reused zero-value Encoder)
      sharing the input byte slices, a palette array and the package-level defaults.  Every
      pipeline's output must equal its output when run alone IN A FRESH PROCESS, and the hash of
      the shared inputs and of every package-level variable (verif hooks) must not change.
Race: the same pipelines run freely on 16-32 goroutines under the Go race detector with GOMAXPROCS
      2, 8 and 16; a race report or a result differing from the run-alone result is a violation."""
import json, os, re, subprocess
from lib import vlib, deccheck


def run(ctx):
    quick = ctx.tier == "quick"
    h = ctx.build_harness()
    hr = ctx.build_harness(race=True)
    ctx.tlc_must_pass("Pipelines", "MC_Pipelines", timeout=900)
    ctx.tlc_must_pass("Pipelines", "MC_Pipelines4", timeout=900)          # four instances
    gen = os.path.join(ctx.tmp, "sched.out")
    g = ctx.tlc("Pipelines", "GEN_Pipelines", timeout=1800, out_file=gen)
    if g["error"] or not g["finished"]:
        raise vlib.Broken("GEN_Pipelines failed:\n" + vlib.tail(g["out"]))
    # run-alone results, one fresh process per pipeline
    p, _ = ctx.run_harness(["c18", "-mode", "list"])
    names = p.stdout.split()
    base = os.path.join(ctx.tmp, "c18.base")
    with open(base, "w") as bf:
        for nme in names:
            q, _ = ctx.run_harness(["c18", "-mode", "one", "-pipeline", nme])
            m = re.search(r"@@BASE (\S+) (\S+) (\S+) (\S+) (\S+)", q.stdout)
            if not m:
                raise vlib.Broken("no baseline for " + nme)
            bf.write("%s %s\n" % (m.group(1), m.group(2)))
            if m.group(4) != "true":
                ctx.violation("shared:alone:" + nme, "a pipeline run alone wrote to shared inputs or package-level variables", dict(pipeline=nme))
            if m.group(5) != "true":
                ctx.violation("repeat:alone:" + nme, "a pipeline run twice in one process gives different results", dict(pipeline=nme))
    # schedule replay
    mis = os.path.join(ctx.tmp, "c18.mis")
    p, _ = ctx.run_harness(["c18", "-mode", "sched", "-in", gen, "-base", base, "-out", mis,
                            "-stride", "40" if quick else "1"], timeout=3000)
    ss = deccheck.summary_of(p)
    if ss["schedules"] < 100:
        raise vlib.Broken("too few schedules replayed: %d" % ss["schedules"])
    for line in open(mis):
        m = json.loads(line)
        ctx.violation("sched:%s:%s" % (m["kind"], m["key"]), "under an imposed interleaving: " + m["key"], m)
    # free running under the race detector
    free_runs = 0
    races = 0
    for procs in (2, 8, 16):
        mis2 = os.path.join(ctx.tmp, "c18.free%d.mis" % procs)
        q, _ = ctx.run_harness(["c18", "-mode", "free", "-secs", "4" if quick else "120", "-base", base, "-out", mis2],
                               binary=hr, env=dict(GOMAXPROCS=str(procs), GORACE="halt_on_error=0 exitcode=0"),
                               timeout=3000, check=False)
        if "@@SUMMARY" not in q.stdout:
            raise vlib.Broken("race-detector run died:\n" + q.stderr[-3000:])
        free_runs += deccheck.summary_of(q)["runs"]
        reports = q.stderr.split("WARNING: DATA RACE")[1:]
        for rep in reports:
            races += 1
            frames = re.findall(r"^\s+(github\.com/reactivego/ivg[^\s(]*)", rep, re.M)
            key = "race:" + ">".join(dict.fromkeys(frames[:4]))
            ctx.violation(key, "data race reported by the Go race detector", dict(gomaxprocs=procs, report=rep[:2500]))
        for line in open(mis2):
            m = json.loads(line)
            ctx.violation("free:%s:%s" % (m["kind"], m["key"]), "while running concurrently: " + m["key"], m)
    mc = dict(distinct=sum(m["distinct"] for m in ctx.mc), generated=sum(m["generated"] for m in ctx.mc))
    cov = dict(states=mc["distinct"], transitions=mc["generated"],
               traces_validated_against_impl=ss["schedules"],
               samples=[dict(schedule=[1, 1, 2, 3, 2, 1, 3], meaning="instance numbers in the order their gated calls are released; 1 + (position mod 4) calls per token"),
                        dict(pipelines=names[:6] + names[-4:])],
               evaluations=ss["runs"] + free_runs, distinct_nontrivial=ss["schedules"],
               rule="one imposed interleaving of three real pipelines per schedule; free-running pipeline executions under -race",
               pipelines=len(names), schedule_runs=ss["runs"], free_runs=free_runs, race_reports=races,
               generated_schedules=g["distinct"])
    return vlib.finish(ctx, "model_checking", cov, [
        "absence of races is established for the executions run: the race detector is a dynamic instrument (trusted base)",
        "schedule replay is exhaustive only at call granularity for N = 3 instances of the model's step counts; longer pipelines are drained round-robin",
        "writes to package-level variables are detected through the verif-tagged VerifSharedHash hooks (known variables) and through results differing from a fresh process (any variable that matters)"])
