"""C05 - path geometry reaches the rasteriser correctly mapped from viewBox to pixels.

Renderer.tla computes the rasteriser calls of every drawing operation in exact fixed point on a
lattice (coordinates multiples of 1/64, dyadic scales incl. non-uniform 3 x 2.5, off-centre
viewBoxes, rectangles at non-zero origins) where IEEE arithmetic is exact, so the comparison with
the real Renderer's calls is equality of coordinates.  TV: random drawing programs, all ordered
verb pairs (smooth-curve memory), corpus files at lattice-compatible sizes, reuse runs."""
from lib import vlib, rendcheck


def run(ctx):
    quick = ctx.tier == "quick"
    ctx.build_harness()
    ctx.tlc_must_pass("MC_Renderer", "MC_Renderer_q" if quick else "MC_Renderer_t", timeout=3000)
    r = rendcheck.run_rend_traces(ctx, ["geometry", "corpus", "reuse", "arcs"], 500 if quick else 30000)
    for d in r["diags"]:
        if rendcheck.classify(d) == "raster":
            ctx.violation(rendcheck.vkey(d), "rasteriser calls differ from the mapped path: %s" % d.get("what"), d)
    # "every drawn path reaches the rasteriser": register-machine programs (flat, gradient and unpainted paths in every
    # order) - a path the machine paints must arrive, a path it does not paint must cause no activity
    v = rendcheck.run_rend_traces(ctx, ["vm"], 60 if quick else 3000, sub="vm")
    for d in v["diags"]:
        if rendcheck.classify(d) == "raster" or (d.get("diag") == "vm" and d.get("what") in ("path enabling", "rasteriser activity where none is allowed")):
            ctx.violation(rendcheck.vkey(d), "a path does not reach the rasteriser as drawn: %s" % d.get("what"), d)
    mc = ctx.mc[-1]
    # "drawn ... over the target rectangle", through the bundled vec.Rasterizer: the single-path programs of GEN_Pixels
    # rendered at an offset, with the rectangle overhanging the image's corner, and into empty rectangles (pixel level)
    import json, os
    gen = os.path.join(ctx.tmp, "gen_pixels1.out")
    g = ctx.tlc("GEN_Pixels", "GEN_Pixels_1", timeout=1800, out_file=gen)
    if g["error"] or not g["finished"]:
        raise vlib.Broken("GEN_Pixels failed (spec-level):\n%s" % vlib.tail(g["out"]))
    mis = os.path.join(ctx.tmp, "pixels1.mis")
    pp, _ = ctx.run_harness(["replay-pixels", "-in", gen, "-out", mis], timeout=3000)
    px = json.loads([l for l in pp.stdout.splitlines() if l.startswith("@@SUMMARY ")][-1][10:])
    if px["programs"] < 40:
        raise vlib.Broken("too few generated programs: %d" % px["programs"])
    for line in open(mis):
        m = json.loads(line)
        if m["kind"] in ("overhang", "outside", "translate") or m["kind"].startswith("empty-rect"):
            ctx.violation("pixels:%s:%s" % (m["kind"], m["key"]), "drawn elsewhere than over the target rectangle: " + m["kind"],
                          dict(kind=m["kind"], size=m["size"], image=m["image"], ndiff=m["ndiff"]))
    st = r["summary"]["stats"]
    progs = sum(v for k, v in st.items() if k.endswith(".programs"))
    cov = dict(states=mc["distinct"], transitions=mc["generated"], traces_validated_against_impl=progs,
               samples=vlib.sample_lines(r["files"][1], 4, 900)[1:],
               evaluations=r["events"], distinct_nontrivial=progs,
               rule="one trace per program; calls whose geometry left the lattice are counted in nskipgeo and not judged",
               stats=st, totals=r["totals"], pixel_level=px)
    return vlib.finish(ctx, "model_checking", cov, [
        "exact comparison on the lattice only (dyadic scale, |coord| <= 512, multiples of 1/64)",
        "after an elliptical arc the pen is inexact: later relative operations are compared within 2^-8 px until the next absolute move",
        "arcs themselves are C06"])
