"""C05 - path geometry reaches the rasteriser correctly mapped from viewBox to pixels.

Renderer.tla computes the rasteriser calls of every drawing operation in exact fixed point on a
lattice (coordinates multiples of 1/64, dyadic scales incl. non-uniform 3 x 2.5, off-centre
viewBoxes, rectangles at non-zero origins) where IEEE arithmetic is exact, so the comparison with
the real Renderer's calls is equality of coordinates.  TV: random drawing programs, all ordered
verb pairs (smooth-curve memory), corpus files at lattice-compatible sizes, reuse runs."""
from lib import vlib, rendcheck


def run(ctx):
    quick = ctx.tier == "quick"
    ctx.build_harness()
    ctx.tlc_must_pass("MC_Renderer", "MC_Renderer_q" if quick else "MC_Renderer_t", timeout=3000)
    r = rendcheck.run_rend_traces(ctx, ["geometry", "corpus", "reuse", "arcs"], 500 if quick else 30000)
    for d in r["diags"]:
        if rendcheck.classify(d) == "raster":
            ctx.violation(rendcheck.vkey(d), "rasteriser calls differ from the mapped path: %s" % d.get("what"), d)
    mc = ctx.mc[-1]
    st = r["summary"]["stats"]
    progs = sum(v for k, v in st.items() if k.endswith(".programs"))
    cov = dict(states=mc["distinct"], transitions=mc["generated"], traces_validated_against_impl=progs,
               samples=vlib.sample_lines(r["files"][1], 4, 900)[1:],
               evaluations=r["events"], distinct_nontrivial=progs,
               rule="one trace per program; calls whose geometry left the lattice are counted in nskipgeo and not judged",
               stats=st, totals=r["totals"])
    return vlib.finish(ctx, "model_checking", cov, [
        "exact comparison on the lattice only (dyadic scale, |coord| <= 512, multiples of 1/64)",
        "after an elliptical arc the pen is inexact: later relative operations are compared within 2^-8 px until the next absolute move",
        "arcs themselves are C06"])
