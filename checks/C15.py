"""C15 - gradient paint: premultiplied interpolation, spread modes, geometry.

GradientPaint.tla: Clamp per spread (none / pad / repeat = fractional part / reflect = triangle
wave of period 2) and piece-wise linear premultiplied interpolation with first/last colour outside
the stops, exact on a dyadic lattice (offsets in 2^-12, 16-bit channels); MC_Gradient checks the
lemmas (periodicity, evenness, integers, stop colours, premultiplied results) on the grid k/8.
TV: real gradient images -- render.Gradient built directly and the image a real Renderer hands to
Draw after building it from registers -- are evaluated at blocks of pixels, at pixels whose centres
map exactly onto integers and half-integers of the offset (-4..4), and far away; each result is
compared with the exact value (equality when the interpolation parameter is dyadic, +-1 of 65535
otherwise; radial distances by exact square or integer square-root bracket).  cfg events check
that the pixel->gradient matrix is the register matrix composed with the pixel->viewBox map."""
import glob, json, os
from lib import vlib, deccheck


def run(ctx):
    quick = ctx.tier == "quick"
    ctx.build_harness()
    ctx.tlc_must_pass("MC_Gradient", "MC_Gradient", timeout=600)
    # unbounded: the spread rules for ALL integer offsets (reflect = even triangle wave of period 2 within [0,1], repeat of
    # period 1, identity inside [0,1], pad clamps, none has no colour outside) - TLAPS, 34 obligations
    ctx.tlapm_must_prove("GradientProofs")
    p, _ = ctx.run_harness(["drive-c15", "-out", ctx.tmp, "-shards", "16" if quick else "48", "-n", str(40 if quick else 4000)], timeout=3000)
    summ = deccheck.summary_of(p)
    files = sorted(glob.glob(os.path.join(ctx.tmp, "c15.*.ndjson")))
    events, diags, runs = vlib.tv_shards(ctx, "TV_Gradient", "TV_Gradient", files)
    unj = 0
    for d in diags:
        if d.get("diag") == "unjudged":
            unj += 1
            continue
        if d.get("what") == "hint":
            raise vlib.Broken("a generated hard-edge case is inconsistent (machinery): %s" % json.dumps(d)[:400])
        ev = d.get("ev", {})
        if isinstance(ev.get("stops"), list) and len(ev["stops"]) > 6:
            ev["stops"] = ev["stops"][:3] + ["... %d stops" % len(ev["stops"])]
        key = "%s:%s:spread=%s:shape=%s" % (ev.get("ev"), d.get("what"), ev.get("spread"), ev.get("shape"))
        ctx.violation(key + ":%s,%s" % (ev.get("x"), ev.get("y")), "gradient paint: %s" % d.get("what"), d)
    judged = events - unj
    if judged < 0.5 * events:
        raise vlib.Broken("vacuous: only %d of %d gradient events were on the lattice" % (judged, events))
    mc = ctx.mc[-1]
    cov = dict(states=mc["distinct"], transitions=max(1, mc["generated"]), traces_validated_against_impl=judged,
               samples=vlib.sample_lines(files[0], 2, 4000),
               evaluations=events, distinct_nontrivial=judged,
               rule="one event per (gradient image, pixel) or per composed matrix; non-trivial = on the dyadic lattice and judged",
               unjudged=unj, stats=summ["stats"])
    return vlib.finish(ctx, "model_checking", cov, [
        "lattice data for exact comparison (offsets multiples of 2^-12, dyadic matrices); off-lattice events are reported as unjudged",
        "the matrix composition is compared exactly only for power-of-two viewBox-to-pixel scales",
        "pixels after compositing by x/image/vector are C16's concern"])
