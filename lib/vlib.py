"""Shared plumbing for /verif/bin/check: scratch dirs, harness build, TLC runs,
diagnostics parsing, known findings, evidence files, verdict lines.

Exit codes of a check: 0 = property held on everything explored (possibly with
KNOWN-FINDING lines), 1 = VIOLATION (unlisted violation observed on real code),
2 = the machinery could not reach a verdict (never reported as a violation)."""
import json, os, re, shutil, subprocess, sys, tempfile, time, hashlib

VERIF = os.path.dirname(os.path.dirname(os.path.abspath(__file__)))
REPO = os.environ.get("VERIF_REPO", "/repo")
SPEC = os.path.join(VERIF, "spec")
HARNESS = os.path.join(VERIF, "harness")
TLA_JAR = "/opt/veriftools/tla/tla2tools.jar:/opt/veriftools/tla/CommunityModules-deps.jar"
NCPU = os.cpu_count() or 4

GOENV = dict(GOFLAGS="-mod=mod", GOPROXY="off", GOSUMDB="off", GOTOOLCHAIN="local",
             CGO_ENABLED="0")


class Broken(Exception):
    """Machinery failure: exit 2, never a violation."""


def log(*a):
    print(*a, flush=True)


class Ctx:
    """One run of one check."""

    def __init__(self, pid, tier, seed):
        self.pid, self.tier, self.seed = pid, tier, seed
        self.t0 = time.time()
        self.tmp = tempfile.mkdtemp(prefix="verif-%s-" % pid)
        self.specdir = os.path.join(self.tmp, "spec")
        shutil.copytree(SPEC, self.specdir)
        # TLC wants the cfg next to the module: copy them all once (not per run: parallel runs share the directory)
        for c in os.listdir(os.path.join(self.specdir, "cfg")):
            shutil.copy(os.path.join(self.specdir, "cfg", c), os.path.join(self.specdir, c))
        self.harness = None
        self.mc = []            # MC run summaries
        self.tv = []            # TV / GEN run summaries
        self.violations = []    # dicts: key, what, detail
        self.known_hits = []
        self.notes = []
        self.proofs = []        # TLAPS runs

    def cleanup(self):
        shutil.rmtree(self.tmp, ignore_errors=True)

    # ---------------------------------------------------------------- build
    def build_harness(self, race=False):
        """Build the Go harness against /repo's *current working tree* with the
        verif build tag (hooks on)."""
        env = dict(os.environ, **GOENV)
        if race:
            env["CGO_ENABLED"] = "1"
        gosum = os.path.join(REPO, "go.sum")
        if os.path.exists(gosum):
            shutil.copy(gosum, os.path.join(HARNESS, "go.sum"))
        modfile = None
        if REPO != "/repo":
            # development-time self test against a scratch copy of the repository
            modfile = os.path.join(self.tmp, "go.alt.mod")
            txt = open(os.path.join(HARNESS, "go.mod")).read().replace("=> /repo", "=> " + REPO)
            open(modfile, "w").write(txt)
            shutil.copy(os.path.join(HARNESS, "go.sum"), os.path.join(self.tmp, "go.alt.sum"))
        out = os.path.join(self.tmp, "harness-race" if race else "harness")
        cmd = ["go", "build", "-tags", "verif"]
        if race:
            cmd.append("-race")
        if modfile:
            cmd += ["-modfile", modfile]
        cmd += ["-o", out, "./cmd/harness"]
        p = subprocess.run(cmd, cwd=HARNESS, env=env, capture_output=True, text=True)
        if p.returncode != 0:
            raise Broken("harness build failed:\n" + p.stdout + p.stderr)
        if not race:
            self.harness = out
        return out

    def run_harness(self, args, timeout=3600, binary=None, env=None, check=True):
        e = dict(os.environ, VERIF_SEED=str(self.seed), VERIF_TIER=self.tier, VERIF_REPO=REPO)
        if env:
            e.update(env)
        t = time.time()
        p = subprocess.run([binary or self.harness] + args, cwd=self.tmp, env=e,
                           capture_output=True, text=True, timeout=timeout)
        if check and p.returncode != 0:
            raise Broken("harness %s failed (exit %d):\n%s\n%s" %
                         (" ".join(args), p.returncode, p.stdout[-4000:], p.stderr[-4000:]))
        return p, time.time() - t

    # ------------------------------------------------------------------ TLC
    def tlc(self, module, cfg, workers=None, env=None, timeout=1800, simulate=None,
            depth=None, extra=None, label=None, heap=None, out_file=None):
        """Run TLC on spec/<module>.tla with spec/cfg/<cfg>.cfg in the scratch copy.
        Returns dict(out, diags, generated, distinct, ok, violated)."""
        workers = workers or NCPU
        meta = tempfile.mkdtemp(prefix="meta-", dir=self.tmp)
        cfgpath = os.path.join(self.specdir, "cfg", cfg + ".cfg")
        if not os.path.exists(cfgpath):
            raise Broken("missing cfg " + cfgpath)
        gct = 2 if workers <= 2 else min(8, workers)
        cmd = ["java", "-Djava.io.tmpdir=" + meta, "-XX:+UseParallelGC", "-XX:ParallelGCThreads=%d" % gct, "-Xss256m",
               "-Xmx%s" % (heap or ("4g" if workers <= 2 else "16g")), "-cp", TLA_JAR, "tlc2.TLC",
               "-workers", str(workers), "-metadir", meta, "-config", cfg + ".cfg",
               "-noGenerateSpecTE"]
        if simulate:
            cmd += ["-simulate", simulate]
        if depth:
            cmd += ["-depth", str(depth)]
        if extra:
            cmd += extra
        cmd.append(module)
        e = dict(os.environ)
        if env:
            e.update({k: str(v) for k, v in env.items()})
        t = time.time()
        try:
            if out_file:
                # large generated outputs (GEN configs) are streamed to a file, not held in memory
                with open(out_file, "w") as of:
                    p = subprocess.run(cmd, cwd=self.specdir, env=e, stdout=of, stderr=subprocess.STDOUT,
                                       text=True, timeout=timeout)
            else:
                p = subprocess.run(cmd, cwd=self.specdir, env=e, capture_output=True, text=True,
                                   timeout=timeout)
        except subprocess.TimeoutExpired:
            raise Broken("TLC timeout on %s/%s" % (module, cfg))
        finally:
            shutil.rmtree(meta, ignore_errors=True)
        if out_file:
            with open(out_file, "rb") as of:
                of.seek(0, 2)
                size = of.tell()
                of.seek(max(0, size - 20000))
                tailtxt = of.read().decode("utf-8", "replace")
            # keep only the non-generated lines of the tail for the summary parsers
            out = "\n".join(l for l in tailtxt.splitlines() if not l.startswith('"{'))
        else:
            out = p.stdout + p.stderr
        wall = time.time() - t
        res = dict(module=module, cfg=cfg, label=label or cfg, wall_s=round(wall, 2), out=out,
                   rc=p.returncode)
        m = re.findall(r"(\d+) states generated, (\d+) distinct states found", out)
        if m:
            res["generated"], res["distinct"] = int(m[-1][0]), int(m[-1][1])
        else:
            res["generated"], res["distinct"] = 0, 0
        res["diags"] = parse_diags(out)
        res["finished"] = "Model checking completed. No error has been found." in out or \
            ("Finished in" in out and "Error:" not in out)
        res["violated"] = bool(re.search(r"Error: (Invariant|Action property|Temporal|Postcondition|Deadlock|Assumption)", out)) \
            or "is violated" in out
        res["error"] = ("Error:" in out) or p.returncode not in (0,)
        return res

    def tlapm_must_prove(self, module, timeout=900):
        """Run the TLA+ proof system on spec/<module>.tla in the scratch copy: every obligation must be proved
        (a failure is a defect of the specification's proofs: machinery, exit 2)."""
        import shutil as _sh
        exe = _sh.which("tlapm")
        if not exe:
            self.notes.append("tlapm not found: proofs of %s not re-checked in this run" % module)
            return None
        t = time.time()
        m, out = None, ""
        for attempt in (1, 2):      # back-end time-outs under load are not verdicts: stretched limits, one retry
            try:
                p = subprocess.run([exe, "--threads", str(min(NCPU, 8)), "--stretch", str(3 * attempt), "--cleanfp", module + ".tla"],
                                   cwd=self.specdir, capture_output=True, text=True, timeout=timeout)
            except subprocess.TimeoutExpired:
                raise Broken("tlapm timeout on " + module)
            out = p.stdout + p.stderr
            m = re.search(r"All (\d+) obligations? proved", out)
            if m:
                break
        if not m:
            raise Broken("tlapm did not prove %s:\n%s" % (module, tail(out)))
        r = dict(module=module, obligations_proved=int(m.group(1)), wall_s=round(time.time() - t, 2))
        self.proofs.append(r)
        return r

    def tlc_must_pass(self, *a, **kw):
        """An MC run of the specification itself: any failure is a machinery bug."""
        r = self.tlc(*a, **kw)
        if r["error"] or not r["finished"]:
            raise Broken("TLC run %s/%s failed (spec-level, not a property violation):\n%s"
                         % (r["module"], r["cfg"], tail(r["out"])))
        self.mc.append({k: r[k] for k in ("module", "cfg", "generated", "distinct", "wall_s")})
        return r

    # ------------------------------------------------------------ verdicts
    def violation(self, key, what, detail=None):
        self.violations.append(dict(key=key, what=what, detail=detail))

    def note(self, s):
        self.notes.append(s)
        log("note:", s)


def tail(s, n=3000):
    return s[-n:]


def parse_diags(out):
    """Diagnostics are printed by the specs as PrintT(ToJson(rec)) : a quoted,
    escaped JSON string on its own line, whose object has a field "diag"."""
    diags = []
    for line in out.splitlines():
        line = line.strip()
        if not line.startswith('"{') or '\\"diag\\"' not in line:
            continue
        try:
            inner = json.loads(line)
            diags.append(json.loads(inner))
        except Exception:
            diags.append(dict(diag="unparsed", raw=line[:500]))
    return diags


# ---------------------------------------------------------------- known findings
def load_known():
    p = os.path.join(VERIF, "known_findings.json")
    if not os.path.exists(p):
        return dict(findings=[], fixed=[])
    return json.load(open(p))


def finish(ctx, level, coverage, assumptions):
    """Write the evidence file, print KNOWN-FINDING / VIOLATION lines, return exit code."""
    known = load_known()
    listed = {f["key"]: f for f in known.get("findings", []) if f["property"] == ctx.pid}
    extra = ctx.pid.startswith("X")      # coverage beyond the listed properties (DESIGN.md section 11)
    new, hits = [], {}
    for v in ctx.violations:
        if v["key"] in listed:
            hits.setdefault(v["key"], v)
        else:
            new.append(v)
    for k, v in hits.items():
        log("KNOWN-FINDING: property=%s %s" % (ctx.pid, listed[k]["what"]))
    rc = 0
    replay = None
    if new:
        rc = 1
        rdir = os.path.join(VERIF, "replays", ctx.pid)
        if REPO != "/repo":
            rdir = os.path.join(VERIF, "replays", "scratch", ctx.pid)
        os.makedirs(rdir, exist_ok=True)
        replay = os.path.join(rdir, "%s-seed%d.json" % (ctx.tier, ctx.seed))
        json.dump(dict(property=ctx.pid, tier=ctx.tier, seed=ctx.seed, violations=new[:50]),
                  open(replay, "w"), indent=1)
        for v in new[:5]:
            log("violation detail:", json.dumps(v)[:1500])
        if extra:
            log("EXTRA-DEVIATION spec=%s replay=%s" % (ctx.pid, replay))
        else:
            log("VIOLATION property=%s replay=%s" % (ctx.pid, replay))
    coverage = dict(coverage)
    coverage.setdefault("mc_runs", ctx.mc)
    coverage.setdefault("tv_runs", ctx.tv)
    if ctx.notes:
        coverage["notes"] = ctx.notes
    if getattr(ctx, "proofs", None):
        coverage["tlaps"] = ctx.proofs
    ev = dict(property_id=ctx.pid, tier=ctx.tier, seed=ctx.seed, level=level,
              coverage=coverage, assumptions=assumptions,
              wall_s=round(time.time() - ctx.t0, 2), violations=len(new),
              known_findings_hit=sorted(hits.keys()))
    evdir = os.path.join(VERIF, "evidence", "extra") if extra else os.path.join(VERIF, "evidence")
    if os.environ.get("VERIF_NOEVIDENCE"):   # development-time runs against a scratch copy (bin/seedrun2)
        evdir = ctx.tmp
    os.makedirs(evdir, exist_ok=True)
    with open(os.path.join(evdir, ctx.pid + ".json"), "w") as f:
        json.dump(ev, f, indent=1, default=str)
        f.write("\n")
    log("%s %s seed=%d: %s in %.1fs" % (ctx.pid, ctx.tier, ctx.seed,
                                        "VIOLATION" if rc else "ok", time.time() - ctx.t0))
    return rc


def count_lines(path):
    n = 0
    with open(path, "rb") as f:
        for _ in f:
            n += 1
    return n


def sample_lines(path, k=3, maxlen=600):
    out = []
    with open(path) as f:
        for i, line in enumerate(f):
            if i >= k:
                break
            out.append(json.loads(line) if len(line) < maxlen else line[:maxlen] + "...")
    return out


def tv_shards(ctx, module, cfg, files, env_name="VERIF_TRACE", timeout=3000, par=None,
              expect_all=True, heap=None):
    """Validate many trace files in parallel, one single-worker TLC process per file.
    Returns (events, diags, runs)."""
    from concurrent.futures import ThreadPoolExecutor
    par = par or min(NCPU, 12)          # each process may grow to its -Xmx (4g): keep the sum below RAM

    def one(f):
        return f, ctx.tlc(module, cfg, workers=1, env={env_name: f}, timeout=timeout,
                          label=os.path.basename(f), heap=heap)
    events, diags, runs = 0, [], []
    with ThreadPoolExecutor(max_workers=par) as ex:
        for f, r in ex.map(one, files):
            if r["error"] or not r["finished"]:
                raise Broken("trace validation run failed on %s (machinery, not a verdict):\n%s"
                             % (f, tail(r["out"])))
            if expect_all:
                n = count_lines(f)
                if r["distinct"] != n:
                    raise Broken("TLC judged %d of %d events in %s" % (r["distinct"], n, f))
            events += r["distinct"]
            for d in r["diags"]:
                d["file"] = os.path.basename(f)
            diags += r["diags"]
            runs.append(dict(file=os.path.basename(f), states=r["distinct"], wall_s=r["wall_s"]))
    ctx.tv.append(dict(module=module, cfg=cfg, files=len(files), events=events,
                       rejected=len(diags)))
    return events, diags, runs
