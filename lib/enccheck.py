"""Shared driver for the Encoder-side properties (C01, C10, C17)."""
import glob, json, os
from lib import vlib, deccheck


def run_enc_traces(ctx, families, n, cmp_fields, want=("enc", "rt", "dec"), shards=None, sub=None):
    shards = shards or (8 if ctx.tier == "quick" else 32)
    outdir = os.path.join(ctx.tmp, sub) if sub else ctx.tmp     # sub: keep apart from another driver's files
    os.makedirs(outdir, exist_ok=True)
    p, _ = ctx.run_harness(["drive-enc", "-out", outdir, "-shards", str(shards), "-n", str(n),
                            "-families", ",".join(families), "-cmp", ",".join(cmp_fields)], timeout=3000)
    summ = deccheck.summary_of(p)
    res = dict(summary=summ, diags={}, files={})
    for kind, module in (("enc", "TV_Encoder"), ("rt", "TV_RoundTrip"), ("dec", "TV_Decoder")):
        if kind not in want:
            continue
        files = [f for f in sorted(glob.glob(os.path.join(outdir, kind + ".*.ndjson")))
                 if os.path.getsize(f) > 0]
        res["files"][kind] = files
        if not files:
            res["diags"][kind] = []
            continue
        events, diags, runs = vlib.tv_shards(ctx, module, module, files, expect_all=False)
        lines = sum(vlib.count_lines(f) for f in files)
        got = sum(d.get("lines", 0) for d in diags if d.get("diag") == "summary")
        if got != lines:
            raise vlib.Broken("%s consumed %d of %d lines" % (module, got, lines))
        # (a panic of the raster/vec rendering route on non-finite geometry is C02's business - a known finding there)
        res["diags"][kind] = [d for d in diags if d.get("diag") not in ("summary", "panic while rendering through raster/vec")]
    return res


def trim(d):
    d = dict(d)
    for k in ("b", "fresh"):
        if k in d and len(str(d[k])) > 400:
            d[k] = str(d[k])[:400] + "..."
    return d
