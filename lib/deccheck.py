"""Shared driver for the decoder-trace properties (C02, C03, C11, C13)."""
import glob, json, os
from lib import vlib


def summary_of(p):
    return json.loads([l for l in p.stdout.splitlines() if l.startswith("@@SUMMARY ")][-1][10:])


def run_decoder_traces(ctx, families, n, kinds, what, prefix="dec", shards=None):
    """Drive the real decoder on the families, validate with TV_Decoder, register
    violations for diagnostics whose kind is in `kinds`.  Returns coverage bits."""
    shards = shards or (16 if ctx.tier == "quick" else 48)
    p, _ = ctx.run_harness(["drive-dec", "-out", ctx.tmp, "-prefix", prefix, "-shards", str(shards),
                            "-families", ",".join(families), "-n", str(n)], timeout=3000)
    summ = summary_of(p)
    files = sorted(glob.glob(os.path.join(ctx.tmp, prefix + ".*.ndjson")))
    events, diags, runs = vlib.tv_shards(ctx, "TV_Decoder", "TV_Decoder", files, expect_all=False)
    lines = sum(vlib.count_lines(f) for f in files)
    tot = dict(nbad=0, nloose=0, lines=0)
    other = 0
    for d in diags:
        if d.get("diag") == "summary":
            for k in tot:
                tot[k] += d.get(k, 0)
            continue
        if d.get("diag") in kinds:
            if d.get("diag") == "panic while rendering through raster/vec":
                # identified by where the panic comes from and what it says (package of the innermost frame : message),
                # not by the input: known_findings.json lists one such place
                ctx.violation("vecpanic:%s" % d.get("want"), what + ": panic while rendering through raster/vec (%s), e.g. input %s"
                              % (d.get("want"), d.get("id")), d)
                continue
            ctx.violation("%s:%s" % (d.get("diag"), d.get("id")), what + ": " + str(d.get("diag")), d)
        else:
            other += 1
    if tot["lines"] != lines:
        raise vlib.Broken("trace validation consumed %d of %d lines" % (tot["lines"], lines))
    st = summ["stats"]
    inputs = sum(v for k, v in st.items() if k.endswith(".inputs"))
    return dict(inputs=inputs, events=lines, stats=st, loose_inputs=tot["nloose"],
                rejected_other_kinds=other, files=files)
