"""Shared by C11 and X02: cmd/disivg replayed against Cli.tla (GEN_Cli)."""
import json, os, subprocess
from lib import vlib, deccheck


def run_cli(ctx, cfg="GEN_Cli"):
    """Builds cmd/disivg from the repository under test, generates the command sequences with TLC,
    replays them; registers one violation per disagreement; returns the coverage summary."""
    binp = os.path.join(ctx.tmp, "disivg")
    env = dict(os.environ, GOFLAGS="-mod=mod", GOPROXY="off", GOSUMDB="off", GOTOOLCHAIN="local")
    p = subprocess.run(["go", "build", "-o", binp, "./cmd/disivg"], cwd=vlib.REPO, env=env, capture_output=True, text=True)
    if p.returncode != 0:
        raise vlib.Broken("cmd/disivg does not build:\n" + p.stdout + p.stderr)
    gen = os.path.join(ctx.tmp, "GEN_Cli.out")
    g = ctx.tlc("GEN_Cli", cfg, timeout=1800, out_file=gen)
    if g["error"] or not g["finished"]:
        raise vlib.Broken("GEN_Cli failed (spec-level):\n%s" % vlib.tail(g["out"]))
    ctx.mc.append({k: g[k] for k in ("module", "cfg", "generated", "distinct", "wall_s")})
    mis = os.path.join(ctx.tmp, "cli.mis")
    work = os.path.join(ctx.tmp, "cliwork")
    os.makedirs(work, exist_ok=True)
    p, _ = ctx.run_harness(["replay-cli", "-in", gen, "-out", mis, "-bin", binp, "-work", work], timeout=3000)
    s = deccheck.summary_of(p)
    if s["cases"] < 1000:
        raise vlib.Broken("too few generated sequences: %d" % s["cases"])
    for line in open(mis):
        m = json.loads(line)
        ctx.violation("cli:%s:%s" % (m["what"][:40], "|".join(m["seq"])),
                      "cmd/disivg differs from Cli.tla after %s: %s" % (" ; ".join(m["seq"]), m["what"]), m)
    return dict(states=g["distinct"], transitions=g["generated"], sequences=s["cases"],
                process_runs=s["process_runs"], listing_bytes=[s["listing_big"], s["listing_small"]])
