"""Shared driver for the Generator pipelines (C07, C19)."""
import glob, json, os
from lib import vlib, deccheck


def run_gen(ctx, n, steps=30, shards=None):
    shards = shards or (8 if ctx.tier == "quick" else 32)
    p, _ = ctx.run_harness(["drive-gen", "-out", ctx.tmp, "-shards", str(shards), "-n", str(n),
                            "-steps", str(steps)], timeout=3000)
    summ = deccheck.summary_of(p)
    out = dict(summary=summ, diags={}, files={}, lines=0)
    for kind, module in (("rend", "TV_Renderer"), ("enc", "TV_Encoder"), ("rt", "TV_RoundTrip")):
        files = [f for f in sorted(glob.glob(os.path.join(ctx.tmp, kind + ".*.ndjson"))) if os.path.getsize(f) > 0]
        out["files"][kind] = files
        _, diags, _ = vlib.tv_shards(ctx, module, module, files, expect_all=False, heap="6g")
        lines = sum(vlib.count_lines(f) for f in files)
        got = sum(d.get("lines", 0) for d in diags if d.get("diag") == "summary")
        if got != lines:
            raise vlib.Broken("%s consumed %d of %d lines" % (module, got, lines))
        out["lines"] += lines
        out["diags"][kind] = [d for d in diags if d.get("diag") != "summary"]
    return out


def short(d):
    d = json.loads(json.dumps(d))
    e = d.get("ev", {})
    if isinstance(e, dict) and isinstance(e.get("stops"), list) and len(e["stops"]) > 6:
        e["stops"] = "%d stops" % len(e["stops"])
    for k in ("b", "fresh"):
        if k in d and len(str(d[k])) > 300:
            d[k] = str(d[k])[:300] + "..."
    return d
