"""Shared by X05 and C17: raster/vec.Rasterizer replayed against VecRast.tla (GEN_VecRast)."""
import json, os
from lib import vlib, deccheck


def run_vecrast(ctx, cfg="GEN_VecRast"):
    gen = os.path.join(ctx.tmp, "GEN_VecRast.out")
    g = ctx.tlc("GEN_VecRast", cfg, timeout=1800, out_file=gen)
    if g["error"] or not g["finished"]:
        raise vlib.Broken("GEN_VecRast failed (spec-level):\n%s" % vlib.tail(g["out"]))
    ctx.mc.append({k: g[k] for k in ("module", "cfg", "generated", "distinct", "wall_s")})
    mis = os.path.join(ctx.tmp, "vecrast.mis")
    p, _ = ctx.run_harness(["replay-vecrast", "-in", gen, "-out", mis], timeout=3000)
    s = deccheck.summary_of(p)
    if s["cases"] < 2000 or s["steps"] < 10000:
        raise vlib.Broken("too few generated sequences: %d (%d steps)" % (s["cases"], s["steps"]))
    for line in open(mis):
        m = json.loads(line)
        ctx.violation("vecrast:%s:%s" % (m["route"], "|".join(m["seq"])),
                      "vec.Rasterizer differs from VecRast.tla (%s): %s" % (m["route"], m["what"]), m)
    return dict(states=g["distinct"], transitions=g["generated"], sequences=s["cases"], steps_compared=s["steps"])
