"""Shared driver for the Renderer-side properties (C04, C05, C06, C17)."""
import glob, json, os
from lib import vlib, deccheck

ARCS = ("AbsArcTo", "RelArcTo")


def classify(d):
    """vm | raster | arc"""
    op = d.get("ev", {}).get("call", {}).get("op")
    if op in ARCS and d.get("diag") in ("raster", "arc"):
        return "arc"
    return d.get("diag")


def run_rend_traces(ctx, families, n, shards=None, prefix="rend", sub=None):
    shards = shards or (8 if ctx.tier == "quick" else 32)
    outdir = os.path.join(ctx.tmp, sub) if sub else ctx.tmp     # sub: keep apart from another driver's files
    os.makedirs(outdir, exist_ok=True)
    p, _ = ctx.run_harness(["drive-rend", "-out", outdir, "-shards", str(shards), "-n", str(n),
                            "-families", ",".join(families)], timeout=3000)
    summ = deccheck.summary_of(p)
    files = sorted(glob.glob(os.path.join(outdir, prefix + ".*.ndjson")))
    events, diags, runs = vlib.tv_shards(ctx, "TV_Renderer", "TV_Renderer", files, expect_all=False)
    lines = sum(vlib.count_lines(f) for f in files)
    tot = dict(lines=0, njudged=0, nskipgeo=0, nbad=0)
    out = []
    for d in diags:
        if d.get("diag") == "summary":
            for k in tot:
                tot[k] += d.get(k, 0)
        else:
            out.append(d)
    if tot["lines"] != lines:
        raise vlib.Broken("TV_Renderer consumed %d of %d lines" % (tot["lines"], lines))
    if tot["njudged"] < 100:
        raise vlib.Broken("vacuous run: only %d rasteriser-judged calls" % tot["njudged"])
    return dict(summary=summ, diags=out, totals=tot, files=files, events=lines)


def vkey(d):
    c = d.get("ev", {}).get("call", {})
    return "%s:%s:%s:%s" % (classify(d), d.get("what"), d.get("id"), c.get("op"))
